#!/usr/bin/env python3
"""Regenerates the generated blocks of DESIGN.md (between <!-- BEGIN x --> / <!-- END x --> markers):
   SEEDS  - table of seeded changes from seeded/*/meta.json and seeded/RESULTS.md
   BOUNDS - per property coverage numbers from evidence/*.json (last run) and evidence/thorough_log.txt"""
import json, glob, re, os
V='/verif'
def block(text, name, body):
    b=f'<!-- BEGIN {name} -->'; e=f'<!-- END {name} -->'
    i=text.index(b)+len(b); j=text.index(e)
    return text[:i]+'\n'+body+'\n'+text[j:]
res={}
if os.path.exists(f'{V}/seeded/RESULTS.md'):
    for l in open(f'{V}/seeded/RESULTS.md'):
        p=[x.strip() for x in l.strip().strip('|').split('|')]
        if len(p)>=6 and p[0] not in ('seeded change','---'):
            res[p[0]]=(p[3],p[4],p[5])
rows=['| seeded change | needs to manifest | caught by (and why it was missed at first, if it was) | last regression run: exit / violations |','|---|---|---|---|']
n=0; missed=0
for f in sorted(glob.glob(f'{V}/seeded/*/meta.json')):
    m=json.load(open(f)); n+=1
    if 'missed' in m['detected_by'] or 'added for this seed' in m['detected_by']: missed+=1
    r=res.get(m['id'],('',' ',''))
    rows.append(f"| {m['id']} | {m['needs_to_manifest']} | {m['detected_by']} | {r[0]} / {r[1]} |")
seeds='\n'.join(rows)+f'\n\n{n} seeded changes kept; {missed} of them were missed by the check as it stood when the change arrived.'
brow=['| id | tier of the committed evidence | evaluations | distinct non-trivial | states | transitions | known findings seen | wall s | layers (cases, complete) |','|---|---|---|---|---|---|---|---|---|']
for f in sorted(glob.glob(f'{V}/evidence/C*.json')):
    j=json.load(open(f)); c=j['coverage']
    layers='; '.join(f"{l['layer']}: {l['cases']}{'' if l['complete'] else ' (capped)'}" for l in c.get('layers',[]))
    brow.append(f"| {j['property_id']} | {j['tier']} | {c['evaluations']} | {c['distinct_nontrivial']} | {c.get('states','')} | {c.get('transitions','')} | {len(c.get('known_findings_seen',[]))} | {j['wall_s']} | {layers} |")
bounds='\n'.join(brow)
tl=f'{V}/evidence/thorough_log.txt'
if os.path.exists(tl):
    bounds+='\n\nLast complete thorough sweep (`for p in C01..C20; do ./check $p thorough; done`):\n\n```\n'+open(tl).read().strip()+'\n```'
p=f'{V}/DESIGN.md'; s=open(p).read()
s=block(s,'SEEDS',seeds); s=block(s,'BOUNDS',bounds)
open(p,'w').write(s); print('ok',n,'seeds')
