#!/usr/bin/env python3
"""kf.py add <property> <id> <known|fixed> <signature> <description> [commit] [witness-json] -- maintains known_findings.json (never used at check time)"""
import json, sys
p='/verif/known_findings.json'
j=json.load(open(p))
_, cmd, prop, fid, status, sig, desc, *rest = sys.argv
commit = rest[0] if rest else None
wit = json.loads(rest[1]) if len(rest)>1 else None
j['findings']=[f for f in j['findings'] if f['id']!=fid]
e={'property':prop,'id':fid,'status':status,'signature':sig,'description':desc}
if status=='fixed':
    e['commit']=commit
    e['line']=f'fixed: property={prop} {commit} {desc}'
if wit is not None: e['witness']=wit
j['findings'].append(e)
json.dump(j,open(p,'w'),indent=1,ensure_ascii=False)
print('ok',fid)
