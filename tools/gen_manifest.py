#!/usr/bin/env python3
"""Regenerates /verif/MANIFEST.json from the table below (single source of truth for check metadata)."""
import json, os, subprocess

V = '/verif'
props = [json.loads(l)['id'] for l in open(f'{V}/properties.jsonl')]

# property -> (category, level text, technique, level_note)
CHECKS = {
 'C03': ('exploration', 'every expression node kind over all tuples of 24 leaves (ill-typed combinations included) on all rows of the product domain of the mentioned columns, second layer of binary/unary/cast nodes over all first-layer children, as projection and as WHERE, against an independent reference evaluator (value / error / open); statement shapes (projection lists x filters x line sequences)', 'bounded-exhaustive enumeration of programs (expression trees to depth 2) x input rows against an independent reference evaluator', 'trusted: reference evaluator in the harness (refmodel/expr.rs) restricted to what the property fixes; open points not compared; TZ=UTC'),
 'C06': ('exploration', 'metamorphic relation explored exhaustively within bounds: every statement of the corpus x every clean line sequence x every single and double insertion of every noise line at every position x batch and incremental drivers (also on the joined side); admission rule checked on NOT NULL / DEFAULT tables', 'bounded-exhaustive enumeration of noise insertions with a same-build metamorphic oracle', 'trusted: same-build oracle; noise alphabets in the harness'),
 'C17': ('exploration', 'all rows of 1..2 columns over a 43-value printable domain (3 columns reduced) x 3 formats x single_result x result shapes through the public OutputPrinter; JSON parse-back (exact INT, bit-exact REAL, text, arrays), CSV header/field accounting, text pairs, println accounting', 'bounded-exhaustive enumeration of result rows and result shapes with a parse-back oracle', 'trusted: serde_json as JSON parser, std float parser; REAL two-decimal text form adopted'),
 'C18': ('exploration', 'corpus x formats x table-definition contexts x controlled hash seeds (LD_PRELOAD getrandom shim, fresh thread per replica) x fresh processes; byte-identical output required; canary map proves seeds permute iteration orders. Exhaustive over the bounded seed set only', 'exhaustive enumeration of a bounded set of hash seeds (environment nondeterminism owned through a getrandom shim) with byte-equality oracle', 'trusted: std RandomState takes keys from libc getrandom (checked at run time); seed set is a bounded subset of the key space'),
 'C07': ('model_checking', 'operation-sequence exploration of the executor state machine: every line sequence up to the bound x every split into 1..3 files x every n, each LIMIT run compared with the unlimited run of the same build (output prefix + consumed-line count)', 'bounded-exhaustive operation sequences (lines x file splits x n) on the real FileExecutor, metamorphic oracle against the unlimited run', 'trusted: unlimited run of the same build; bounds in evidence'),
 'C08': ('model_checking', 'every line sequence up to the bound over a colliding tuple alphabet, DISTINCT output vs first-occurrence filter (reference tuple equality) of the non-DISTINCT output; long-gap scenarios; aggregate DISTINCT in batch and after every refresh', 'bounded-exhaustive operation sequences against a reference filter over the same build\'s non-DISTINCT output', 'trusted: reference tuple equality (NULL=NULL, numbers by value)'),
 'C10': ('model_checking', 'exhaustive schedule exploration of writer appends vs reader polls on the real FollowFileIterator through the FollowRetry hook: all contents up to the bound x all byte-level cuts x buffer capacities x stutter polls', 'stateless schedule enumeration on the real code via a cfg-guarded hook (environment moves = appends at the only observable point)', 'trusted: append atomicity per write(); DESIGN.md §5 C10 completeness argument'),
 'C11': ('model_checking', 'stateright BFS over input histories (state = history), invariant on every state: incremental driver == fresh batch driver of the real engine over the same prefix, one model per statement', 'explicit-state BFS (stateright) over histories with the real engine evaluated in the invariant', 'trusted: stateright 0.31; differential between two drivers of the same build'),
 'C12': ('exploration', 'all byte strings up to the bound over {a,b,LF,CR,é,FF} x every split into 1..3 files x SELECT/COUNT/joined side, against a reference line splitter', 'bounded-exhaustive input enumeration (bytes x file splits) against a reference line splitter', 'trusted: reference splitter (20 lines); CR handling compared modulo one trailing CR'),
 'C13': ('exploration', 'all two-operator expression trees (every ordered pair of the 12 binary operators in both shapes, every binary operator combined with NOT / unary minus / negative literals / casts / subscripts / IS / IN / CASE) and all three-operator trees (thorough): minimal-parentheses text vs fully parenthesised text must lower to the same statement and evaluate like the reference tree', 'bounded-exhaustive program enumeration (expression trees up to 3 operators) with a same-build structural oracle and a reference evaluator', 'trusted: reference grammar levels from the property; Debug of Statement is structural'),
 'C14': ('exploration', 'every prefix and single-token mutant of a statement corpus, all token sequences up to length 3 (4) over a 44 (52)-token vocabulary in 5 contexts, Unicode edge strings, named rejection cases, nesting to the documented bound on a 2 MiB stack, long flat texts in child processes; oracle: statement or located error, excerpt producible, never a panic/abort', 'bounded-exhaustive input enumeration (prefixes, token mutants, token soups) under catch_unwind and child-process isolation', 'trusted: documented nesting bound taken as 64; overflow checks on'),
 'C20': ('exploration', 'for every corpus statement every single-site layout variant (case flips, separators at every token boundary, comments at every boundary, semicolon, all clause permutations) must parse to the same statement (same build); string literal bodies in 5 contexts against a reference un-escaper', 'bounded-exhaustive enumeration of single-site layout variants with a same-build structural oracle', 'trusted: list of case-insensitive words in the harness'),
 'C15': ('model_checking', 'stateright BFS over input histories; invariants: result(history) == result(sorted history) (all permutations of all multisets up to the depth) and result(A++B) == combine(result(A), result(B)) at every cut', 'explicit-state BFS (stateright) over histories, metamorphic invariants on the real engine', 'trusted: stateright 0.31; combine() for COUNT/SUM/MIN/MAX in the harness'),
 'C16': ('exploration', 'exhaustive over a finite value domain: all same-type pairs and triples on Value\'s own operators, all consumer-level sequences up to the length bound, all INT x REAL comparison pairs', 'bounded-exhaustive enumeration of value pairs/triples and consumer inputs against order/equality/hash laws', 'trusted: rustc/std; TZ=UTC'),
 'C19': ('model_checking', 'all schedules of the interrupt store vs the executor\'s loads: interrupt before every load of the running flag (hooks) and after every printed record, for every statement x input x file split x joined-file size', 'stateless schedule enumeration on the real code via cfg-guarded hooks placed before each load of the shared flag', 'trusted: the flag is cleared at most once; DESIGN.md §5 C19 completeness argument'),
}
NOT_YET = 'check not built yet in this snapshot (work in progress; DESIGN.md §5 describes the planned bounded-exhaustive check)'

def main():
    built = sorted(k for k in CHECKS if os.path.exists(f'{V}/harness/src/checks/{k.lower()}.rs'))
    hooks_commit = subprocess.run(['git','-C','/repo','log','--format=%h','--grep=^verif:'],capture_output=True,text=True).stdout.split()
    m = {
     'version': 1,
     'setup_cmd': './setup.sh',
     'hooks': {'guard': 'cargo feature verif_hooks', 'enable': 'harness/Cargo.toml depends on sqlgrep = { path = "/repo", features = ["verif_hooks"] }; every ./check rebuilds it from /repo\'s working tree', 'baseline_off_cmd': 'cd /repo && cargo test --workspace --no-fail-fast --offline', 'source_commits': hooks_commit, 'add_only': True},
     'engines': [{'name': 'vcheck', 'path': 'harness', 'serves_properties': built, 'kind_free_text': 'Rust harness linking the real sqlgrep crate: bounded-exhaustive enumerators, schedule explorers over cfg-guarded hooks, stateright BFS over input histories, independent reference model'}],
     'checks': [], 'not_applicable': [],
     'notes': 'see DESIGN.md; known findings and fixed defects in known_findings.json; exit 0 = held (known findings allowed), 1 = violation, 2 = machinery failure',
    }
    for p in props:
        if p in built:
            cat, text, tech, note = CHECKS[p]
            m['checks'].append({'property_id': p, 'quick_cmd': f'./check {p} quick', 'thorough_cmd': f'./check {p} thorough', 'evidence_file': f'/verif/evidence/{p}.json', 'replay_cmd_template': f'./check {p} --replay {{path}}', 'engine': 'vcheck', 'level_claimed': {'category': cat, 'text': text, 'design_ref': f'DESIGN.md §5 {p}'}, 'level_note': note, 'technique': tech})
        else:
            m['not_applicable'].append({'property_id': p, 'reason': NOT_YET})
    json.dump(m, open(f'{V}/MANIFEST.json', 'w'), indent=1)
    print('built:', built)

main()
