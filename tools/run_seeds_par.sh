#!/bin/bash
# run_seeds_par.sh [workers] : the seed regression of run_seeds.sh on N private copies of /repo and /verif at once.
# Every worker runs in its own mount namespace (unshare -m) in which its copies are bind-mounted over /repo, /verif and
# /tmp, so the unchanged run_seeds.sh / check scripts (and all absolute paths) work as they are and the real /repo is
# never touched. Needs root. Results are merged into /verif/seeded/RESULTS.md. Development tooling, not a registered check.
N=${1:-5}
ROOT=/dev/shm/rv
[ -n "$ONLY" ] && ROOT=/dev/shm/rv_only
rm -rf $ROOT; mkdir -p $ROOT
cd /verif || exit 2
if [ -n "$ONLY" ]; then echo $ONLY | tr ' ' '\n' > $ROOT/all.txt; else ls -d seeded/*/ > $ROOT/all.txt; fi
for k in $(seq 0 $((N-1))); do awk -v n=$N -v k=$k 'NR % n == k' $ROOT/all.txt | tr '\n' ' ' > $ROOT/list.$k; done
for k in $(seq 0 $((N-1))); do
  (
    R=$ROOT/$k; mkdir -p $R/tmp $R/verif $R/repo
    rsync -a --exclude .git /verif/ $R/verif/
    # (with /repo's history: patches that need `git apply --3way` find their base blobs)
    rsync -a --exclude target --exclude '.git/worktrees' /repo/ $R/repo/
    (cd $R/repo && git worktree prune && git reset -q --hard HEAD) >/dev/null 2>&1
    : > $R/verif/seeded/RESULTS.md
    unshare -m bash -c "mount --bind $R/repo /repo && mount --bind $R/verif /verif && mount --bind $R/tmp /tmp && cd /verif && SEEDS=\"\$(cat $ROOT/list.$k)\" tools/run_seeds.sh quick" > $ROOT/log.$k 2>&1
  ) &
done
wait
OUT=/verif/seeded/RESULTS.md
if [ -n "$ONLY" ]; then
  # re-run of a subset: replace the rows of these changes
  cat $ROOT/*/verif/seeded/RESULTS.md | sort > $ROOT/new.txt
  python3 - $OUT $ROOT/new.txt <<'PY'
import sys
out, new = sys.argv[1:]
rows = {l.split('|')[1].strip(): l for l in open(new) if l.startswith('| C')}
lines = [rows.pop(l.split('|')[1].strip(), l) if l.startswith('| C') else l for l in open(out)]
lines += list(rows.values())
open(out, 'w').writelines(lines)
PY
  echo "replaced $(wc -l < $ROOT/new.txt) rows"
else
  echo "| seeded change | check | tier | exit | violations | first signature |" > $OUT; echo "|---|---|---|---|---|---|" >> $OUT
  cat $ROOT/*/verif/seeded/RESULTS.md | sort >> $OUT
  echo "merged $(grep -c '^| C' $OUT) results"
fi
