#!/bin/bash
# try_seed.sh <prop> <seed-dir-with patch.diff+demo.rs> [check tier]
# 1. confirms in the scratch worktree /tmp/seed/<prop>: suite green with patch, demo fails with patch, passes without
# 2. applies the patch to /repo, runs ./check <prop> quick, reverts
PROP=$1; SD=$2; TIER=${3:-quick}; WT=/tmp/seed/$PROP
export CARGO_NET_OFFLINE=true
OUT=$SD/verify.log; [ "$SKIP_CONFIRM" = "1" ] || : > $OUT
if [ "$SKIP_CONFIRM" != "1" ]; then
cd $WT || exit 9
git checkout -q -- . ; rm -rf tests
git apply $SD/patch.diff || { echo "PATCH DOES NOT APPLY" | tee -a $OUT; exit 9; }
SUITE=$(cargo test --workspace --no-fail-fast --offline 2>&1 | grep -E "^test result" | head -1); echo "suite with patch: $SUITE" | tee -a $OUT
mkdir -p tests; cp $SD/demo.rs tests/seed_demo.rs
D1=$(cargo test --offline --test seed_demo 2>&1 | grep -E "^test result" | head -1); echo "demo with patch: $D1" | tee -a $OUT
git checkout -q -- src
D0=$(cargo test --offline --test seed_demo 2>&1 | grep -E "^test result" | head -1); echo "demo without patch: $D0" | tee -a $OUT
rm -rf tests; git checkout -q -- .
fi
cd /verif
git -C /repo apply $SD/patch.diff || { echo "PATCH DOES NOT APPLY TO /repo" | tee -a $OUT; exit 9; }
./check $PROP $TIER > $SD/check.log 2>&1; RC=$?
git -C /repo checkout -- .
echo "check $PROP $TIER exit=$RC: $(grep -c '^VIOLATION' $SD/check.log) violations; $(grep -E '^C[0-9]+ ' $SD/check.log | tail -1)" | tee -a $OUT
grep -E "^  signature" $SD/check.log | head -5 | tee -a $OUT
