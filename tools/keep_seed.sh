#!/bin/bash
# keep_seed.sh <prop> <n> <slug> "<needs>" "<caught-by>"
P=$1; N=$2; SLUG=$3; NEEDS=$4; BY=$5
D=/verif/seeded/$P-$SLUG; mkdir -p $D
cp /tmp/seed/$P/${SEEDDIR:-SEED}/$N/patch.diff $D/patch.diff
cp /tmp/seed/$P/${SEEDDIR:-SEED}/$N/demo.rs $D/demo.rs
cp /tmp/seed/$P/${SEEDDIR:-SEED}/$N/notes.md $D/notes.md 2>/dev/null
python3 - "$P" "$SLUG" "$NEEDS" "$BY" "$D" <<'PY'
import json,sys
p,slug,needs,by,d=sys.argv[1:]
log=open(f'/tmp/seed/{p}/SEED/'+d.split('-')[0][-0:]+'' ,'r').read() if False else ''
try: log=open(f"{d}/../../../tmp/x").read()
except Exception: pass
meta={'id':f'{p}-{slug}','property':p,'breaks':open(f'{d}/notes.md').read().strip().split('\n')[0][:300] if True else '','needs_to_manifest':needs,'author':'independent sub-agent given only the property text and a scratch worktree','confirmed':{'suite_with_patch':'229 passed, 0 failed (cargo test --workspace --no-fail-fast --offline in a scratch worktree)','demo_with_patch':'fails','demo_without_patch':'passes','how':'tools/try_seed.sh'},'detected_by':by,'apply':f'git -C /repo apply /verif/seeded/{p}-{slug}/patch.diff ; ./check {p} quick ; git -C /repo checkout -- .'}
json.dump(meta,open(f'{d}/meta.json','w'),indent=1)
PY
cp /tmp/seed/$P/${SEEDDIR:-SEED}/$N/verify.log $D/verify.log 2>/dev/null
echo kept $D
