#!/bin/bash
# run_seeds.sh [tier]: applies every kept seeded change to /repo in turn, runs the check of its property, reverts.
# Writes /verif/seeded/RESULTS.md. Nothing else may use /repo's working tree while this runs.
TIER=${1:-quick}
cd /verif || exit 2
OUT=seeded/RESULTS.md
if [ -z "$SEEDS" ]; then echo "| seeded change | check | tier | exit | violations | first signature |" > $OUT; echo "|---|---|---|---|---|---|" >> $OUT; fi
for d in ${SEEDS:-seeded/*/}; do
  id=$(basename $d); prop=${id%%-*}
  alt=$(python3 -c "import json;print(json.load(open('$d/meta.json')).get('check',''))" 2>/dev/null); [ -n "$alt" ] && prop=$alt
  [ -f $d/patch.diff ] || continue
  if ! git -C /repo apply --check $PWD/$d/patch.diff 2>/dev/null; then
    if git -C /repo apply --3way $PWD/$d/patch.diff >/dev/null 2>&1; then :; else echo "| $id | $prop | $TIER | - | patch does not apply | |" >> $OUT; git -C /repo reset -q --hard HEAD ; continue; fi
  else
    git -C /repo apply $PWD/$d/patch.diff
  fi
  timeout 900 ./check $prop $TIER > /tmp/seedrun.log 2>&1; rc=$?
  git -C /repo reset -q --hard HEAD
  nv=$(grep -c '^VIOLATION' /tmp/seedrun.log)
  sig=$(grep -m1 '^  signature' /tmp/seedrun.log | sed 's/  signature: //' | cut -c1-90)
  echo "| $id | $prop | $TIER | $rc | $nv | \`$sig\` |" >> $OUT
  echo "$id rc=$rc violations=$nv"
done
git -C /repo status --short | head -3
