/* LD_PRELOAD shim: makes the hash keys of std's RandomState a harness choice (property C18).
 * std obtains the per-thread SipHash keys through libc's getrandom(). A "magic" call
 *     getrandom(&seed, 8, 0x5EED5EED)
 * (answered with 0x5EED) sets a thread-local seed; from then on every getrandom() of that thread returns a
 * deterministic splitmix64 stream derived from the seed. Threads that never made the magic call get real randomness. */
#define _GNU_SOURCE
#include <stdint.h>
#include <string.h>
#include <sys/types.h>
#include <sys/syscall.h>
#include <unistd.h>

static __thread uint64_t state;
static __thread int seeded;

static uint64_t next64(void) {
    uint64_t z = (state += 0x9E3779B97F4A7C15ULL);
    z = (z ^ (z >> 30)) * 0xBF58476D1CE4E5B9ULL;
    z = (z ^ (z >> 27)) * 0x94D049BB133111EBULL;
    return z ^ (z >> 31);
}

ssize_t getrandom(void *buf, size_t buflen, unsigned int flags) {
    if (flags == 0x5EED5EEDu) {
        uint64_t s = 0;
        memcpy(&s, buf, buflen < 8 ? buflen : 8);
        state = s * 0x2545F4914F6CDD1DULL + 0x1234567ULL;
        seeded = 1;
        return 0x5EED;
    }
    if (seeded) {
        unsigned char *p = buf;
        size_t i = 0;
        while (i < buflen) {
            uint64_t v = next64();
            size_t n = buflen - i < 8 ? buflen - i : 8;
            memcpy(p + i, &v, n);
            i += n;
        }
        return (ssize_t) buflen;
    }
    return syscall(SYS_getrandom, buf, buflen, flags);
}
