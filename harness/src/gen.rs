//! Shared workloads: table definitions, line alphabets and statement corpora used by several checks.

/// JSON-defined table with typed, nullable columns (u is never present -> always NULL)
pub const JDEF: &str = "CREATE TABLE t({ .k } => k TEXT, { .v } => v INT, { .r } => r REAL, { .s } => s TEXT, { .b } => b BOOLEAN, { .ts } => ts TIMESTAMP CONVERT, { .u } => u TEXT);";

/// second table for joins
pub const JDEF_U: &str = "CREATE TABLE u({ .k } => k TEXT, { .y } => y INT, { .w } => w TEXT);";

/// 6-line alphabet for aggregate / incremental / permutation checks: two groups with collisions, a group whose
/// arguments are all NULL, a NULL key, first values that are not the extreme, and one non-admitted line.
pub fn jlines() -> Vec<&'static str> {
    vec![
        r#"{"k":"a","v":1,"r":1.5,"s":"zz","b":true,"ts":"2021-01-01 00:00:03"}"#,
        r#"{"k":"a","v":3,"r":0.5,"s":"aa","b":false,"ts":"2021-01-01 00:00:01"}"#,
        r#"{"k":"b","v":2,"r":2.0,"s":"mm","b":true,"ts":"2021-01-01 00:00:02"}"#,
        r#"{"k":"b"}"#,
        r#"{"v":3,"r":-1.0,"s":"b","b":false}"#,
        "zzz",
    ]
}

/// lines that never become rows of t (noise alphabet)
pub fn jnoise() -> Vec<&'static str> {
    vec!["", "zzz", r#"{"k":5,"v":"x"}"#, "{}", r#"{"k":"a","v":1"#, r#"{"other":1}"#]
}

pub fn select_corpus() -> Vec<&'static str> {
    vec![
        "SELECT k, v FROM t",
        "SELECT * FROM t",
        "SELECT input FROM t",
        "SELECT k FROM t WHERE v > 1",
        "SELECT v + 1 AS x, s FROM t WHERE k = 'a'",
        "SELECT DISTINCT k FROM t",
        "SELECT DISTINCT k, v FROM t WHERE v IS NOT NULL",
        "SELECT u FROM t",
        "SELECT DISTINCT v FROM t",
        "SELECT CASE WHEN v > 1 THEN 'big' ELSE 'small' END AS c, k FROM t",
        "SELECT DISTINCT u, k FROM t",
        "SELECT upper(s), v * 2 FROM t WHERE b",
    ]
}

pub fn agg_items() -> Vec<&'static str> {
    vec![
        "COUNT(*)",
        "COUNT(v)",
        "COUNT(DISTINCT v)",
        "SUM(v)",
        "MIN(v)",
        "MAX(v)",
        "AVG(v)",
        "SUM(r)",
        "MIN(r)",
        "AVG(r)",
        "STDDEV(v)",
        "VARIANCE(r)",
        "MIN(s)",
        "MAX(s)",
        "MIN(ts)",
        "MAX(ts)",
        "PERCENTILE(v, 0.0)",
        "PERCENTILE(v, 0.5)",
        "PERCENTILE(v, 1.0)",
        "BOOL_AND(b)",
        "BOOL_OR(b)",
        "STRING_AGG(s, ',')",
        "ARRAY_AGG(v)",
        "SUM(v) * 2",
        "MAX(v) + 1",
    ]
}

/// order-insensitive aggregates named by C15
pub fn agg_items_order_insensitive() -> Vec<&'static str> {
    agg_items().into_iter().filter(|i| !i.starts_with("STRING_AGG") && !i.starts_with("ARRAY_AGG")).collect()
}

/// aggregate statements (without LIMIT): every item alone with and without GROUP BY, a few pairs, WHERE / HAVING / DISTINCT variants
pub fn aggregate_corpus(items: &[&str], rich: bool) -> Vec<String> {
    let mut out = Vec::new();
    for it in items {
        out.push(format!("SELECT {} FROM t", it));
        out.push(format!("SELECT k, {} FROM t GROUP BY k", it));
    }
    let pairs: Vec<(&str, &str)> = vec![("COUNT(v)", "SUM(v)"), ("MIN(s)", "MAX(s)"), ("COUNT(*)", "BOOL_AND(b)"), ("AVG(v)", "PERCENTILE(v, 0.5)"), ("MAX(ts)", "COUNT(DISTINCT v)"), ("COUNT(DISTINCT v)", "SUM(v)"), ("COUNT(DISTINCT v)", "AVG(r)"), ("COUNT(DISTINCT v)", "STDDEV(v)")];
    for (a, b) in &pairs {
        if items.contains(a) && items.contains(b) {
            out.push(format!("SELECT k, {}, {} FROM t GROUP BY k", a, b));
            out.push(format!("SELECT {}, k, {} FROM t GROUP BY k", b, a));
        }
    }
    out.push("SELECT k, COUNT(*) FROM t WHERE v IS NOT NULL GROUP BY k".into());
    out.push("SELECT k, SUM(v) FROM t GROUP BY k HAVING COUNT(*) > 1".into());
    out.push("SELECT k, COUNT(*) FROM t GROUP BY k HAVING k IS NOT NULL".into());
    out.push("SELECT k, MAX(v) FROM t GROUP BY k HAVING SUM(v) > 2".into());
    out.push("SELECT k, COUNT(*) FROM t GROUP BY k HAVING MAX(v) < 3".into());
    out.push("SELECT k, MIN(v) FROM t GROUP BY k HAVING COUNT(*) < 2".into());
    out.push("SELECT COUNT(*) FROM t HAVING COUNT(*) < 2".into());
    out.push("SELECT k, b, COUNT(*) FROM t GROUP BY k, b".into());
    out.push("SELECT upper(k), COUNT(*) FROM t GROUP BY upper(k)".into());
    out.push("SELECT v, COUNT(*) FROM t GROUP BY v".into());
    if rich {
        out.push("SELECT DISTINCT COUNT(*) FROM t GROUP BY k".into());
        out.push("SELECT DISTINCT COUNT(*) FROM t GROUP BY k HAVING COUNT(*) > 0".into());
        out.push("SELECT DISTINCT k, COUNT(*) FROM t GROUP BY k HAVING COUNT(*) > 0".into());
        out.push("SELECT DISTINCT MAX(v) FROM t GROUP BY k".into());
        out.push("SELECT k, COUNT(v) FROM t WHERE r > 0.0 GROUP BY k HAVING MAX(v) = 3".into());
    }
    out
}

pub fn hex(bytes: &[u8]) -> String {
    bytes.iter().map(|b| format!("{:02x}", b)).collect()
}

pub fn unhex(s: &str) -> Vec<u8> {
    (0..s.len() / 2).map(|i| u8::from_str_radix(&s[2 * i..2 * i + 2], 16).unwrap()).collect()
}

/// Corpus of valid statements; every token is separated by exactly one space (strings may contain spaces), so that
/// token-level mutation and layout variation can be done by the harness without a tokenizer of its own.
pub fn statement_corpus() -> Vec<&'static str> {
    vec![
        "SELECT * FROM t",
        "SELECT input FROM t",
        "SELECT k , v FROM t ;",
        "SELECT k AS key , v + 1 AS next FROM t WHERE v > 1",
        "SELECT DISTINCT k FROM t WHERE v IS NOT NULL",
        "SELECT k FROM t WHERE v IS NULL OR k = 'a'",
        "SELECT k FROM t WHERE v >= 1 AND v <= 3 AND v != 2",
        "SELECT k FROM t WHERE NOT b",
        "SELECT k FROM t WHERE v IN ( 1 , 2 , 3 )",
        "SELECT k FROM t WHERE k NOT IN ( 'a' , 'b' )",
        "SELECT v * 2 - 1 , v / 2 , - v FROM t",
        "SELECT ( v + 1 ) * 2 FROM t LIMIT 3",
        "SELECT v - - 1 , v * - 2 , v = - 1 FROM t WHERE v > - 2 AND v < - r OR v != - 3",
        "SELECT v :: text , s :: int , r :: real FROM t",
        "SELECT a [ 1 ] , array_length ( a ) FROM t",
        "SELECT ARRAY [ v , 1 ] FROM t",
        "SELECT t . k , t . v FROM t",
        "SELECT upper ( k ) , lower ( s ) , length ( s ) FROM t",
        "SELECT greatest ( v , 2 ) , least ( r , 1.5 ) , abs ( v ) , sqrt ( r ) , pow ( r , 2.0 ) FROM t",
        "SELECT regexp_matches ( s , '^a.*' ) FROM t",
        "SELECT array_unique ( a ) , array_cat ( a , a ) , array_append ( a , 1 ) , array_prepend ( 1 , a ) FROM t",
        "SELECT EXTRACT ( year FROM ts ) , EXTRACT ( EPOCH FROM ts ) FROM t",
        "SELECT date_trunc ( 'hour' , ts ) , now ( ) FROM t",
        "SELECT make_timestamp ( 2021 , 1 , 2 , 3 , 4 , 5 , 6 ) FROM t",
        "SELECT CASE WHEN v > 1 THEN 'big' ELSE 'small' END FROM t",
        "SELECT CASE WHEN v > 1 THEN 1 ELSE 0 END, v * 2 AS w FROM t WHERE v > 1 AND v < 30 OR v = 0 LIMIT 10",
        "SELECT CASE WHEN v > 2 THEN 'a' WHEN v > 1 THEN 'b' ELSE 'c' END AS c FROM t",
        "SELECT k FROM t :: 'some file.log'",
        "SELECT k , COUNT ( * ) FROM t GROUP BY k",
        "SELECT k , COUNT ( ) AS n , SUM ( v ) , AVG ( r ) FROM t GROUP BY k",
        "SELECT COUNT ( DISTINCT v ) , MIN ( v ) , MAX ( s ) FROM t",
        "SELECT k , STDDEV ( v ) , VARIANCE ( r ) , PERCENTILE ( v , 0.5 ) FROM t GROUP BY k",
        "SELECT k , BOOL_AND ( b ) , BOOL_OR ( b ) , ARRAY_AGG ( v ) , STRING_AGG ( s , ', ' ) FROM t GROUP BY k",
        "SELECT k , SUM ( v ) * 2 FROM t GROUP BY k HAVING COUNT ( * ) > 1",
        "SELECT k , b , COUNT ( * ) FROM t WHERE v > 0 GROUP BY k , b HAVING k IS NOT NULL AND COUNT ( * ) >= 1 LIMIT 5",
        "SELECT upper ( k ) , COUNT ( * ) FROM t GROUP BY upper ( k )",
        "SELECT DISTINCT COUNT ( * ) FROM t GROUP BY k",
        "SELECT t . k , y FROM t INNER JOIN u :: 'other.log' ON t . k = u . k",
        "SELECT t . k , y FROM t OUTER JOIN u :: 'other.log' ON u . k = t . k WHERE y > 1 LIMIT 2",
        "SELECT t . k , COUNT ( * ) FROM t INNER JOIN u :: 'other.log' ON t . k = u . k GROUP BY t . k",
        "SELECT k , STRING_AGG ( s , '; ' ) FROM t GROUP BY k",
        "SELECT s FROM t WHERE s != 'a;b' AND s != '--' ;",
        "SELECT t . v - u . y , u . y * t . v - 1 FROM t INNER JOIN u :: 'other.log' ON t . k = u . k WHERE t . v - u . y > 0",
        "CREATE TABLE t ( line = '([a-z]+) ([0-9]+)' , line [ 1 ] => k TEXT , line [ 2 ] => v INT ) ;",
        "CREATE TABLE t ( line = split ';' , line [ 1 ] => k TEXT NOT NULL , line [ 2 ] => v INT DEFAULT 7 , line [ 3 ] => s TEXT TRIM ) ;",
        "CREATE TABLE t ( 'id=([0-9]+)' => id INT , 'name=(\\\\w+)' => name TEXT DEFAULT 'x' ) ;",
        "CREATE TABLE t ( line = match '(\\\\d+)-(\\\\d+)-(\\\\d+)' , line [ 1 ] , line [ 2 ] , line [ 3 ] => d TIMESTAMP , line [ 1 ] , line [ 2 ] => a INT [ ] ) ;",
        "CREATE TABLE t ( { . a . b } => x INT , { . c [ 0 ] } => y TEXT CONVERT , { [ 1 ] . d } => z REAL [ ] , { . ts } => ts TIMESTAMP CONVERT ) ;",
        "CREATE TABLE t ( line = '(a)(b)?' , line [ 2 ] => b BOOLEAN , line [ 1 ] , line [ 2 ] => ts TIMESTAMP MICROSECONDS , line [ 1 ] => i INTERVAL ) ;",
        "CREATE TABLE a ( x = '(.)' , x [ 1 ] => c TEXT ) ; CREATE TABLE b ( y = '(.)' , y [ 1 ] => d TEXT ) ;",
    ]
}

/// split a corpus statement into its tokens (spaces outside single-quoted strings)
pub fn corpus_tokens(s: &str) -> Vec<String> {
    let mut out = Vec::new();
    let mut cur = String::new();
    let mut in_str = false;
    let mut esc = false;
    for c in s.chars() {
        if in_str {
            cur.push(c);
            if esc {
                esc = false;
            } else if c == '\\' {
                esc = true;
            } else if c == '\'' {
                in_str = false;
            }
        } else if c == ' ' {
            if !cur.is_empty() {
                out.push(std::mem::take(&mut cur));
            }
        } else {
            if c == '\'' {
                in_str = true;
            }
            cur.push(c);
        }
    }
    if !cur.is_empty() {
        out.push(cur);
    }
    out
}
