//! Shared workloads: table definitions, line alphabets and statement corpora used by several checks.

/// JSON-defined table with typed, nullable columns (u is never present -> always NULL)
pub const JDEF: &str = "CREATE TABLE t({ .k } => k TEXT, { .v } => v INT, { .r } => r REAL, { .s } => s TEXT, { .b } => b BOOLEAN, { .ts } => ts TIMESTAMP CONVERT, { .u } => u TEXT);";

/// second table for joins
pub const JDEF_U: &str = "CREATE TABLE u({ .k } => k TEXT, { .y } => y INT, { .w } => w TEXT);";

/// 6-line alphabet for aggregate / incremental / permutation checks: two groups with collisions, a group whose
/// arguments are all NULL, a NULL key, first values that are not the extreme, and one non-admitted line.
pub fn jlines() -> Vec<&'static str> {
    vec![
        r#"{"k":"a","v":1,"r":1.5,"s":"zz","b":true,"ts":"2021-01-01 00:00:03"}"#,
        r#"{"k":"a","v":3,"r":0.5,"s":"aa","b":false,"ts":"2021-01-01 00:00:01"}"#,
        r#"{"k":"b","v":2,"r":2.0,"s":"mm","b":true,"ts":"2021-01-01 00:00:02"}"#,
        r#"{"k":"b"}"#,
        r#"{"v":3,"r":-1.0,"s":"b","b":false}"#,
        "zzz",
    ]
}

/// lines that never become rows of t (noise alphabet)
pub fn jnoise() -> Vec<&'static str> {
    vec!["", "zzz", r#"{"k":5,"v":"x"}"#, "{}", r#"{"k":"a","v":1"#, r#"{"other":1}"#]
}

pub fn select_corpus() -> Vec<&'static str> {
    vec![
        "SELECT k, v FROM t",
        "SELECT * FROM t",
        "SELECT input FROM t",
        "SELECT k FROM t WHERE v > 1",
        "SELECT v + 1 AS x, s FROM t WHERE k = 'a'",
        "SELECT DISTINCT k FROM t",
        "SELECT DISTINCT k, v FROM t WHERE v IS NOT NULL",
        "SELECT u FROM t",
        "SELECT DISTINCT v FROM t",
        "SELECT CASE WHEN v > 1 THEN 'big' ELSE 'small' END AS c, k FROM t",
        "SELECT DISTINCT u, k FROM t",
        "SELECT upper(s), v * 2 FROM t WHERE b",
    ]
}

pub fn agg_items() -> Vec<&'static str> {
    vec![
        "COUNT(*)",
        "COUNT(v)",
        "COUNT(DISTINCT v)",
        "SUM(v)",
        "MIN(v)",
        "MAX(v)",
        "AVG(v)",
        "SUM(r)",
        "MIN(r)",
        "AVG(r)",
        "STDDEV(v)",
        "VARIANCE(r)",
        "MIN(s)",
        "MAX(s)",
        "MIN(ts)",
        "MAX(ts)",
        "PERCENTILE(v, 0.0)",
        "PERCENTILE(v, 0.5)",
        "PERCENTILE(v, 1.0)",
        "BOOL_AND(b)",
        "BOOL_OR(b)",
        "STRING_AGG(s, ',')",
        "ARRAY_AGG(v)",
        "SUM(v) * 2",
        "MAX(v) + 1",
    ]
}

/// order-insensitive aggregates named by C15
pub fn agg_items_order_insensitive() -> Vec<&'static str> {
    agg_items().into_iter().filter(|i| !i.starts_with("STRING_AGG") && !i.starts_with("ARRAY_AGG")).collect()
}

/// aggregate statements (without LIMIT): every item alone with and without GROUP BY, a few pairs, WHERE / HAVING / DISTINCT variants
pub fn aggregate_corpus(items: &[&str], rich: bool) -> Vec<String> {
    let mut out = Vec::new();
    for it in items {
        out.push(format!("SELECT {} FROM t", it));
        out.push(format!("SELECT k, {} FROM t GROUP BY k", it));
    }
    let pairs: Vec<(&str, &str)> = vec![("COUNT(v)", "SUM(v)"), ("MIN(s)", "MAX(s)"), ("COUNT(*)", "BOOL_AND(b)"), ("AVG(v)", "PERCENTILE(v, 0.5)"), ("MAX(ts)", "COUNT(DISTINCT v)")];
    for (a, b) in &pairs {
        if items.contains(a) && items.contains(b) {
            out.push(format!("SELECT k, {}, {} FROM t GROUP BY k", a, b));
            out.push(format!("SELECT {}, k, {} FROM t GROUP BY k", b, a));
        }
    }
    out.push("SELECT k, COUNT(*) FROM t WHERE v IS NOT NULL GROUP BY k".into());
    out.push("SELECT k, SUM(v) FROM t GROUP BY k HAVING COUNT(*) > 1".into());
    out.push("SELECT k, COUNT(*) FROM t GROUP BY k HAVING k IS NOT NULL".into());
    out.push("SELECT k, MAX(v) FROM t GROUP BY k HAVING SUM(v) > 2".into());
    out.push("SELECT k, b, COUNT(*) FROM t GROUP BY k, b".into());
    out.push("SELECT upper(k), COUNT(*) FROM t GROUP BY upper(k)".into());
    out.push("SELECT v, COUNT(*) FROM t GROUP BY v".into());
    if rich {
        out.push("SELECT DISTINCT COUNT(*) FROM t GROUP BY k".into());
        out.push("SELECT DISTINCT COUNT(*) FROM t GROUP BY k HAVING COUNT(*) > 0".into());
        out.push("SELECT DISTINCT k, COUNT(*) FROM t GROUP BY k HAVING COUNT(*) > 0".into());
        out.push("SELECT DISTINCT MAX(v) FROM t GROUP BY k".into());
        out.push("SELECT k, COUNT(v) FROM t WHERE r > 0.0 GROUP BY k HAVING MAX(v) = 3".into());
    }
    out
}

pub fn hex(bytes: &[u8]) -> String {
    bytes.iter().map(|b| format!("{:02x}", b)).collect()
}

pub fn unhex(s: &str) -> Vec<u8> {
    (0..s.len() / 2).map(|i| u8::from_str_radix(&s[2 * i..2 * i + 2], 16).unwrap()).collect()
}
