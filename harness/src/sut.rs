//! Adapter to the real code under test (sqlgrep, linked from /repo with feature verif_hooks).

use std::fs::File;
use std::io::Write;
use std::sync::atomic::{AtomicBool, AtomicU64, Ordering};
use std::sync::Arc;

use serde_json::{json, Value as J};

use sqlgrep::data_model::Tables;
use sqlgrep::execution::execution_engine::{ExecutionConfig, ExecutionEngine};
use sqlgrep::executor::{DisplayOptions, FileExecutor, OutputFormat, Printer};
use sqlgrep::model::{Statement, Value};

use crate::core::{catch, PanicRec};

// ---------------------------------------------------------------------------------------------
// reference-side value representation (independent of sqlgrep::model::Value)

#[derive(Clone, Debug)]
pub enum RVal {
    Null,
    Int(i64),
    Real(f64),
    Bool(bool),
    Text(String),
    Array(Vec<RVal>),
    /// microseconds since the Unix epoch (harness runs with TZ=UTC)
    Ts(i64),
    /// microseconds
    Iv(i64),
}

impl RVal {
    pub fn is_null(&self) -> bool {
        matches!(self, RVal::Null)
    }
    pub fn type_name(&self) -> &'static str {
        match self {
            RVal::Null => "NULL",
            RVal::Int(_) => "INT",
            RVal::Real(_) => "REAL",
            RVal::Bool(_) => "BOOLEAN",
            RVal::Text(_) => "TEXT",
            RVal::Array(_) => "ARRAY",
            RVal::Ts(_) => "TIMESTAMP",
            RVal::Iv(_) => "INTERVAL",
        }
    }
    /// strict structural identity used when comparing an observation with the model's prediction:
    /// REAL compared bitwise except that all NaNs are identified
    pub fn same(&self, other: &RVal) -> bool {
        match (self, other) {
            (RVal::Null, RVal::Null) => true,
            (RVal::Int(a), RVal::Int(b)) => a == b,
            (RVal::Real(a), RVal::Real(b)) => (a.is_nan() && b.is_nan()) || a.to_bits() == b.to_bits(),
            (RVal::Bool(a), RVal::Bool(b)) => a == b,
            (RVal::Text(a), RVal::Text(b)) => a == b,
            (RVal::Array(a), RVal::Array(b)) => a.len() == b.len() && a.iter().zip(b).all(|(x, y)| x.same(y)),
            (RVal::Ts(a), RVal::Ts(b)) => a == b,
            (RVal::Iv(a), RVal::Iv(b)) => a == b,
            _ => false,
        }
    }
    /// like `same` but REALs may differ by a relative 1e-9 (aggregate results)
    pub fn close(&self, other: &RVal) -> bool {
        match (self, other) {
            (RVal::Real(a), RVal::Real(b)) => {
                if a.is_nan() || b.is_nan() {
                    return a.is_nan() && b.is_nan();
                }
                if a == b {
                    return true;
                }
                let scale = a.abs().max(b.abs()).max(1e-300);
                ((a - b).abs() / scale) < 1e-9 || (a - b).abs() < 1e-12
            }
            (RVal::Array(a), RVal::Array(b)) => a.len() == b.len() && a.iter().zip(b).all(|(x, y)| x.close(y)),
            _ => self.same(other),
        }
    }
    pub fn to_json(&self) -> J {
        match self {
            RVal::Null => J::Null,
            RVal::Int(x) => json!({"int": x}),
            RVal::Real(x) => json!({"real": format!("{:?}", x)}),
            RVal::Bool(x) => json!(x),
            RVal::Text(x) => json!(x),
            RVal::Array(x) => J::Array(x.iter().map(|v| v.to_json()).collect()),
            RVal::Ts(x) => json!({"ts_us": x}),
            RVal::Iv(x) => json!({"iv_us": x}),
        }
    }
}

pub fn rows_json(rows: &[Vec<RVal>]) -> J {
    J::Array(rows.iter().map(|r| J::Array(r.iter().map(|v| v.to_json()).collect())).collect())
}

pub fn from_value(v: &Value) -> RVal {
    match v {
        Value::Null => RVal::Null,
        Value::Int(x) => RVal::Int(*x),
        Value::Float(x) => RVal::Real(x.0),
        Value::Bool(x) => RVal::Bool(*x),
        Value::String(x) => RVal::Text(x.clone()),
        Value::Array(_, x) => RVal::Array(x.iter().map(from_value).collect()),
        Value::Timestamp(t) => RVal::Ts(t.timestamp_micros()),
        Value::Interval(d) => RVal::Iv(d.num_microseconds().unwrap_or(i64::MAX)),
    }
}

pub fn rows_same(a: &[Vec<RVal>], b: &[Vec<RVal>]) -> bool {
    a.len() == b.len() && a.iter().zip(b).all(|(x, y)| x.len() == y.len() && x.iter().zip(y).all(|(p, q)| p.same(q)))
}

pub fn rows_close(a: &[Vec<RVal>], b: &[Vec<RVal>]) -> bool {
    a.len() == b.len() && a.iter().zip(b).all(|(x, y)| x.len() == y.len() && x.iter().zip(y).all(|(p, q)| p.close(q)))
}

// ---------------------------------------------------------------------------------------------
// parsing

pub fn parse(text: &str) -> Result<Statement, String> {
    sqlgrep::parsing::parse(text).map_err(|e| format!("{}", e))
}

pub fn make_tables(defs: &str) -> Result<Tables, String> {
    let stmt = parse(defs)?;
    let mut tables = Tables::new();
    if !tables.add_tables(stmt) {
        return Err("not a CREATE TABLE".into());
    }
    Ok(tables)
}

// ---------------------------------------------------------------------------------------------
// outcomes of running the engine

#[derive(Clone, Debug)]
pub struct Table {
    pub columns: Vec<String>,
    pub rows: Vec<Vec<RVal>>,
}

impl Table {
    pub fn to_json(&self) -> J {
        json!({"columns": self.columns, "rows": rows_json(&self.rows)})
    }
    pub fn same(&self, o: &Table) -> bool {
        self.columns == o.columns && rows_same(&self.rows, &o.rows)
    }
}

#[derive(Clone, Debug)]
pub enum Outcome<T> {
    Ok(T),
    Err(String),
    Panic(PanicRec),
}

impl<T> Outcome<T> {
    pub fn kind(&self) -> &'static str {
        match self {
            Outcome::Ok(_) => "ok",
            Outcome::Err(_) => "error",
            Outcome::Panic(_) => "panic",
        }
    }
    pub fn ok(&self) -> Option<&T> {
        match self {
            Outcome::Ok(t) => Some(t),
            _ => None,
        }
    }
}

pub fn outcome_json<T, F: Fn(&T) -> J>(o: &Outcome<T>, f: F) -> J {
    match o {
        Outcome::Ok(t) => json!({"ok": f(t)}),
        Outcome::Err(e) => json!({"error": e}),
        Outcome::Panic(p) => json!({"panic": p.msg, "at": format!("{}:{}", p.file, p.line)}),
    }
}

/// result of feeding lines one at a time with a given config
#[derive(Clone, Debug)]
pub struct StepOut {
    /// for each line: the ResultRow returned (if any)
    pub table: Option<Table>,
    pub reached_limit: bool,
}

fn table_of(rr: &sqlgrep::execution::ResultRow) -> Table {
    Table { columns: rr.columns.clone(), rows: rr.data.iter().map(|r| r.columns.iter().map(from_value).collect()).collect() }
}

/// Non-aggregate or aggregate statement, batch semantics through the public ExecutionEngine API the way
/// FileExecutor drives it: per line with `execution_config()`, then (aggregate) one result request.
/// Returns all emitted rows (non-aggregate) or the final table (aggregate). LIMIT is honoured like FileExecutor does.
/// like run_batch for an aggregate statement, but a result is also requested (and dropped) after each of the given
/// numbers of lines: update-only lines, a result, more update-only lines, ..., the final result
pub fn run_batch_with_results(tables: &Tables, stmt: &Statement, lines: &[&str], result_after: &[usize]) -> Outcome<Table> {
    let r = catch(|| -> Result<Table, String> {
        let mut engine = ExecutionEngine::new(tables, stmt);
        engine.execute_joined_table(Arc::new(AtomicBool::new(true))).map_err(|e| format!("{}", e))?;
        let config = engine.execution_config();
        let mut out = Table { columns: vec![], rows: vec![] };
        for (i, l) in lines.iter().enumerate() {
            engine.execute((*l).to_string(), &config).map_err(|e| format!("{}", e))?;
            if result_after.contains(&(i + 1)) {
                engine.execute(String::new(), &ExecutionConfig::aggregate_result()).map_err(|e| format!("{}", e))?;
            }
        }
        let o = engine.execute(String::new(), &ExecutionConfig::aggregate_result()).map_err(|e| format!("{}", e))?;
        if let Some(rr) = o.result_row {
            out = table_of(&rr);
        }
        Ok(out)
    });
    match r {
        Ok(Ok(t)) => Outcome::Ok(t),
        Ok(Err(e)) => Outcome::Err(e),
        Err(p) => Outcome::Panic(p),
    }
}

pub fn run_batch(tables: &Tables, stmt: &Statement, lines: &[&str]) -> Outcome<Table> {
    let r = catch(|| -> Result<Table, String> {
        let mut engine = ExecutionEngine::new(tables, stmt);
        engine.execute_joined_table(Arc::new(AtomicBool::new(true))).map_err(|e| format!("{}", e))?;
        let config = engine.execution_config();
        let mut out = Table { columns: vec![], rows: vec![] };
        for l in lines {
            let o = engine.execute((*l).to_string(), &config).map_err(|e| format!("{}", e))?;
            if let Some(rr) = o.result_row {
                let t = table_of(&rr);
                out.columns = t.columns;
                out.rows.extend(t.rows);
            }
            if o.reached_limit {
                break;
            }
        }
        if engine.is_aggregate() {
            let o = engine.execute(String::new(), &ExecutionConfig::aggregate_result()).map_err(|e| format!("{}", e))?;
            if let Some(rr) = o.result_row {
                out = table_of(&rr);
            }
        }
        Ok(out)
    });
    match r {
        Ok(Ok(t)) => Outcome::Ok(t),
        Ok(Err(e)) => Outcome::Err(e),
        Err(p) => Outcome::Panic(p),
    }
}

/// Incremental (follow-mode) semantics: every line with ExecutionConfig::default(); returns per line what was shown.
pub fn run_incremental(tables: &Tables, stmt: &Statement, lines: &[&str]) -> Outcome<Vec<StepOut>> {
    let r = catch(|| -> Result<Vec<StepOut>, String> {
        let mut engine = ExecutionEngine::new(tables, stmt);
        engine.execute_joined_table(Arc::new(AtomicBool::new(true))).map_err(|e| format!("{}", e))?;
        let config = ExecutionConfig::default();
        let mut outs = Vec::new();
        for l in lines {
            let o = engine.execute((*l).to_string(), &config).map_err(|e| format!("{}", e))?;
            outs.push(StepOut { table: o.result_row.as_ref().map(table_of), reached_limit: o.reached_limit });
        }
        Ok(outs)
    });
    match r {
        Ok(Ok(t)) => Outcome::Ok(t),
        Ok(Err(e)) => Outcome::Err(e),
        Err(p) => Outcome::Panic(p),
    }
}

// ---------------------------------------------------------------------------------------------
// FileExecutor driver with captured printer and private temp files on /dev/shm

pub struct CapturePrinter {
    pub lines: Vec<String>,
    /// optional: clear this flag after `after` printed lines (interrupt inside printing)
    pub interrupt: Option<(usize, Arc<AtomicBool>)>,
    /// the caller's running flag, looked at (never written) at every printed line: index of the first line printed
    /// while the flag was false
    pub watch: Option<Arc<AtomicBool>>,
    pub flag_false_at: Option<usize>,
}

impl Printer for CapturePrinter {
    fn println(&mut self, line: &str) {
        if let Some(w) = &self.watch {
            if self.flag_false_at.is_none() && !w.load(Ordering::SeqCst) {
                self.flag_false_at = Some(self.lines.len());
            }
        }
        self.lines.push(line.to_string());
        if let Some((after, flag)) = &self.interrupt {
            if self.lines.len() == *after {
                flag.store(false, Ordering::SeqCst);
            }
        }
    }
}

static FILE_COUNTER: AtomicU64 = AtomicU64::new(0);

pub struct TempFiles {
    pub paths: Vec<String>,
}

impl TempFiles {
    pub fn new(contents: &[&[u8]]) -> TempFiles {
        let dir = tmp_dir();
        let mut paths = Vec::new();
        for c in contents {
            let n = FILE_COUNTER.fetch_add(1, Ordering::Relaxed);
            let p = format!("{}/f{}_{}", dir, std::process::id(), n);
            let mut f = File::create(&p).expect("create temp file");
            f.write_all(c).expect("write temp file");
            paths.push(p);
        }
        TempFiles { paths }
    }
    pub fn open(&self) -> Vec<File> {
        self.paths.iter().map(|p| File::open(p).expect("open temp file")).collect()
    }
}

impl Drop for TempFiles {
    fn drop(&mut self) {
        for p in &self.paths {
            std::fs::remove_file(p).ok();
        }
    }
}

pub fn tmp_dir() -> String {
    let d = if std::path::Path::new("/dev/shm").is_dir() { "/dev/shm/vcheck".to_string() } else { std::env::temp_dir().join("vcheck").to_string_lossy().to_string() };
    std::fs::create_dir_all(&d).ok();
    d
}

#[derive(Clone, Debug)]
pub struct FileRun {
    /// the caller's running flag was false while line i was printed (first such i) / after execute() returned
    pub flag_false_at: Option<usize>,
    pub flag_after: bool,
    pub printed: Vec<String>,
    pub total_lines: u64,
    pub total_result_rows: u64,
    pub result: Result<(), String>,
}

impl FileRun {
    pub fn to_json(&self) -> J {
        json!({"printed": self.printed, "total_lines": self.total_lines, "result": match &self.result { Ok(_) => json!("ok"), Err(e) => json!({"error": e}) }})
    }
}

pub struct FileRunOpts {
    pub format: OutputFormat,
    pub single_result: bool,
    pub running: Arc<AtomicBool>,
    pub interrupt_after_printed: Option<usize>,
    /// DisplayOptions::print_result (false: the query runs, nothing is printed)
    pub print_result: bool,
}

impl Default for FileRunOpts {
    fn default() -> Self {
        FileRunOpts { format: OutputFormat::Json, single_result: true, running: Arc::new(AtomicBool::new(true)), interrupt_after_printed: None, print_result: true }
    }
}

pub fn run_files(tables: &Tables, stmt: &Statement, files: &[&[u8]], opts: FileRunOpts) -> Outcome<FileRun> {
    let tmp = TempFiles::new(files);
    run_opened_files(tables, stmt, tmp.open(), opts)
}

pub fn run_opened_files(tables: &Tables, stmt: &Statement, files: Vec<File>, opts: FileRunOpts) -> Outcome<FileRun> {
    let r = catch(|| {
        let printer = CapturePrinter { lines: vec![], interrupt: opts.interrupt_after_printed.map(|n| (n, opts.running.clone())), watch: Some(opts.running.clone()), flag_false_at: None };
        let display = DisplayOptions { output_format: opts.format.clone(), single_result: opts.single_result, print_result: opts.print_result };
        let mut ex = FileExecutor::with_output_printer(opts.running.clone(), files, display, printer, ExecutionEngine::new(tables, stmt)).expect("executor");
        let res = ex.execute().map_err(|e| format!("{}", e));
        FileRun {
            flag_false_at: ex.output_printer().printer().flag_false_at,
            flag_after: opts.running.load(Ordering::SeqCst),
            printed: ex.output_printer().printer().lines.clone(),
            total_lines: ex.statistics().total_lines,
            total_result_rows: ex.statistics().total_result_rows,
            result: res,
        }
    });
    match r {
        Ok(fr) => Outcome::Ok(fr),
        Err(p) => Outcome::Panic(p),
    }
}

/// rows emitted per input line when the statement is driven like FileExecutor does (joined table loaded first)
pub fn rows_per_line(tables: &Tables, stmt: &Statement, lines: &[&str]) -> Outcome<Vec<usize>> {
    let r = catch(|| -> Result<Vec<usize>, String> {
        let mut engine = ExecutionEngine::new(tables, stmt);
        engine.execute_joined_table(Arc::new(AtomicBool::new(true))).map_err(|e| format!("{}", e))?;
        let config = engine.execution_config();
        let mut out = Vec::new();
        for l in lines {
            let o = engine.execute((*l).to_string(), &config).map_err(|e| format!("{}", e))?;
            out.push(o.result_row.map(|r| r.data.len()).unwrap_or(0));
        }
        Ok(out)
    });
    match r {
        Ok(Ok(t)) => Outcome::Ok(t),
        Ok(Err(e)) => Outcome::Err(e),
        Err(p) => Outcome::Panic(p),
    }
}

/// join `lines` with '\n' terminators and cut into files according to part lengths
pub fn files_from(lines: &[&str], parts: &[usize]) -> Vec<Vec<u8>> {
    let mut out = Vec::new();
    let mut i = 0;
    for p in parts {
        let mut f = Vec::new();
        for l in &lines[i..i + p] {
            f.extend_from_slice(l.as_bytes());
            f.push(b'\n');
        }
        out.push(f);
        i += p;
    }
    out
}

/// follow-mode driver: the real FollowFileIterator over a file holding `content`, every delivered line fed to the
/// engine with ExecutionConfig::default() (what FollowFileExecutor does); the iteration is ended through the
/// FollowRetry hook when the reader has reached the end of the file. Returns the tables shown, in order.
pub fn run_follow(tables: &Tables, stmt: &Statement, content: &[u8]) -> Outcome<Vec<StepOut>> {
    use sqlgrep::helpers::FollowFileIterator;
    use sqlgrep::verif_hooks::{self, Action, Point};
    let tmp = TempFiles::new(&[content]);
    verif_hooks::set(Box::new(|p| if p == Point::FollowRetry { Action::Stop } else { Action::Continue }));
    let r = catch(|| -> Result<Vec<StepOut>, String> {
        let mut engine = ExecutionEngine::new(tables, stmt);
        let config = ExecutionConfig::default();
        let mut outs = Vec::new();
        if engine.reached_limit() {
            return Ok(outs);
        }
        let reader = std::io::BufReader::new(File::open(&tmp.paths[0]).map_err(|e| e.to_string())?);
        for line in FollowFileIterator::new(reader) {
            let o = engine.execute(line, &config).map_err(|e| format!("{}", e))?;
            let reached = o.reached_limit;
            if o.result_row.is_some() {
                outs.push(StepOut { table: o.result_row.as_ref().map(table_of), reached_limit: reached });
                if reached {
                    break;
                }
            }
        }
        Ok(outs)
    });
    verif_hooks::clear();
    match r {
        Ok(Ok(t)) => Outcome::Ok(t),
        Ok(Err(e)) => Outcome::Err(e),
        Err(p) => Outcome::Panic(p),
    }
}

/// run the real command line program (release build in target/cli): returns (stdout lines, stderr, exit ok)
/// child process (`vcheck --child stmt <def-hex> <stmt-hex> <format> <file>...`): one statement through the batch
/// executor with the address space limited to 6 GiB, so that a runaway allocation ends this process and not the checker.
/// A file is `h:<hex>` (its content) or `dir` (a directory opened like a file: every read reports an error).
pub fn child_stmt(args: &[String]) -> i32 {
    unsafe {
        let lim = libc::rlimit { rlim_cur: 6 << 30, rlim_max: 6 << 30 };
        libc::setrlimit(libc::RLIMIT_AS, &lim);
    }
    let unhex = |s: &str| -> Vec<u8> { (0..s.len() / 2).map(|i| u8::from_str_radix(&s[2 * i..2 * i + 2], 16).unwrap()).collect() };
    let def = String::from_utf8(unhex(&args[1])).unwrap();
    let text = String::from_utf8(unhex(&args[2])).unwrap();
    let format = match args[3].as_str() {
        "csv" => OutputFormat::CSV(";".into()),
        "text" => OutputFormat::Text,
        _ => OutputFormat::Json,
    };
    let tables = match make_tables(&def) {
        Ok(t) => t,
        Err(e) => {
            println!("{}", json!({"outcome": "definition-rejected", "error": e}));
            return 0;
        }
    };
    let st = match parse(&text) {
        Ok(s) => s,
        Err(e) => {
            println!("{}", json!({"outcome": "rejected", "error": e}));
            return 0;
        }
    };
    let mut keep = Vec::new();
    let mut files = Vec::new();
    for spec in &args[4..] {
        if spec == "dir" {
            files.push(File::open(tmp_dir()).expect("open directory"));
        } else {
            let t = TempFiles::new(&[unhex(&spec[2..]).as_slice()]);
            files.push(File::open(&t.paths[0]).unwrap());
            keep.push(t);
        }
    }
    let out = match run_opened_files(&tables, &st, files, FileRunOpts { format, ..Default::default() }) {
        Outcome::Ok(fr) => json!({"outcome": "ok", "run": fr.to_json()}),
        Outcome::Err(e) => json!({"outcome": "error", "error": e}),
        Outcome::Panic(p) => json!({"outcome": "panic", "msg": p.msg, "at": format!("{}:{}", p.file, p.line), "signature": crate::core::panic_signature(&p)}),
    };
    println!("{}", out);
    0
}

#[derive(Debug, Clone)]
pub enum ChildOut {
    /// the child's JSON report
    Done(J),
    /// killed by a signal (abort on allocation failure, stack overflow, ...)
    Signal(String),
    /// still running after the time limit (killed)
    Timeout,
    Other(String),
}

/// `files`: Some(content) or None for a directory
pub fn run_stmt_child(def: &str, stmt: &str, format: &str, files: &[Option<&[u8]>], timeout_s: u64) -> ChildOut {
    run_stmt_child_env(def, stmt, format, files, timeout_s, &[])
}

/// the same with extra environment variables for the child (e.g. TZ)
pub fn run_stmt_child_env(def: &str, stmt: &str, format: &str, files: &[Option<&[u8]>], timeout_s: u64, env: &[(&str, &str)]) -> ChildOut {
    let hex = |b: &[u8]| -> String { b.iter().map(|x| format!("{:02x}", x)).collect() };
    let exe = std::env::current_exe().unwrap();
    let mut args: Vec<String> = vec!["--child".into(), "stmt".into(), hex(def.as_bytes()), hex(stmt.as_bytes()), format.into()];
    for f in files {
        args.push(match f {
            Some(c) => format!("h:{}", hex(c)),
            None => "dir".into(),
        });
    }
    let mut cmd = std::process::Command::new(exe);
    cmd.args(&args).stdout(std::process::Stdio::piped()).stderr(std::process::Stdio::piped());
    for (k, v) in env {
        cmd.env(k, v);
    }
    let mut child = match cmd.spawn() {
        Ok(c) => c,
        Err(e) => return ChildOut::Other(format!("spawn: {}", e)),
    };
    let start = std::time::Instant::now();
    loop {
        match child.try_wait() {
            Ok(Some(_)) => break,
            Ok(None) => {
                if start.elapsed().as_secs() >= timeout_s {
                    let _ = child.kill();
                    let _ = child.wait();
                    return ChildOut::Timeout;
                }
                std::thread::sleep(std::time::Duration::from_millis(5));
            }
            Err(e) => return ChildOut::Other(format!("wait: {}", e)),
        }
    }
    let out = match child.wait_with_output() {
        Ok(o) => o,
        Err(e) => return ChildOut::Other(format!("output: {}", e)),
    };
    if out.status.code().is_none() {
        return ChildOut::Signal(String::from_utf8_lossy(&out.stderr).lines().last().unwrap_or("").chars().take(200).collect());
    }
    let stdout = String::from_utf8_lossy(&out.stdout).to_string();
    match stdout.lines().last().and_then(|l| serde_json::from_str::<J>(l).ok()) {
        Some(j) => ChildOut::Done(j),
        None => ChildOut::Other(format!("exit {:?}: {}", out.status.code(), String::from_utf8_lossy(&out.stderr).lines().last().unwrap_or(""))),
    }
}

/// the CLI binary with the given bytes on its standard input (a pipe)
pub fn run_cli_stdin(args: &[&str], stdin: &[u8]) -> Option<(Vec<String>, String, bool)> {
    use std::io::Write;
    let bin = format!("{}/target/cli/release/sqlgrep", crate::core::verif_dir());
    if !std::path::Path::new(&bin).exists() {
        return None;
    }
    let mut child = std::process::Command::new(&bin).args(args).stdin(std::process::Stdio::piped()).stdout(std::process::Stdio::piped()).stderr(std::process::Stdio::piped()).spawn().ok()?;
    {
        let mut si = child.stdin.take()?;
        let _ = si.write_all(stdin);
    }
    let out = child.wait_with_output().ok()?;
    Some((String::from_utf8_lossy(&out.stdout).lines().map(|l| l.to_string()).collect(), String::from_utf8_lossy(&out.stderr).to_string(), out.status.success()))
}

/// a File whose bytes come from a pipe (its metadata length is 0; it cannot be rewound)
pub fn pipe_file(content: &[u8]) -> File {
    use std::io::Write;
    use std::os::fd::FromRawFd;
    let mut fds = [0i32; 2];
    assert_eq!(unsafe { libc::pipe(fds.as_mut_ptr()) }, 0);
    let mut w = unsafe { File::from_raw_fd(fds[1]) };
    assert!(content.len() < 60_000, "pipe_file: content must fit the pipe buffer");
    w.write_all(content).unwrap();
    drop(w);
    unsafe { File::from_raw_fd(fds[0]) }
}

pub fn run_cli(args: &[&str]) -> Option<(Vec<String>, String, bool)> {
    let bin = format!("{}/target/cli/release/sqlgrep", crate::core::verif_dir());
    if !std::path::Path::new(&bin).exists() {
        return None;
    }
    let out = std::process::Command::new(&bin).args(args).output().ok()?;
    Some((String::from_utf8_lossy(&out.stdout).lines().map(|l| l.to_string()).collect(), String::from_utf8_lossy(&out.stderr).to_string(), out.status.success()))
}
