//! C19 — interrupting a query stops it promptly and leaves consistent output.
//!
//! The handler thread performs one monotone store (true -> false); the executor only loads. Every interleaving is
//! characterised by which load is the first to see `false`. The BatchLine / JoinLoadLine hooks sit immediately before
//! each load, and a Printer that clears the flag after the n-th record covers the points between two loads where
//! output has happened. All of these points are enumerated for every (statement, input, file split, joined file).

use std::cell::RefCell;
use std::rc::Rc;
use std::sync::atomic::{AtomicBool, Ordering};
use std::sync::Arc;

use serde_json::{json, Value as J};

use sqlgrep::data_model::Tables;
use sqlgrep::verif_hooks::{self, Action, Point};

use crate::checks::fail;
use crate::core::*;
use crate::gen::*;
use crate::sut::{self, FileRun, FileRunOpts, Outcome};

#[derive(Clone, Debug, PartialEq)]
enum Interrupt {
    None,
    BeforeBatchLoad(usize),
    BeforeJoinLoad(usize),
    AfterPrinted(usize),
    /// the flag is already cleared when the executor is created and started
    BeforeStart,
    /// the flag is cleared while a line is being combined with its joined rows: after the j-th combination (counted
    /// over the whole run)
    AfterJoinRow(usize),
}

#[derive(Default, Clone, Debug)]
struct Counts {
    batch: usize,
    join: usize,
    join_after_interrupt: usize,
    fired: bool,
    joinrow: usize,
    /// number of input lines loaded when the interrupt fired
    fired_at_batch: usize,
}

thread_local! {
    /// display mode for the runs of the current case (single_result flag of DisplayOptions)
    static SINGLE_RESULT: std::cell::Cell<bool> = std::cell::Cell::new(true);
}

fn run_with(tables: &Tables, stmt_text: &str, files: &[&[u8]], intr: &Interrupt) -> (Outcome<FileRun>, Counts) {
    let st = sut::parse(stmt_text).expect(stmt_text);
    let running = Arc::new(AtomicBool::new(true));
    let counts = Rc::new(RefCell::new(Counts::default()));
    let (c2, r2, i2) = (counts.clone(), running.clone(), intr.clone());
    verif_hooks::set(Box::new(move |p| {
        let mut c = c2.borrow_mut();
        match p {
            Point::BatchLine => {
                if i2 == Interrupt::BeforeBatchLoad(c.batch) {
                    r2.store(false, Ordering::SeqCst);
                    c.fired = true;
                }
                c.batch += 1;
            }
            Point::JoinRow => {
                if i2 == Interrupt::AfterJoinRow(c.joinrow) {
                    r2.store(false, Ordering::SeqCst);
                    c.fired = true;
                    c.fired_at_batch = c.batch;
                }
                c.joinrow += 1;
            }
            Point::JoinLoadLine => {
                if i2 == Interrupt::BeforeJoinLoad(c.join) {
                    r2.store(false, Ordering::SeqCst);
                    c.fired = true;
                }
                if c.fired {
                    c.join_after_interrupt += 1;
                }
                c.join += 1;
            }
            _ => {}
        }
        Action::Continue
    }));
    if *intr == Interrupt::BeforeStart {
        running.store(false, Ordering::SeqCst);
    }
    let opts = FileRunOpts { single_result: SINGLE_RESULT.with(|s| s.get()), running: running.clone(), interrupt_after_printed: if let Interrupt::AfterPrinted(n) = intr { Some(*n) } else { None }, ..Default::default() };
    let out = sut::run_files(tables, &st, files, opts);
    verif_hooks::clear();
    let c = counts.borrow().clone();
    (out, c)
}

struct World {
    tables: Tables,
    stmts: Vec<String>,
    _tmp: sut::TempFiles,
}

fn joined_content(n: usize) -> Vec<u8> {
    let mut s = String::new();
    for i in 0..n {
        s.push_str(&format!("{{\"k\":\"{}\",\"y\":{}}}\n", if i % 3 == 2 { "b" } else { "a" }, i));
    }
    s.into_bytes()
}

const JOIN_SIZES: [usize; 7] = [0, 3, 10, 11, 25, 1025, 1040];

/// sizes >= 1000 denote sparse files: (size - 1000) lines of which only every 13th is admitted
fn joined_file(n: usize) -> Vec<u8> {
    if n < 1000 {
        return joined_content(n);
    }
    let mut s = String::new();
    for i in 0..(n - 1000) {
        if i % 13 == 0 || i == 1 || i == 2 {
            s.push_str(&format!("{{\"k\":\"{}\",\"y\":{}}}\n", if i % 2 == 0 { "a" } else { "b" }, i));
        } else {
            s.push_str("not admitted\n");
        }
    }
    s.into_bytes()
}

fn world() -> World {
    let tables = sut::make_tables(&format!("{}\n{}", JDEF, JDEF_U)).unwrap();
    let contents: Vec<Vec<u8>> = JOIN_SIZES.iter().map(|n| joined_file(*n)).collect();
    let crefs: Vec<&[u8]> = contents.iter().map(|c| c.as_slice()).collect();
    let tmp = sut::TempFiles::new(&crefs);
    let mut stmts: Vec<String> = vec![
        "SELECT k, v FROM t".into(),
        "SELECT k FROM t WHERE v > 1".into(),
        "SELECT DISTINCT k FROM t".into(),
        "SELECT input FROM t LIMIT 2".into(),
        "SELECT k, COUNT(*), SUM(v) FROM t GROUP BY k".into(),
        "SELECT COUNT(*), MAX(s) FROM t".into(),
        "SELECT k, COUNT(*) FROM t GROUP BY k HAVING COUNT(*) > 1".into(),
    ];
    for p in &tmp.paths {
        stmts.push(format!("SELECT t.k, v, y FROM t INNER JOIN u::'{}' ON t.k = u.k", p));
        stmts.push(format!("SELECT t.k, COUNT(*), SUM(y) FROM t INNER JOIN u::'{}' ON t.k = u.k GROUP BY t.k", p));
    }
    stmts.push(format!("SELECT t.k, y FROM t OUTER JOIN u::'{}' ON t.k = u.k", tmp.paths[1]));
    World { tables, stmts, _tmp: tmp }
}

fn alphabet() -> Vec<Vec<u8>> {
    let mut v: Vec<Vec<u8>> = jlines().iter().map(|l| l.as_bytes().to_vec()).collect();
    v.push(vec![0xFF, b'x']); // a line that is not valid UTF-8: reading it is an error
    v
}

fn files_from_bytes(lines: &[&[u8]], parts: &[usize]) -> Vec<Vec<u8>> {
    let mut out = Vec::new();
    let mut i = 0;
    for p in parts {
        let mut f = Vec::new();
        for l in &lines[i..i + p] {
            f.extend_from_slice(l);
            f.push(b'\n');
        }
        out.push(f);
        i += p;
    }
    out
}

fn nonblank(v: &[String]) -> Vec<String> {
    // in multi-result display mode the blank separator lines are part of the output that must stay a prefix
    if SINGLE_RESULT.with(|s| s.get()) {
        v.iter().filter(|l| !l.is_empty()).cloned().collect()
    } else {
        v.to_vec()
    }
}

fn check_group(w: &World, si: usize, seq: &[u8], parts: &[usize], only: Option<&Interrupt>) -> (Vec<Failure>, u64, u64, u64) {
    let al = alphabet();
    let blines: Vec<&[u8]> = seq.iter().map(|i| al[*i as usize].as_slice()).collect();
    let lossy: Vec<String> = blines.iter().map(|l| String::from_utf8_lossy(l).to_string()).collect();
    let lines: Vec<&str> = lossy.iter().map(|s| s.as_str()).collect();
    let bad_idx = seq.iter().position(|i| *i as usize == al.len() - 1);
    let files = files_from_bytes(&blines, parts);
    let frefs: Vec<&[u8]> = files.iter().map(|f| f.as_slice()).collect();
    let text = &w.stmts[si];
    let is_agg = sut::parse(text).unwrap().is_aggregate();
    let (base, bc) = run_with(&w.tables, text, &frefs, &Interrupt::None);
    let base = match &base {
        Outcome::Ok(fr) if fr.result.is_ok() || bad_idx.is_some() => fr.clone(),
        _ => return (vec![], 1, 0, 0),
    };
    let full = nonblank(&base.printed);
    let mut out = Vec::new();
    // nobody interrupted this run: the running flag is the caller's; an executor that clears it itself turns the user's
    // first Ctrl-C into the "second" one (the command line program's handler ends the process when the flag is already
    // false - a table being printed is cut) and stops the caller's next query before its first line
    if only.is_none() && (base.flag_false_at.is_some() || !base.flag_after) {
        out.push(fail(
            format!("interrupt:flag-cleared-by-the-executor:{}", if base.flag_false_at.is_some() { "while-printing" } else { "after-the-run" }),
            format!("`{}` ran without any interrupt, yet the caller's running flag was false {}", text, match base.flag_false_at { Some(i) => format!("while record {} was printed", i), None => "after execute() returned".to_string() }),
            json!({"stmt": si, "statement": text, "seq": seq, "lines": lines, "parts": parts, "interrupt": "None"}),
            json!("flag untouched"),
            json!({"flag_false_at": base.flag_false_at, "flag_after": base.flag_after}),
            seq.len() as u64,
        ));
    }
    let mut points: Vec<Interrupt> = Vec::new();
    for k in 0..bc.batch {
        points.push(Interrupt::BeforeBatchLoad(k));
    }
    for j in 0..bc.join {
        points.push(Interrupt::BeforeJoinLoad(j));
    }
    for n in 1..=base.printed.len() {
        points.push(Interrupt::AfterPrinted(n));
    }
    points.push(Interrupt::BeforeStart);
    for j in 0..bc.joinrow {
        points.push(Interrupt::AfterJoinRow(j));
    }
    if let Some(o) = only {
        points = vec![o.clone()];
    }
    let mut evals = 1;
    let mut nontrivial = 0;
    for p in &points {
        evals += 1;
        let (r, c) = run_with(&w.tables, text, &frefs, p);
        let case = json!({"stmt": si, "statement": text, "seq": seq, "lines": lines, "parts": parts, "interrupt": format!("{:?}", p)});
        let kind = if text.contains("JOIN") && is_agg { "join+aggregate" } else if text.contains("JOIN") { "join" } else if is_agg { "aggregate" } else { "select" };
        let pname = match p {
            Interrupt::BeforeBatchLoad(_) => "before-line-load",
            Interrupt::BeforeJoinLoad(_) => "before-join-load",
            Interrupt::AfterPrinted(_) => "after-printed-record",
            Interrupt::BeforeStart => "before-start",
            Interrupt::AfterJoinRow(_) => "between-joined-rows-of-a-line",
            Interrupt::None => "none",
        };
        let mut devs: Vec<(String, String)> = Vec::new();
        match &r {
            Outcome::Panic(pr) => devs.push((format!("panic:{}", msg_class(&pr.msg)), pr.msg.clone())),
            Outcome::Err(e) => devs.push(("error".into(), e.clone())),
            Outcome::Ok(fr) => {
                if let Err(e) = &fr.result {
                    devs.push(("error-reported".into(), e.clone()));
                }
                let got = nonblank(&fr.printed);
                // consumption bound
                let allowed: u64 = match p {
                    Interrupt::BeforeBatchLoad(k) => *k as u64,
                    Interrupt::BeforeJoinLoad(_) | Interrupt::BeforeStart => 0,
                    Interrupt::AfterPrinted(_) => u64::MAX, // refined below for non-aggregates
                    Interrupt::AfterJoinRow(_) => c.fired_at_batch as u64, // the line in progress is the last one
                    Interrupt::None => u64::MAX,
                };
                let mut allowed = allowed;
                if let (Interrupt::AfterPrinted(n), false) = (p, is_agg) {
                    // no input line beyond the one that produced the n-th record may be consumed
                    let st = sut::parse(text).unwrap();
                    if let Outcome::Ok(pl) = sut::rows_per_line(&w.tables, &st, &lines) {
                        let mut cum = 0;
                        for (i, c) in pl.iter().enumerate() {
                            cum += c;
                            if cum >= *n {
                                allowed = i as u64 + 1;
                                break;
                            }
                        }
                    }
                }
                if fr.total_lines > allowed {
                    devs.push(("line-consumed-after-interrupt".into(), format!("consumed {} lines, interrupt came before load #{}", fr.total_lines, allowed)));
                }
                if let Interrupt::BeforeBatchLoad(k) = p {
                    if (fr.total_lines as usize) < *k {
                        devs.push(("stopped-before-interrupt".into(), format!("consumed {} lines but interrupt came before load #{}", fr.total_lines, k)));
                    }
                }
                if let Interrupt::BeforeJoinLoad(_) = p {
                    if c.join_after_interrupt > 11 {
                        devs.push(("joined-file-loader-overrun".into(), format!("{} joined-file lines handled after the interrupt", c.join_after_interrupt)));
                    }
                }
                if is_agg {
                    // table for exactly the lines consumed before the interruption
                    if let Interrupt::AfterPrinted(_) = p {
                        // the only printing of an aggregate happens after the loop: output must be complete prefix
                        if got.len() > full.len() || got[..] != full[..got.len()] {
                            devs.push(("aggregate-output-not-prefix".into(), "printed records are not a prefix of the uninterrupted output".into()));
                        }
                    } else {
                        let consumed = fr.total_lines as usize;
                        let prefix_files = files_from_bytes(&blines[..consumed.min(lines.len())], &[consumed.min(lines.len())]);
                        let prefs: Vec<&[u8]> = prefix_files.iter().map(|f| f.as_slice()).collect();
                        let expect = if matches!(p, Interrupt::BeforeJoinLoad(_)) || (*p == Interrupt::BeforeStart && text.contains("JOIN")) {
                            None // joined table incomplete and no line consumed: nothing may be printed
                        } else {
                            match run_with(&w.tables, text, &prefs, &Interrupt::None).0 {
                                Outcome::Ok(e) => Some(nonblank(&e.printed)),
                                _ => None,
                            }
                        };
                        let expect = expect.unwrap_or_default();
                        if got != expect {
                            devs.push(("aggregate-table-not-for-consumed-lines".into(), format!("printed {:?}, batch over the {} consumed lines prints {:?}", got, consumed, expect)));
                        }
                    }
                } else {
                    if got.len() > full.len() || got[..] != full[..got.len()] {
                        devs.push(("output-not-prefix".into(), format!("printed {:?} is not a prefix of {:?}", got, full)));
                    }
                    if *p == Interrupt::BeforeStart && !got.is_empty() {
                        devs.push(("output-although-interrupted-before-start".into(), format!("printed {:?}", got)));
                    }
                    if let Interrupt::BeforeBatchLoad(k) = p {
                        // everything produced by the first k lines must have been printed
                        // (a changed executor may poll once more than there are lines: clamp)
                        let kk = (*k).min(blines.len());
                        let pf = files_from_bytes(&blines[..kk], &[kk]);
                        let prefs: Vec<&[u8]> = pf.iter().map(|f| f.as_slice()).collect();
                        if let Outcome::Ok(e) = run_with(&w.tables, text, &prefs, &Interrupt::None).0 {
                            let want = nonblank(&e.printed);
                            if got != want && !text.contains("LIMIT") {
                                devs.push(("output-not-for-consumed-lines".into(), format!("printed {} records, the {} consumed lines produce {}", got.len(), k, want.len())));
                            }
                        }
                    }
                }
                if matches!(p, Interrupt::BeforeBatchLoad(k) if *k > 0 && *k + 1 < bc.batch) || matches!(p, Interrupt::AfterPrinted(n) if *n < base.printed.len()) || matches!(p, Interrupt::BeforeJoinLoad(j) if *j > 0) {
                    nontrivial += 1;
                }
            }
        }
        for (d, msg) in devs {
            out.push(fail(
                format!("interrupt:{}:{}:{}", kind, pname, d),
                format!("`{}` interrupted {:?}: {}", text, p, msg),
                case.clone(),
                json!({"uninterrupted": full}),
                sut::outcome_json(&r, |f| f.to_json()),
                (seq.len() * 100 + parts.len()) as u64,
            ));
        }
    }
    (out, evals, nontrivial, (bc.batch + bc.join) as u64)
}

/// the command line program reading standard input (a pipe that stays open), interrupted by a real SIGINT after it has
/// read n lines; one more line is then written so that the blocked read returns. The program must end by itself and
/// print the aggregate table (or the rows) of a non-empty prefix of the n lines, never anything of the line written
/// after the signal. Synchronisation: the harness waits until the pipe is drained (FIONREAD == 0), then 300 ms.
fn cli_sigint_case(stmt: &str, n: usize, aggregate: bool) -> Result<Option<(Vec<String>, bool)>, String> {
    use std::io::{Read, Write};
    use std::os::fd::AsRawFd;
    let bin = format!("{}/target/cli/release/sqlgrep", verif_dir());
    if !std::path::Path::new(&bin).exists() {
        return Ok(None);
    }
    static CNT: std::sync::atomic::AtomicU64 = std::sync::atomic::AtomicU64::new(0);
    let defp = format!("{}/c19_cli_def_{}_{}.txt", sut::tmp_dir(), std::process::id(), CNT.fetch_add(1, Ordering::Relaxed));
    std::fs::write(&defp, "CREATE TABLE t('k=([a-z]+)' => k TEXT, 'v=([0-9]+)' => v INT);").map_err(|e| e.to_string())?;
    let mut child = std::process::Command::new(&bin).args(["-d", &defp, "--stdin", "--format", "json", "-c", stmt]).stdin(std::process::Stdio::piped()).stdout(std::process::Stdio::piped()).stderr(std::process::Stdio::null()).spawn().map_err(|e| e.to_string())?;
    let mut stdin = child.stdin.take().unwrap();
    let data: String = (1..=n).map(|i| format!("k=a v={}\n", i)).collect();
    stdin.write_all(data.as_bytes()).map_err(|e| e.to_string())?;
    let fd = stdin.as_raw_fd();
    let start = std::time::Instant::now();
    loop {
        let mut pending: libc::c_int = 0;
        let r = unsafe { libc::ioctl(fd, libc::FIONREAD, &mut pending) };
        if r != 0 || pending == 0 || start.elapsed().as_secs() > 15 {
            break;
        }
        std::thread::sleep(std::time::Duration::from_millis(2));
    }
    std::thread::sleep(std::time::Duration::from_millis(300));
    unsafe { libc::kill(child.id() as i32, libc::SIGINT) };
    std::thread::sleep(std::time::Duration::from_millis(50));
    let _ = stdin.write_all(b"k=a v=1000000\n");
    // the pipe stays open: the program has to end because of the interrupt, not because of end of input
    let t0 = std::time::Instant::now();
    let mut ended = false;
    while t0.elapsed().as_secs() < 10 {
        if let Ok(Some(_)) = child.try_wait() {
            ended = true;
            break;
        }
        std::thread::sleep(std::time::Duration::from_millis(5));
    }
    if !ended {
        let _ = child.kill();
    }
    drop(stdin);
    let mut out = String::new();
    if let Some(mut so) = child.stdout.take() {
        let _ = so.read_to_string(&mut out);
    }
    let _ = child.wait();
    std::fs::remove_file(&defp).ok();
    let _ = aggregate;
    Ok(Some((out.lines().filter(|l| !l.is_empty()).map(|l| l.to_string()).collect(), ended)))
}

/// big inputs (4200 lines in one / two files): an interrupt before line k (k around powers of two and every k of
/// 4090..4130) lets no line from k on be consumed; a plain SELECT has printed exactly the first k rows, an aggregate
/// that prints anything has counted exactly k lines
fn big_input_layer(col: &Collector, ctx: &Ctx) {
    let tables = sut::make_tables("CREATE TABLE b(line = '^n=([0-9]+)$', line[1] => n INT);").expect("big def");
    let total = 4200usize;
    let content: Vec<u8> = (0..total).flat_map(|i| format!("n={}\n", i).into_bytes()).collect();
    let split_at: usize = (0..4000).map(|i| format!("n={}\n", i).len()).sum();
    let mut ks: Vec<usize> = vec![0, 1, 15, 16, 17, 255, 256, 257, 1023, 1024, 1025, 2047, 2048, 2049, 4199];
    ks.extend(4090..ctx.tier.pick(4130, 4199));
    let stmts = ["SELECT n FROM b", "SELECT COUNT(*) AS c, MAX(n) AS m FROM b"];
    let items: Vec<(usize, usize, bool)> = ks.iter().flat_map(|k| (0..stmts.len()).flat_map(move |si| [false, true].into_iter().map(move |two| (*k, si, two)))).collect();
    let describe = |idx: u64| json!({"hang": true, "big_input": format!("{:?}", items[idx as usize])});
    let (done, complete) = par_for_watch(ctx, items.len() as u64, 4, &describe, |idx| {
        let (k, si, two) = items[idx as usize];
        let files: Vec<&[u8]> = if two { vec![&content[..split_at], &content[split_at..]] } else { vec![&content[..]] };
        let (r, _) = run_with(&tables, stmts[si], &files, &Interrupt::BeforeBatchLoad(k));
        col.eval(1);
        col.nontrivial(h64(&("big", k, si, two)));
        let case = json!({"layer": "big-input", "k": k, "stmt": si, "statement": stmts[si], "two_files": two});
        match r {
            Outcome::Panic(p) => col.fail(fail(format!("big-input:panic:{}", msg_class(&p.msg)), format!("`{}` interrupted before line {} of 4200 panicked: {}", stmts[si], k, p.msg), case, json!("no panic"), json!(p.msg), k as u64)),
            Outcome::Err(e) => col.fail(fail("big-input:error".into(), format!("`{}` interrupted before line {} of 4200: {}", stmts[si], k, e), case, json!("ok"), json!(e), k as u64)),
            Outcome::Ok(fr) => {
                let got = nonblank(&fr.printed);
                let mut dev: Option<String> = None;
                if fr.total_lines > k as u64 {
                    dev = Some(format!("{} lines consumed", fr.total_lines));
                }
                if si == 0 {
                    let want: Vec<String> = (0..k).map(|i| format!("{{\"n\":{}}}", i)).collect();
                    let norm: Vec<String> = got.iter().map(|l| l.replace(' ', "")).collect();
                    if norm != want {
                        dev = Some(format!("{} rows printed, last {:?}", got.len(), got.last()));
                    }
                } else if let Some(l) = got.first() {
                    let c = serde_json::from_str::<J>(l).ok().and_then(|j| j["c"].as_i64());
                    if c != Some(k as i64) {
                        dev = Some(format!("table printed: {}", l));
                    }
                }
                if let Some(d) = dev {
                    col.fail(fail(format!("big-input:{}:consumed-after-interrupt", if si == 0 { "select" } else { "aggregate" }), format!("`{}` over 4200 lines ({}) interrupted before line {}: {}", stmts[si], if two { "files of 4000 + 200 lines" } else { "one file" }, k, d), case, json!({"lines_consumed": k}), json!({"total_lines": fr.total_lines, "printed": got.len(), "last": got.last()}), k as u64));
                }
            }
        }
    });
    col.layer("big input (4200 lines): interrupt before line k", done, complete, json!({"k": ks.len(), "statements": stmts, "files": ["one", "4000+200"]}));
}

/// joined files with an unreadable line (invalid UTF-8) / a line that is no row far behind the window of ten lines: an
/// interrupt before the load or at one of the first lines of the load must end the query without error and without
/// output - the rest of the joined file is not read (a loader that fetches the file before it polls would report the line)
fn bad_joined_layer(col: &Collector) -> Vec<Failure> {
    let tables = sut::make_tables(&format!("{}\n{}", JDEF, JDEF_U)).unwrap();
    let mut out = Vec::new();
    let mut n = 0u64;
    for bad_at in [40usize, 200] {
        let mut content = joined_content(bad_at);
        content.extend_from_slice(&[0xFF, 0xFE, b'x', b'\n']);
        content.extend_from_slice(&joined_content(5));
        let tmp = sut::TempFiles::new(&[content.as_slice()]);
        let main: Vec<u8> = jlines().iter().take(3).flat_map(|l| format!("{}\n", l).into_bytes()).collect();
        for text in [format!("SELECT t.k, v, y FROM t INNER JOIN u::'{}' ON t.k = u.k", tmp.paths[0]), format!("SELECT t.k, COUNT(*) FROM t OUTER JOIN u::'{}' ON t.k = u.k GROUP BY t.k", tmp.paths[0])] {
            let mut points = vec![Interrupt::BeforeStart];
            points.extend((0..12).map(Interrupt::BeforeJoinLoad));
            for p in points {
                let (r, c) = run_with(&tables, &text, &[main.as_slice()], &p);
                n += 1;
                col.eval(1);
                col.nontrivial(h64(&("bad-joined", bad_at, &text, format!("{:?}", p))));
                let case = json!({"layer": "bad-joined", "bad_line_at": bad_at, "statement": text.replace(tmp.paths[0].as_str(), "<joined>"), "interrupt": format!("{:?}", p)});
                let dev: Option<String> = match &r {
                    Outcome::Panic(pr) => Some(format!("panic: {}", pr.msg)),
                    Outcome::Err(e) => Some(format!("error: {}", e)),
                    Outcome::Ok(fr) => {
                        if let Err(e) = &fr.result {
                            Some(format!("error reported: {}", e))
                        } else if !nonblank(&fr.printed).is_empty() && !text.contains("COUNT") {
                            Some(format!("rows printed: {:?}", nonblank(&fr.printed)))
                        } else if c.join_after_interrupt > 11 {
                            Some(format!("{} joined lines loaded after the interrupt", c.join_after_interrupt))
                        } else {
                            None
                        }
                    }
                };
                if let Some(d) = dev {
                    out.push(fail(format!("join-load:unreadable-line-behind-the-window:{}", d.split(':').next().unwrap_or("")), format!("`{}` (unreadable joined line {}) interrupted at {:?}: {}", text.replace(tmp.paths[0].as_str(), "<joined>"), bad_at, p, d), case, json!("ends without error, without reading on"), json!(d), n));
                }
            }
        }
    }
    col.layer("joined file with an unreadable line behind the poll window", n, true, json!({"bad_line_at": [40, 200], "interrupts": "before start, before joined line 0..11"}));
    out
}

fn cli_sigint_layer(col: &Collector) {
    let mut n_cases = 0u64;
    let mut missing = false;
    for (stmt, aggregate) in [("SELECT COUNT(*) AS n, SUM(v) AS s FROM t", true), ("SELECT k, COUNT(*) AS n, MAX(v) AS m FROM t GROUP BY k", true), ("SELECT v FROM t", false)] {
        for n in [3usize, 40] {
            let r = match cli_sigint_case(stmt, n, aggregate) {
                Ok(Some(r)) => r,
                Ok(None) => {
                    missing = true;
                    break;
                }
                Err(e) => {
                    col.note(format!("command-line SIGINT case skipped: {}", e));
                    continue;
                }
            };
            n_cases += 1;
            col.eval(1);
            col.nontrivial(h64(&("cli-sigint", stmt, n)));
            let (lines, ended) = r;
            // acceptable outputs: the result over the first k lines for some 1 <= k <= n
            let ok_output = if aggregate {
                lines.len() == 1 && (1..=n).any(|k| {
                    let j: J = serde_json::from_str(&lines[0]).unwrap_or(J::Null);
                    j["n"].as_i64() == Some(k as i64) && (j["s"].as_i64() == Some((k * (k + 1) / 2) as i64) || j["m"].as_i64() == Some(k as i64))
                })
            } else {
                !lines.is_empty() && lines.len() <= n && lines.iter().enumerate().all(|(i, l)| serde_json::from_str::<J>(l).ok().and_then(|j| j["v"].as_i64()) == Some(i as i64 + 1))
            };
            if !ended || !ok_output {
                col.fail(fail(
                    format!("interrupt:cli-sigint:{}:{}", if aggregate { "aggregate" } else { "select" }, if !ended { "did-not-end" } else if lines.is_empty() { "nothing-printed" } else { "output-not-for-a-prefix" }),
                    format!("sqlgrep --stdin `{}` after {} lines and SIGINT (one more line written afterwards): ended by itself = {}, printed {:?}", stmt, n, ended, lines),
                    json!({"layer": "cli-sigint", "statement": stmt, "n": n}),
                    json!("the result over the first k lines, 1 <= k <= n; the program ends by itself"),
                    json!({"ended": ended, "printed": lines}),
                    n as u64,
                ));
            }
        }
        if missing {
            break;
        }
    }
    if missing {
        col.note("CLI binary not built: command-line SIGINT layer skipped".into());
    } else {
        col.layer("command line program: SIGINT while reading standard input", n_cases, true, json!({"lines": [3, 40], "statements": 3}));
    }
}

pub fn run(ctx: &Ctx) -> i32 {
    let col = Collector::new();
    // the small fixed layers first: a wall-clock budget that runs out on a loaded machine cuts the large enumeration, not these
    big_input_layer(&col, ctx);
    for f in bad_joined_layer(&col) {
        col.fail(f);
    }
    let w = world();
    let maxlen = ctx.tier.pick(3, 5) as u32;
    let k = alphabet().len() as u64;
    let nseq = seq_count(k, maxlen);
    let nst = w.stmts.len() as u64;
    let (done, complete) = par_for_budget(ctx, nseq * nst, 8, |idx| {
        let si = (idx % nst) as usize;
        let seq = seq_decode(idx / nst, k, maxlen);
        for parts in splits(seq.len(), 2, true) {
            // join statements are also run in multi-result display mode (blank separator after every multi-row batch)
            if w.stmts[si].contains("JOIN") && !w.stmts[si].contains("COUNT") && parts.len() == 1 {
                SINGLE_RESULT.with(|s| s.set(false));
                let (fs, evals, _, _) = check_group(&w, si, &seq, &parts, None);
                SINGLE_RESULT.with(|s| s.set(true));
                col.eval(evals);
                for mut f in fs {
                    f.signature = format!("{}:multi-result-display", f.signature);
                    f.case["single_result"] = json!(false);
                    col.fail(f);
                }
            }
            let (fs, evals, nt, pts) = check_group(&w, si, &seq, &parts, None);
            col.eval(evals);
            col.states.fetch_add(evals * (pts + 1), Ordering::Relaxed);
            col.transitions.fetch_add(evals * pts, Ordering::Relaxed);
            col.traces_validated.fetch_add(evals, Ordering::Relaxed);
            for i in 0..nt {
                col.nontrivial(h64(&(si, &seq, &parts, i)));
            }
            col.outcome(h64(&(evals, fs.len(), nt)));
            if idx % 1999 == 5 && parts.len() == 2 {
                col.sample(json!({"statement": w.stmts[si], "lines": seq, "file_split": parts, "interrupt_points": "before every line load, before every joined-file line, after every printed record"}));
            }
            for f in fs {
                col.fail(f);
            }
        }
    });
    col.layer("interrupt points", done, complete, json!({"statements": nst, "line_sequences": nseq, "max_len": maxlen, "joined_file_sizes": JOIN_SIZES}));
    // follow mode (the real FollowFileExecutor in child processes): interrupt before the k-th load of the running flag
    {
        let mut nf = 0u64;
        for chunking in 0..2 {
            let content = "a\nb\nc\nd\n";
            let chunks: Vec<Vec<u8>> = if chunking == 0 { vec![content.as_bytes().to_vec()] } else { content.split_inclusive('\n').map(|l| l.as_bytes().to_vec()).collect() };
            for stmt in ["SELECT input FROM t", "SELECT input FROM t WHERE x != 'b'", "SELECT DISTINCT x FROM t"] {
                let (full, end0, ok0) = crate::checks::c10::follow_child(true, b"", &chunks, stmt, -1);
                for kq in 0..=4i64 {
                    let (delivered, end, ok) = crate::checks::c10::follow_child(true, b"", &chunks, stmt, kq);
                    nf += 1;
                    col.eval(1);
                    col.traces_validated.fetch_add(1, Ordering::Relaxed);
                    // lines 0..k-1 were consumed before the interrupt: the output is what these lines produce
                    let consumed: Vec<&str> = ["a", "b", "c", "d"].iter().take(kq as usize).cloned().collect();
                    let expect: Vec<String> = full.iter().filter(|l| consumed.iter().any(|c| l.contains(&format!("\"{}\"", c)))).cloned().collect();
                    if kq > 0 && kq < 4 {
                        col.nontrivial(h64(&("follow-intr", chunking, stmt, kq)));
                    }
                    if delivered != expect || end != "ok" || !ok || !ok0 || end0 != "ok" {
                        col.fail(fail(
                            format!("interrupt:follow:{}", if end != "ok" { "error-reported" } else if delivered.len() > expect.len() { "line-consumed-after-interrupt" } else { "output-not-for-consumed-lines" }),
                            format!("follow mode `{}` interrupted before load #{}: delivered {:?}, expected {:?}, end={}", stmt, kq, delivered, expect, end),
                            json!({"layer": "follow", "statement": stmt, "chunking": chunking, "k": kq}),
                            json!(expect),
                            json!({"delivered": delivered, "end": end}),
                            kq as u64,
                        ));
                    }
                }
            }
        }
        col.layer("follow-mode interrupt (FollowFileExecutor in child processes)", nf, true, json!({"interrupt_points": "before load 0..4", "statements": 3}));
        cli_sigint_layer(&col);
    }
    finish(
        ctx,
        &col,
        Finish {
            level: "model_checking",
            rule: "schedules of the two-thread program (handler: one store; executor: loads): interrupt immediately before every load of the running flag (hooks BatchLine / JoinLoadLine) and after every printed record, for every statement x line sequence x split into 1..2 files x joined file size; oracle: Ok result, printed prefix, consumed-line bound, aggregate table == batch over the consumed prefix. states/transitions = hook points visited. Non-trivial: the interrupt lands strictly inside the run.".into(),
            exhaustive: true,
            assumptions: vec!["the flag is only ever cleared once (Ctrl-C handler semantics of main.rs)".into()],
            bounds: json!({"max_lines": maxlen, "max_files": 2, "joined_file_sizes": JOIN_SIZES}),
        },
    )
}

pub fn replay(case: &J) -> Vec<Failure> {
    if case["layer"].as_str() == Some("cli-sigint") {
        let col = Collector::new();
        cli_sigint_layer(&col);
        let f = col.failures.lock().unwrap();
        return f.values().flat_map(|v| v.iter().cloned()).filter(|f| f.case == *case).collect();
    }
    if case["layer"].as_str() == Some("bad-joined") {
        return bad_joined_layer(&Collector::new()).into_iter().filter(|f| f.case == *case).collect();
    }
    if case["layer"].as_str() == Some("big-input") {
        let col = Collector::new();
        let ctx = Ctx { prop: "C19", tier: Tier::Thorough, seed: 0, start: std::time::Instant::now(), budget_s: 600.0 };
        big_input_layer(&col, &ctx);
        let f = col.failures.lock().unwrap();
        return f.values().flat_map(|v| v.iter().cloned()).filter(|f| f.case["stmt"] == case["stmt"]).collect();
    }
    let w = world();
    let seq: Vec<u8> = case["seq"].as_array().unwrap().iter().map(|x| x.as_u64().unwrap() as u8).collect();
    let parts: Vec<usize> = case["parts"].as_array().unwrap().iter().map(|x| x.as_u64().unwrap() as usize).collect();
    let s = case["interrupt"].as_str().unwrap_or("");
    let num: usize = s.chars().filter(|c| c.is_ascii_digit()).collect::<String>().parse().unwrap_or(0);
    SINGLE_RESULT.with(|x| x.set(case["single_result"].as_bool().unwrap_or(true)));
    let intr = if s.starts_with("BeforeBatchLoad") { Interrupt::BeforeBatchLoad(num) } else if s.starts_with("BeforeJoinLoad") { Interrupt::BeforeJoinLoad(num) } else { Interrupt::AfterPrinted(num) };
    check_group(&w, case["stmt"].as_u64().unwrap() as usize, &seq, &parts, Some(&intr)).0
}
