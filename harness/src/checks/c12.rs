//! C12 — every line of every input file reaches the query exactly once, in order.
//!
//! All byte strings up to a length bound over {a, b, LF, CR, C3A9 (é), FF} x every split into 1..3 files (all cut
//! positions, empty files included) x {SELECT input, SELECT COUNT(*), content as the joined side of a join}.
//! Oracle: reference line splitter; for invalid UTF-8 either an error is reported or every well-formed line is
//! still processed (a silent loss of later lines is the violation).

use serde_json::{json, Value as J};

use sqlgrep::data_model::Tables;
use sqlgrep::executor::OutputFormat;

use crate::checks::fail;
use crate::core::*;
use crate::gen::{hex, unhex};
use crate::sut::{self, FileRunOpts, Outcome};

const DEF: &str = "CREATE TABLE t(line = '(?s)^(.*)$', line[1] => x TEXT);\nCREATE TABLE m(line = '^(a)$', line[1] => k TEXT);";

const UNITS: [&[u8]; 6] = [b"a", b"b", b"\n", b"\r", &[0xC3, 0xA9], &[0xFF]];

fn content_of(seq: &[u8]) -> Vec<u8> {
    let mut v = Vec::new();
    for u in seq {
        v.extend_from_slice(UNITS[*u as usize]);
    }
    v
}

/// reference splitter for one file: (line bytes without terminator, valid utf8)
fn ref_lines(file: &[u8]) -> Vec<Vec<u8>> {
    let mut out = Vec::new();
    let mut cur = Vec::new();
    for b in file {
        if *b == b'\n' {
            if cur.last() == Some(&b'\r') {
                cur.pop();
            }
            out.push(std::mem::take(&mut cur));
        } else {
            cur.push(*b);
        }
    }
    if !cur.is_empty() {
        if cur.last() == Some(&b'\r') {
            cur.push(0); // sentinel: unterminated last line ending in CR -> CR membership is open
        }
        out.push(cur);
    }
    out
}

fn strip_cr(s: &[u8]) -> &[u8] {
    if s.last() == Some(&b'\r') {
        &s[..s.len() - 1]
    } else {
        s
    }
}

/// can `got` be explained by `exp` when invalid lines may be dropped or delivered in any form?
fn explains(exp: &[(Vec<u8>, bool)], got: &[Vec<u8>]) -> bool {
    if exp.is_empty() {
        return got.is_empty();
    }
    let (line, valid) = &exp[0];
    if *valid {
        // exact comparison; only a CR at the very end of an unterminated last line is left open (marked by 0x00 sentinel)
        let same = if line.last() == Some(&0u8) { strip_cr(&got[..].first().map(|g| g.as_slice()).unwrap_or(&[])) == strip_cr(&line[..line.len() - 1]) } else { !got.is_empty() && got[0] == *line };
        !got.is_empty() && same && explains(&exp[1..], &got[1..])
    } else {
        explains(&exp[1..], got) || (!got.is_empty() && explains(&exp[1..], &got[1..]))
    }
}

fn case_run(tables: &Tables, content: &[u8], cuts: &[usize]) -> (Vec<Failure>, bool, u64) {
    // cuts = part lengths in bytes
    let mut files: Vec<&[u8]> = Vec::new();
    let mut pos = 0;
    for c in cuts {
        files.push(&content[pos..pos + c]);
        pos += c;
    }
    let mut exp: Vec<(Vec<u8>, bool)> = Vec::new();
    for f in &files {
        for l in ref_lines(f) {
            let valid = std::str::from_utf8(&l).is_ok();
            let _ = &l;
            exp.push((l, valid));
        }
    }
    let all_valid = exp.iter().all(|e| e.1);
    let case = json!({"content_hex": hex(content), "cuts": cuts});
    let mut out = Vec::new();
    let feature = format!("{}{}", if all_valid { "valid-utf8" } else { "invalid-utf8" }, if cuts.len() > 1 { ":multifile" } else { "" });
    // 1. SELECT input
    let st = sut::parse("SELECT input FROM t").unwrap();
    let r = sut::run_files(tables, &st, &files, FileRunOpts { format: OutputFormat::Json, ..Default::default() });
    let mut outcome_key = 0u64;
    match &r {
        Outcome::Ok(fr) => {
            let got: Vec<Vec<u8>> = fr.printed.iter().filter(|l| !l.is_empty()).map(|l| serde_json::from_str::<J>(l).ok().and_then(|j| j["input"].as_str().map(|s| s.as_bytes().to_vec())).unwrap_or_else(|| b"<unparsable>".to_vec())).collect();
            outcome_key = h64(&got);
            let ok = if fr.result.is_err() { !all_valid } else { explains(&exp, &got) && (all_valid || true) };
            let lines_ok = fr.result.is_err() || !all_valid || fr.total_lines == exp.len() as u64;
            if !ok || !lines_ok {
                let dev = if fr.result.is_err() { "error-on-valid-input" } else if got.len() < exp.iter().filter(|e| e.1).count() { "lines-lost" } else if got.len() > exp.len() { "lines-added" } else { "lines-differ" };
                out.push(fail(
                    format!("lines:select:{}:{}", dev, feature),
                    format!("SELECT input over {} file(s): delivered {} lines, reference has {} ({} well-formed); result {:?}", files.len(), got.len(), exp.len(), exp.iter().filter(|e| e.1).count(), fr.result),
                    json!({"content_hex": hex(content), "cuts": cuts, "statement": "select"}),
                    json!(exp.iter().map(|e| String::from_utf8_lossy(&e.0).to_string()).collect::<Vec<_>>()),
                    json!({"lines": got.iter().map(|e| String::from_utf8_lossy(e).to_string()).collect::<Vec<_>>(), "total_lines": fr.total_lines}),
                    content.len() as u64 * 10 + cuts.len() as u64,
                ));
            }
        }
        Outcome::Panic(p) => out.push(fail(panic_signature(p), format!("panic: {}", p.msg), case.clone(), json!("no panic"), json!(p.msg), 0)),
        Outcome::Err(_) => {}
    }
    // 2. COUNT(*)
    let st = sut::parse("SELECT COUNT(*) FROM t").unwrap();
    let r = sut::run_files(tables, &st, &files, FileRunOpts { format: OutputFormat::Json, ..Default::default() });
    if let Outcome::Ok(fr) = &r {
        let cnt = fr.printed.iter().filter(|l| !l.is_empty()).next().and_then(|l| serde_json::from_str::<J>(l).ok()).and_then(|j| j.as_object().and_then(|o| o.values().next().cloned())).and_then(|v| v.as_i64());
        let nvalid = exp.iter().filter(|e| e.1).count() as i64;
        let ok = if fr.result.is_err() {
            !all_valid
        } else {
            match cnt {
                Some(c) => c >= nvalid && c <= exp.len() as i64,
                None => nvalid == 0,
            }
        };
        if !ok {
            out.push(fail(
                format!("lines:count:{}", feature),
                format!("SELECT COUNT(*) over {} file(s) gave {:?}, reference has {} lines ({} well-formed); result {:?}", files.len(), cnt, exp.len(), nvalid, fr.result),
                json!({"content_hex": hex(content), "cuts": cuts, "statement": "count"}),
                json!(exp.len()),
                fr.to_json(),
                content.len() as u64 * 10 + cuts.len() as u64,
            ));
        }
    }
    // 1b. the same single input read from a pipe (length unknown in advance, not seekable)
    if cuts.len() == 1 {
        let st = sut::parse("SELECT input FROM t").unwrap();
        let r = sut::run_opened_files(tables, &st, vec![sut::pipe_file(content)], FileRunOpts { format: OutputFormat::Json, ..Default::default() });
        if let Outcome::Ok(fr) = &r {
            let got: Vec<Vec<u8>> = fr.printed.iter().filter(|l| !l.is_empty()).map(|l| serde_json::from_str::<J>(l).ok().and_then(|j| j["input"].as_str().map(|s| s.as_bytes().to_vec())).unwrap_or_else(|| b"<unparsable>".to_vec())).collect();
            let ok = if fr.result.is_err() { !all_valid } else { explains(&exp, &got) };
            if !ok {
                out.push(fail(
                    format!("lines:pipe:{}", feature),
                    format!("SELECT input over a pipe: delivered {} lines, reference has {}; result {:?}", got.len(), exp.len(), fr.result),
                    json!({"content_hex": hex(content), "cuts": cuts, "statement": "pipe"}),
                    json!(exp.iter().map(|e| String::from_utf8_lossy(&e.0).to_string()).collect::<Vec<_>>()),
                    json!({"lines": got.iter().map(|e| String::from_utf8_lossy(e).to_string()).collect::<Vec<_>>()}),
                    content.len() as u64 * 10,
                ));
            }
        }
    }
    // 3. joined side (single file only): main table m has the one line "a"; joined rows = lines equal to "a"
    if cuts.len() == 1 {
        let tmp = sut::TempFiles::new(&[content]);
        let text = format!("SELECT COUNT(*) FROM m INNER JOIN t::'{}' ON m.k = t.x", tmp.paths[0]);
        let st = sut::parse(&text).unwrap();
        let r = sut::run_files(tables, &st, &[b"a\n"], FileRunOpts { format: OutputFormat::Json, ..Default::default() });
        if let Outcome::Ok(fr) = &r {
            let cnt = fr.printed.iter().filter(|l| !l.is_empty()).next().and_then(|l| serde_json::from_str::<J>(l).ok()).and_then(|j| j.as_object().and_then(|o| o.values().next().cloned())).and_then(|v| v.as_i64()).unwrap_or(0);
            let want = exp.iter().filter(|e| e.0 == b"a").count() as i64;
            let ok = if fr.result.is_err() { !all_valid } else { cnt == want };
            if !ok {
                out.push(fail(
                    format!("lines:joined-side:{}", feature),
                    format!("joined file: {} partner rows for key 'a', reference has {} lines equal to 'a'; result {:?}", cnt, want, fr.result),
                    json!({"content_hex": hex(content), "cuts": cuts, "statement": "join"}),
                    json!(want),
                    fr.to_json(),
                    content.len() as u64 * 10,
                ));
            }
        }
    }
    let nontrivial = exp.len() >= 2 && (cuts.len() >= 2 || !content.ends_with(b"\n") || content.contains(&b'\r') || !all_valid);
    (out, nontrivial, outcome_key)
}

fn byte_cuts(n: usize, max_parts: usize) -> Vec<Vec<usize>> {
    splits(n, max_parts, true)
}

const JSON_UNITS: [(&str, Option<i64>); 9] = [("{\"a\":1}", Some(1)), (" {\"a\":2}", Some(2)), ("{\"a\":3} ", Some(3)), ("\t{ \"a\" : 4 }\t", Some(4)), ("[5]", Some(5)), (" [6] ", Some(6)), ("x", None), ("", None), ("{\"a\":7", None)];

fn json_lines_case(seq: &[u8], eol: &str) -> Vec<Failure> {
    let jt = sut::make_tables("CREATE TABLE j({ .a } => a INT, { [0] } => z INT);").unwrap();
    let st = sut::parse("SELECT a, z FROM j").unwrap();
    let content: String = seq.iter().map(|i| format!("{}{}", JSON_UNITS[*i as usize].0, eol)).collect();
    let want: Vec<i64> = seq.iter().filter_map(|i| JSON_UNITS[*i as usize].1).collect();
    let r = sut::run_files(&jt, &st, &[content.as_bytes()], FileRunOpts { format: OutputFormat::Json, ..Default::default() });
    let got: Option<Vec<i64>> = match &r {
        Outcome::Ok(fr) if fr.result.is_ok() => Some(fr.printed.iter().filter(|l| !l.is_empty()).filter_map(|l| serde_json::from_str::<J>(l).ok()).map(|j| j["a"].as_i64().or(j["z"].as_i64()).unwrap_or(-1)).collect()),
        _ => None,
    };
    if got.as_ref() == Some(&want) {
        return vec![];
    }
    vec![fail(
        format!("lines:json-table:{}", if got.as_ref().map(|g| g.len() < want.len()).unwrap_or(false) { "lines-lost" } else { "lines-differ" }),
        format!("JSON table over {:?} ({}): rows {:?}, expected {:?}", seq.iter().map(|i| JSON_UNITS[*i as usize].0).collect::<Vec<_>>(), if eol == "\n" { "LF" } else { "CRLF" }, got, want),
        json!({"layer": "json-lines", "seq": seq, "eol": eol}),
        json!(want),
        json!(got),
        seq.len() as u64,
    )]
}

pub fn run(ctx: &Ctx) -> i32 {
    let col = Collector::new();
    let tables = sut::make_tables(DEF).unwrap();
    let maxlen = ctx.tier.pick(4, 7) as u32;
    let k = UNITS.len() as u64;
    let total = seq_count(k, maxlen);
    let (done, complete) = par_for_budget(ctx, total, 16, |idx| {
        let seq = seq_decode(idx, k, maxlen);
        let content = content_of(&seq);
        let max_parts = if content.len() <= 5 { 3 } else { 2 };
        for cuts in byte_cuts(content.len(), max_parts) {
            let (fs, nt, ok) = case_run(&tables, &content, &cuts);
            col.eval(3);
            if nt {
                col.nontrivial(h64(&(&content, &cuts)));
            }
            col.outcome(ok);
            if idx % 211 == 17 && cuts.len() == 2 && col.sample_count() < 8 {
                col.sample(json!({"content_hex": hex(&content), "content": String::from_utf8_lossy(&content), "cuts": cuts}));
            }
            for f in fs {
                col.fail(f);
            }
        }
    });
    col.layer("bytes x splits", done, complete, json!({"max_units": maxlen, "units": ["a", "b", "LF", "CR", "C3A9", "FF"], "max_files": 3}));
    // byte order marks: all contents of <= 5 units over {EF BB BF, a, LF, CR} x splits (a mark is three bytes of its line
    // like any others, at the start of a file, after a line end and inside a line, also cut by a file boundary)
    {
        let bunits: [&[u8]; 4] = [&[0xEF, 0xBB, 0xBF], b"a", b"\n", b"\r"];
        let kb = bunits.len() as u64;
        let total = seq_count(kb, 5);
        let (done, complete) = par_for_budget(ctx, total, 16, |idx| {
            let seq = seq_decode(idx, kb, 5);
            if !seq.contains(&0) {
                return;
            }
            let content: Vec<u8> = seq.iter().flat_map(|u| bunits[*u as usize].iter().copied()).collect();
            let max_parts = if content.len() <= 6 { 3 } else { 2 };
            for cuts in byte_cuts(content.len(), max_parts) {
                let (fs, nt, ok) = case_run(&tables, &content, &cuts);
                col.eval(3);
                if nt {
                    col.nontrivial(h64(&("bom", &content, &cuts)));
                }
                col.outcome(ok);
                for f in fs {
                    col.fail(f);
                }
            }
        });
        col.layer("byte order marks x splits", done, complete, json!({"max_units": 5, "units": ["EFBBBF", "a", "LF", "CR"]}));
    }
    // buffer-boundary layer: special sequences placed around multiples of the reader's buffer size (8192)
    let patterns: [&[u8]; 8] = [b"\r\n", b"a\r\nb\r\n", &[0xC3, 0xA9, b'\n'], &[0xF0, 0x9F, 0x98, 0x80, b'\n'], b"\n\n", b"a", b"a\r", b"ab\n"];
    let mut nb = 0u64;
    for m in [1usize, 2] {
        for d in -5i64..=2 {
            for (pi, pat) in patterns.iter().enumerate() {
                for filler_len in [7usize, 100] {
                    let target = (8192 * m) as i64 + d;
                    let mut content: Vec<u8> = Vec::new();
                    // filler lines of filler_len+1 bytes, last one adjusted so that the pattern starts exactly at `target`
                    while (content.len() + filler_len + 1) as i64 <= target - 2 {
                        content.extend(std::iter::repeat(b'x').take(filler_len));
                        content.push(b'\n');
                    }
                    let rest = (target - content.len() as i64) as usize;
                    if rest >= 1 {
                        content.extend(std::iter::repeat(b'y').take(rest - 1));
                        content.push(b'\n');
                    }
                    assert_eq!(content.len() as i64, target);
                    content.extend_from_slice(pat);
                    content.extend_from_slice(b"z\n");
                    let cut_sets: Vec<Vec<usize>> = vec![vec![content.len()], vec![target as usize + 1, content.len() - target as usize - 1]];
                    for cuts in cut_sets {
                        let (fs, nt, ok) = case_run(&tables, &content, &cuts);
                        col.eval(3);
                        nb += 1;
                        if nt {
                            col.nontrivial(h64(&("boundary", m, d, pi, filler_len, cuts.len())));
                        }
                        col.outcome(ok);
                        for f in fs {
                            col.fail(f);
                        }
                    }
                }
            }
        }
    }
    col.layer("buffer-boundary", nb, true, json!({"buffer": 8192, "multiples": [1, 2], "offsets": "-5..=2", "patterns": ["CRLF", "aCRLFbCRLF", "é LF", "😀 LF", "LF LF", "a (unterminated)", "a CR (unterminated)", "ab LF"]}));
    col.sample(json!({"layer": "buffer-boundary", "content": "1023 filler lines of 8 bytes, then CR LF starting at byte 8191, then z LF"}));
    // every line of the input reaches an OUTER JOIN whatever the joined file holds; a table with a DEFAULT column makes
    // every line a row (blank, non-matching and unterminated last lines included)
    {
        let jt = sut::make_tables("CREATE TABLE m(line = '^(.*)$', line[1] => k TEXT);\nCREATE TABLE u(line = '^(.*)$', line[1] => x TEXT);\nCREATE TABLE dd('k=([a-z]+)' => k TEXT DEFAULT 'none');").unwrap();
        let mains: [&[u8]; 4] = [b"a\nb\nc\n", b"a\n\nb", b"a", b"\n\n"];
        let joins: [&[u8]; 5] = [b"", b"zzz\n", b"\n", b"a\n", b"q\nr\ns"];
        let mut no = 0u64;
        for m in mains {
            let nlines = ref_lines(m).len();
            for j in joins {
                let tmp = sut::TempFiles::new(&[j]);
                for (what, text) in [("outer", format!("SELECT m.k FROM m OUTER JOIN u::'{}' ON m.k = u.x", tmp.paths[0])), ("outer-count", format!("SELECT COUNT(*) FROM m OUTER JOIN u::'{}' ON m.k = u.x", tmp.paths[0]))] {
                    no += 1;
                    col.eval(1);
                    col.nontrivial(h64(&("outer", m, j, what)));
                    let st = sut::parse(&text).unwrap();
                    let r = sut::run_files(&jt, &st, &[m], FileRunOpts { format: OutputFormat::Json, ..Default::default() });
                    let (got, total) = match &r {
                        Outcome::Ok(fr) if fr.result.is_ok() => {
                            let recs: Vec<&String> = fr.printed.iter().filter(|l| !l.is_empty()).collect();
                            (Some(if what == "outer" { recs.len() as i64 } else { recs.first().and_then(|l| serde_json::from_str::<J>(l).ok()).and_then(|v| v.as_object().and_then(|o| o.values().next().and_then(|x| x.as_i64()))).unwrap_or(0) }), fr.total_lines)
                        }
                        _ => (None, 0),
                    };
                    // every main line is a row (its pattern matches everything); partners can only add rows
                    // (an aggregate over an OUTER JOIN is not promised the partner-less rows - C05 - only that every line is read)
                    if (what == "outer" && got.map(|g| g < nlines as i64).unwrap_or(true)) || got.is_none() || total != nlines as u64 {
                        col.fail(fail(
                            format!("lines:outer-join:{}", what),
                            format!("`{}` over a main file of {} lines and the joined file {:?}: {:?} rows, {} lines consumed", text.replace(&tmp.paths[0], "<joined>"), nlines, String::from_utf8_lossy(j), got, total),
                            json!({"layer": "outer-join", "main_hex": hex(m), "joined_hex": hex(j)}),
                            json!(nlines),
                            sut::outcome_json(&r, |f| f.to_json()),
                            no,
                        ));
                    }
                }
            }
            no += 1;
            col.eval(1);
            let st = sut::parse("SELECT COUNT(*) FROM dd").unwrap();
            let r = sut::run_files(&jt, &st, &[m], FileRunOpts { format: OutputFormat::Json, ..Default::default() });
            let cnt = match &r {
                Outcome::Ok(fr) if fr.result.is_ok() => fr.printed.iter().filter(|l| !l.is_empty()).next().and_then(|l| serde_json::from_str::<J>(l).ok()).and_then(|v| v.as_object().and_then(|o| o.values().next().and_then(|x| x.as_i64()))),
                _ => None,
            };
            if cnt != Some(nlines as i64) && !(nlines == 0 && cnt.is_none()) {
                col.fail(fail("lines:default-table:count".into(), format!("a table with a DEFAULT column counts {:?} rows over a file of {} lines", cnt, nlines), json!({"layer": "outer-join", "main_hex": hex(m), "default_table": true}), json!(nlines), sut::outcome_json(&r, |f| f.to_json()), no));
            }
        }
        col.layer("OUTER JOIN against empty / non-matching joined files; DEFAULT table", no, true, json!({"main_files": 4, "joined_files": 5}));
    }
    // JSON tables: every line that is a JSON document (with blanks around it, with an array at the root) reaches the
    // query; all sequences up to 3 lines x {LF, CRLF}
    {
        let ku = JSON_UNITS.len() as u64;
        let mut nj = 0u64;
        for idx in 0..seq_count(ku, 3) {
            let seq = seq_decode(idx, ku, 3);
            for eol in ["\n", "\r\n"] {
                nj += 1;
                col.eval(1);
                if seq.iter().filter(|i| JSON_UNITS[**i as usize].1.is_some()).count() >= 2 {
                    col.nontrivial(h64(&("json-lines", &seq, eol)));
                }
                for f in json_lines_case(&seq, eol) {
                    col.fail(f);
                }
            }
        }
        col.layer("JSON documents with blanks around them / array roots", nj, true, json!({"units": JSON_UNITS.iter().map(|u| u.0).collect::<Vec<_>>(), "max_lines": 3}));
    }
    // the command line program: several input files in command-line order, `FROM t::'file'`, a definition file with two tables
    {
        let dir = sut::tmp_dir();
        let defp = format!("{}/c12_def_{}.txt", dir, std::process::id());
        std::fs::write(&defp, "CREATE TABLE other('(zzz)' => z TEXT);\nCREATE TABLE t(line = '(?s)^(.*)$', line[1] => x TEXT);").unwrap();
        let contents: [&[u8]; 5] = [b"a\nb\n", b"c", b"", b"d\r\ne\n", "é\n\nf".as_bytes()];
        let mut ncli = 0u64;
        let mut cli_missing = false;
        for mask in 1u32..32 {
            let chosen: Vec<usize> = (0..5).filter(|i| mask & (1 << i) != 0).collect();
            for rev in [false, true] {
                let order: Vec<usize> = if rev { chosen.iter().rev().cloned().collect() } else { chosen.clone() };
                // the files are created in index order (ascending names), then named on the command line in `order`:
                // the reversed order is also the descending name order; the first file is additionally named twice
                let created = sut::TempFiles::new(&chosen.iter().map(|i| contents[*i]).collect::<Vec<_>>());
                let path_of = |i: usize| -> &str { &created.paths[chosen.iter().position(|c| *c == i).unwrap()] };
                let mut order = order.clone();
                if rev {
                    order.push(order[0]);
                }
                let mut args: Vec<&str> = vec!["-d", &defp];
                for i in &order {
                    args.push(path_of(*i));
                }
                let tmp = sut::TempFiles { paths: order.iter().map(|i| path_of(*i).to_string()).collect() };
                args.extend(["--format", "json", "-c", "SELECT input FROM t"]);
                let got = match sut::run_cli(&args) {
                    Some(g) => g,
                    None => {
                        cli_missing = true;
                        break;
                    }
                };
                let mut exp: Vec<String> = Vec::new();
                for i in &order {
                    for l in ref_lines(contents[*i]) {
                        let mut l = l.clone();
                        if l.last() == Some(&0u8) {
                            l.pop();
                        }
                        exp.push(String::from_utf8_lossy(&l).to_string());
                    }
                }
                let out: Vec<String> = got.0.iter().filter(|l| !l.is_empty()).map(|l| serde_json::from_str::<J>(l).ok().and_then(|j| j["input"].as_str().map(|s| s.to_string())).unwrap_or_else(|| format!("<{}>", l))).collect();
                ncli += 1;
                col.eval(1);
                if order.len() >= 2 {
                    col.nontrivial(h64(&("cli", mask, rev)));
                }
                if out != exp || !got.2 {
                    col.fail(fail(
                        format!("lines:cli:{}", if out.len() != exp.len() { "line-count" } else { "order-or-content" }),
                        format!("sqlgrep with input files {:?} (contents {:?}) printed {:?}, expected {:?}", order, order.iter().map(|i| String::from_utf8_lossy(contents[*i]).to_string()).collect::<Vec<_>>(), out, exp),
                        json!({"layer": "cli", "mask": mask, "reversed": rev}),
                        json!(exp),
                        json!({"stdout": out, "stderr": got.1.lines().take(3).collect::<Vec<_>>()}),
                        order.len() as u64,
                    ));
                }
                // FROM t::'file' uses that file instead of the command line ones
                if order.len() == 2 {
                    let q = format!("SELECT input FROM t::'{}'", tmp.paths[1]);
                    let a2: Vec<&str> = vec!["-d", &defp, &tmp.paths[0], "--format", "json", "-c", &q];
                    if let Some(g2) = sut::run_cli(&a2) {
                        let out2: Vec<String> = g2.0.iter().filter(|l| !l.is_empty()).map(|l| serde_json::from_str::<J>(l).ok().and_then(|j| j["input"].as_str().map(|s| s.to_string())).unwrap_or_default()).collect();
                        let exp2: Vec<String> = ref_lines(contents[order[1]]).iter().map(|l| { let mut l = l.clone(); if l.last() == Some(&0u8) { l.pop(); } String::from_utf8_lossy(&l).to_string() }).collect();
                        ncli += 1;
                        col.eval(1);
                        if out2 != exp2 {
                            col.fail(fail("lines:cli:from-file".into(), format!("FROM t::'file' printed {:?}, expected the lines of that file {:?}", out2, exp2), json!({"layer": "cli", "mask": mask, "reversed": rev, "from_file": true}), json!(exp2), json!(out2), 2));
                        }
                    }
                }
            }
            if cli_missing {
                break;
            }
        }
        // --stdin: the input arrives on a pipe
        if !cli_missing {
            for c in contents.iter().chain([&b"a\nb\nc\r\n\nd"[..]].iter()) {
                let args: Vec<&str> = vec!["-d", &defp, "--stdin", "--format", "json", "-c", "SELECT input FROM t"];
                if let Some(got) = sut::run_cli_stdin(&args, c) {
                    let exp: Vec<String> = ref_lines(c).iter().map(|l| { let mut l = l.clone(); if l.last() == Some(&0u8) { l.pop(); } String::from_utf8_lossy(&l).to_string() }).collect();
                    let out: Vec<String> = got.0.iter().filter(|l| !l.is_empty()).map(|l| serde_json::from_str::<J>(l).ok().and_then(|j| j["input"].as_str().map(|s| s.to_string())).unwrap_or_else(|| format!("<{}>", l))).collect();
                    ncli += 1;
                    col.eval(1);
                    col.nontrivial(h64(&("cli-stdin", c)));
                    if out != exp {
                        col.fail(fail("lines:cli:stdin".into(), format!("sqlgrep --stdin fed {:?} printed {:?}, expected {:?}", String::from_utf8_lossy(c), out, exp), json!({"layer": "cli", "stdin": hex(c)}), json!(exp), json!({"stdout": out, "stderr": got.1.lines().take(3).collect::<Vec<_>>()}), 1));
                    }
                }
            }
            // an input file that is not a regular file: the pipe named as /dev/stdin, alone and after a regular file
            {
                let reg = sut::TempFiles::new(&[&b"r1\nr2\n"[..]]);
                for c in contents.iter().chain([&b"a\nb\nc\r\n\nd"[..]].iter()) {
                    for with_reg in [false, true] {
                        let mut args: Vec<&str> = vec!["-d", &defp];
                        if with_reg {
                            args.push(&reg.paths[0]);
                        }
                        args.extend(["/dev/stdin", "--format", "json", "-c", "SELECT input FROM t"]);
                        if let Some(got) = sut::run_cli_stdin(&args, c) {
                            let mut exp: Vec<String> = if with_reg { vec!["r1".into(), "r2".into()] } else { vec![] };
                            exp.extend(ref_lines(c).iter().map(|l| { let mut l = l.clone(); if l.last() == Some(&0u8) { l.pop(); } String::from_utf8_lossy(&l).to_string() }));
                            let out: Vec<String> = got.0.iter().filter(|l| !l.is_empty()).map(|l| serde_json::from_str::<J>(l).ok().and_then(|j| j["input"].as_str().map(|s| s.to_string())).unwrap_or_else(|| format!("<{}>", l))).collect();
                            ncli += 1;
                            col.eval(1);
                            col.nontrivial(h64(&("cli-dev-stdin", c, with_reg)));
                            if out != exp {
                                col.fail(fail("lines:cli:pipe-named-as-file".into(), format!("sqlgrep with input file /dev/stdin (a pipe fed {:?}){} printed {:?}, expected {:?}", String::from_utf8_lossy(c), if with_reg { " after a regular file [r1 r2]" } else { "" }, out, exp), json!({"layer": "cli", "stdin": hex(c), "dev_stdin": true, "with_regular_file": with_reg}), json!(exp), json!({"stdout": out, "stderr": got.1.lines().take(3).collect::<Vec<_>>()}), 1));
                            }
                        }
                    }
                }
            }
            // sessions: all sequences (<= 3) of statements typed into one running program over two input files; every
            // statement reads every line of every file again, whatever happened before
            let tmp = sut::TempFiles::new(&[&b"a\nb\n"[..], &b"c\nd"[..]]);
            let menu = ["SELECT input FROM t;", "SELECT nosuch FROM t;", "SELEC;", "SELECT COUNT(*) FROM t;", "SELECT input FROM t WHERE input = 'c';"];
            let km = menu.len() as u64;
            for idx in 0..seq_count(km, 3) {
                let seq = seq_decode(idx, km, 3);
                if seq.is_empty() {
                    continue;
                }
                let script: String = seq.iter().map(|i| format!("{}\n", menu[*i as usize])).collect();
                let args: Vec<&str> = vec!["-d", &defp, &tmp.paths[0], &tmp.paths[1], "--format", "json"];
                let got = match sut::run_cli_stdin(&args, script.as_bytes()) {
                    Some(g) => g,
                    None => break,
                };
                let mut exp: Vec<String> = Vec::new();
                for i in &seq {
                    match *i {
                        0 => exp.extend(["in:a", "in:b", "in:c", "in:d"].iter().map(|s| s.to_string())),
                        3 => exp.push("n:4".into()),
                        4 => exp.push("in:c".into()),
                        _ => {}
                    }
                }
                let mut out: Vec<String> = Vec::new();
                for l in &got.0 {
                    let l = l.trim_start_matches("> ").trim();
                    if let Ok(j) = serde_json::from_str::<J>(l) {
                        if let Some(o) = j.as_object() {
                            if let Some(s) = o.get("input").and_then(|v| v.as_str()) {
                                out.push(format!("in:{}", s));
                            } else if let Some(n) = o.values().next().and_then(|v| v.as_i64()) {
                                out.push(format!("n:{}", n));
                            }
                        }
                    }
                }
                ncli += 1;
                col.eval(1);
                if seq.len() >= 2 {
                    col.nontrivial(h64(&("cli-session", &seq)));
                }
                if out != exp {
                    col.fail(fail(
                        format!("lines:cli:session:{}", if seq.iter().any(|i| *i == 1 || *i == 2) { "after-failed-statement" } else { "plain" }),
                        format!("session {:?} over files [a b | c d] printed {:?}, expected {:?}", seq.iter().map(|i| menu[*i as usize]).collect::<Vec<_>>(), out, exp),
                        json!({"layer": "cli", "session": seq}),
                        json!(exp),
                        json!({"stdout": got.0, "stderr": got.1.lines().take(3).collect::<Vec<_>>()}),
                        seq.len() as u64,
                    ));
                }
            }
        }
        std::fs::remove_file(&defp).ok();
        if cli_missing {
            col.note("CLI binary not built: CLI layer skipped".into());
        } else {
            col.layer("command line program: file subsets in both orders", ncli, true, json!({"files": 5, "stdin_contents": 6, "session_menu": 5, "session_max_len": 3}));
        }
    }
    finish(
        ctx,
        &col,
        Finish {
            level: "exploration",
            rule: "all byte strings up to the unit bound over {a,b,LF,CR,é,FF} x every split into 1..3 files at every byte position (empty files included) x {SELECT input, COUNT(*), joined side}; reference line splitter (LF terminates, CRLF is a line end, final unterminated piece is a line); non-trivial: >=2 lines and (>=2 files, or unterminated last line, or a CR, or an invalid byte)".into(),
            exhaustive: true,
            assumptions: vec!["whether a lone trailing CR belongs to a line is left open (compared modulo one trailing CR)".into()],
            bounds: json!({"max_units": maxlen}),
        },
    )
}

pub fn replay(case: &J) -> Vec<Failure> {
    if case["layer"].as_str() == Some("outer-join") {
        println!("note: outer-join cases are replayed by re-running `./check C12 quick`");
        return vec![];
    }
    if case["layer"].as_str() == Some("json-lines") {
        let seq: Vec<u8> = case["seq"].as_array().unwrap().iter().map(|x| x.as_u64().unwrap() as u8).collect();
        return json_lines_case(&seq, case["eol"].as_str().unwrap());
    }
    if case["layer"].as_str() == Some("cli") {
        println!("note: command-line cases are replayed by re-running `./check C12 quick` (file subset mask {}, reversed {})", case["mask"], case["reversed"]);
        return vec![];
    }
    let tables = sut::make_tables(DEF).unwrap();
    let content = unhex(case["content_hex"].as_str().unwrap());
    let cuts: Vec<usize> = case["cuts"].as_array().unwrap().iter().map(|x| x.as_u64().unwrap() as usize).collect();
    let want = case.get("statement").and_then(|s| s.as_str()).map(|s| s.to_string());
    case_run(&tables, &content, &cuts).0.into_iter().filter(|f| want.is_none() || f.case.get("statement").and_then(|s| s.as_str()).map(|s| s.to_string()) == want).collect()
}
