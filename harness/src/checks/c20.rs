//! C20 — a statement's meaning does not depend on layout, letter case or clause order.
//!
//! For every corpus statement: every case-insensitive word flipped (upper / lower / alternating; one at a time and all at
//! once), every token boundary re-rendered with each separator (two blanks, TAB, LF, CRLF, nothing where tokens stay
//! separate), a `--` comment inserted at every boundary (and at the very end without LF), trailing semicolon toggled, and
//! all permutations of the JOIN / WHERE / GROUP BY / HAVING / LIMIT clauses. Oracle: Debug(parse(original)) ==
//! Debug(parse(variant)) within the same build. String literals: contents checked against a reference un-escaper.

use serde_json::{json, Value as J};

use sqlgrep::model::{ExpressionTree, Statement, Value};

use crate::checks::fail;
use crate::core::*;
use crate::gen::*;
use crate::sut;

const CI_WORDS: [&str; 78] = [
    "select", "from", "where", "group", "by", "as", "and", "or", "create", "table", "not", "is", "in", "having", "inner", "outer", "join", "on", "extract", "default", "distinct", "case", "when", "then", "else", "end", "limit", "null", "true", "false",
    "count", "min", "max", "sum", "avg", "stddev", "variance", "percentile", "bool_and", "bool_or", "array_agg", "string_agg",
    "least", "greatest", "abs", "sqrt", "pow", "length", "upper", "lower", "regexp_matches", "array_unique", "array_length", "array_cat", "array_append", "array_prepend", "now", "make_timestamp", "date_trunc", "array",
    "text", "int", "real", "boolean", "timestamp", "interval", "trim", "convert", "microseconds",
    "year", "month", "day", "hour", "minute", "second", "epoch", "create_array", "timestamp_extract_year",
];

fn is_ci(tok: &str) -> bool {
    CI_WORDS.contains(&tok.to_lowercase().as_str())
}

fn alternating(s: &str) -> String {
    s.chars().enumerate().map(|(i, c)| if i % 2 == 0 { c.to_ascii_uppercase() } else { c.to_ascii_lowercase() }).collect()
}

fn parse_dbg(text: &str) -> Result<Result<String, String>, PanicRec> {
    catch(|| sqlgrep::parsing::parse(text).map(|s| format!("{:?}", s)).map_err(|e| format!("{}", e)))
}

fn is_punct(t: &str) -> bool {
    matches!(t, "(" | ")" | "[" | "]" | "{" | "}" | "," | ";")
}

fn is_operator(t: &str) -> bool {
    matches!(t, "+" | "-" | "*" | "/" | "=" | "<" | ">" | "<=" | ">=" | "!=" | "." | "::")
}

/// may the blank between tokens a and b be dropped without the two running into one (other) token?
fn glue_safe(a: &str, b: &str) -> bool {
    if is_punct(a) || is_punct(b) {
        return true;
    }
    let word = |t: &str| t.chars().next().map(|c| c.is_alphabetic() || c == '_').unwrap_or(false) || t.starts_with('\'');
    let number = |t: &str| t.chars().next().map(|c| c.is_ascii_digit()).unwrap_or(false);
    match (is_operator(a), is_operator(b)) {
        (true, false) => word(b) || (number(b) && a != "."),
        (false, true) => word(a) || (number(a) && b != "."),
        // a number directly followed by a keyword / name stays two tokens (`1ELSE`, `0END`, `10OR`): the digits end the number
        (false, false) => number(a) && a.chars().all(|c| c.is_ascii_digit()) && b.chars().next().map(|c| c.is_ascii_alphabetic()).unwrap_or(false),
        _ => false,
    }
}

/// clause segments of a SELECT statement: (head tokens, clauses, tail tokens)
fn clauses(toks: &[String]) -> Option<(Vec<String>, Vec<Vec<String>>, Vec<String>)> {
    if toks.first().map(|t| t.to_lowercase()) != Some("select".into()) {
        return None;
    }
    let mut depth = 0i32;
    let mut from_seen = false;
    let mut starts = Vec::new();
    let mut end = toks.len();
    for (i, t) in toks.iter().enumerate() {
        match t.as_str() {
            "(" | "[" => depth += 1,
            ")" | "]" => depth -= 1,
            _ => {}
        }
        let l = t.to_lowercase();
        if depth == 0 {
            if l == "from" && !from_seen {
                from_seen = true;
            } else if from_seen && matches!(l.as_str(), "where" | "inner" | "outer" | "group" | "having" | "limit") {
                starts.push(i);
            } else if t == ";" {
                end = i;
            }
        }
    }
    if starts.len() < 2 {
        return None;
    }
    let head = toks[..starts[0]].to_vec();
    let mut cl = Vec::new();
    for (n, s) in starts.iter().enumerate() {
        let e = if n + 1 < starts.len() { starts[n + 1] } else { end };
        cl.push(toks[*s..e].to_vec());
    }
    Some((head, cl, toks[end..].to_vec()))
}

fn variants(stmt: &str) -> Vec<(String, String)> {
    let toks = corpus_tokens(stmt);
    let mut out: Vec<(String, String)> = Vec::new();
    let join = |t: &[String]| t.join(" ");
    // 1. case flips
    let ci_idx: Vec<usize> = toks.iter().enumerate().filter(|(_, t)| is_ci(t)).map(|(i, _)| i).collect();
    for &i in &ci_idx {
        for (name, f) in [("upper", &(|s: &str| s.to_uppercase()) as &dyn Fn(&str) -> String), ("lower", &|s: &str| s.to_lowercase()), ("alternating", &|s: &str| alternating(s))] {
            let mut v = toks.clone();
            v[i] = f(&toks[i]);
            if v[i] != toks[i] {
                out.push((format!("case-{}:{}", name, toks[i].to_lowercase()), join(&v)));
            }
        }
    }
    for (name, f) in [("upper", &(|s: &str| s.to_uppercase()) as &dyn Fn(&str) -> String), ("lower", &|s: &str| s.to_lowercase()), ("alternating", &|s: &str| alternating(s))] {
        let v: Vec<String> = toks.iter().map(|t| if is_ci(t) { f(t) } else { t.clone() }).collect();
        out.push((format!("case-all-{}", name), join(&v)));
    }
    // 2. separators and 3. comments at every boundary
    for i in 0..toks.len().saturating_sub(1) {
        let left = join(&toks[..=i]);
        let right = join(&toks[i + 1..]);
        for (name, sep) in [("two-blanks", "  "), ("tab", "\t"), ("lf", "\n"), ("crlf", "\r\n"), ("blank-lf-blank", " \n "), ("vertical-tab", "\u{b}"), ("form-feed", "\u{c}"), ("no-break-space", "\u{a0}"), ("line-separator", "\u{2028}"), ("ideographic-space", "\u{3000}")] {
            out.push((format!("separator-{}", name), format!("{}{}{}", left, sep, right)));
        }
        if is_punct(&toks[i]) || is_punct(&toks[i + 1]) {
            out.push(("separator-none".into(), format!("{}{}", left, right)));
        }
        out.push(("comment-empty".into(), format!("{} --\n{}", left, right)));
        out.push(("comment-empty-crlf".into(), format!("{} --\r\n{}", left, right)));
        let after = if toks[i] == "-" { "comment-after-minus" } else { "comment" };
        out.push((after.into(), format!("{} -- c\n{}", left, right)));
        out.push((format!("{}-adjacent", after), format!("{}-- SELECT 'x' ; (\n{}", if is_punct(&toks[i]) || toks[i].ends_with('\'') { left.clone() } else { format!("{} ", left) }, right)));
    }
    // operators written without blanks: one boundary at a time, both sides of one operator, and everywhere at once
    for i in 0..toks.len().saturating_sub(1) {
        if (is_operator(&toks[i]) || is_operator(&toks[i + 1])) && glue_safe(&toks[i], &toks[i + 1]) {
            out.push(("separator-none-operator".into(), format!("{}{}", join(&toks[..=i]), join(&toks[i + 1..]))));
        }
        if i > 0 && is_operator(&toks[i]) && glue_safe(&toks[i - 1], &toks[i]) && glue_safe(&toks[i], &toks[i + 1]) {
            out.push(("separator-none-around-operator".into(), format!("{}{}{}", join(&toks[..i]), toks[i], join(&toks[i + 1..]))));
        }
    }
    {
        let mut dense = String::new();
        for (i, t) in toks.iter().enumerate() {
            if i > 0 && !glue_safe(&toks[i - 1], t) {
                dense.push(' ');
            }
            dense.push_str(t);
        }
        out.push(("separator-none-everywhere".into(), dense));
    }
    out.push(("comment-at-end".into(), format!("{} -- trailing comment", join(&toks))));
    out.push(("comment-at-end-empty".into(), format!("{} --", join(&toks))));
    out.push(("comment-at-end-lf".into(), format!("{} -- trailing comment\n", join(&toks))));
    out.push(("comment-at-start".into(), format!("-- leading comment\n{}", join(&toks))));
    out.push(("leading-whitespace".into(), format!(" \n\t{}", join(&toks))));
    out.push(("trailing-whitespace".into(), format!("{} \n\t", join(&toks))));
    // 4. trailing semicolon (SELECT only; CREATE TABLE requires it)
    if toks[0].to_lowercase() == "select" {
        if toks.last().map(|t| t.as_str()) == Some(";") {
            out.push(("semicolon-removed".into(), join(&toks[..toks.len() - 1])));
        } else {
            out.push(("semicolon-added".into(), format!("{} ;", join(&toks))));
            out.push(("semicolon-added-adjacent".into(), format!("{};", join(&toks))));
        }
    }
    // 5. clause permutations
    if let Some((head, cl, tail)) = clauses(&toks) {
        for perm in permutations(cl.len()) {
            if perm.iter().enumerate().all(|(i, p)| i == *p) {
                continue;
            }
            let mut v = head.clone();
            for p in &perm {
                v.extend(cl[*p].iter().cloned());
            }
            v.extend(tail.iter().cloned());
            out.push(("clause-order".into(), join(&v)));
        }
    }
    out
}

fn judge_variant(original: &str, kind: &str, variant: &str, rank: u64) -> Vec<Failure> {
    let case = json!({"layer": "variant", "original": original, "kind": kind, "variant": variant});
    let a = parse_dbg(original);
    let v = parse_dbg(variant);
    match (a, v) {
        (Ok(Ok(x)), Ok(Ok(y))) => {
            if x != y {
                vec![fail(format!("layout:{}:parses-differently", kind.split(':').next().unwrap()), format!("variant ({}) parses to a different statement: {:?}", kind, variant), case, json!(x), json!(y), rank)]
            } else {
                vec![]
            }
        }
        (Ok(Ok(_)), Ok(Err(e))) => vec![fail(format!("layout:{}:rejected:{}", kind, msg_class(&e).split('\'').next().unwrap_or("").trim()), format!("variant ({}) is rejected: {} -- {:?}", kind, e, variant), case, json!("same statement"), json!(e), rank)],
        (Ok(Err(e)), _) => vec![fail("corpus-statement-does-not-parse".into(), format!("corpus statement does not parse: {} ({})", original, e), case, json!("parses"), json!(e), 0)],
        (Err(p), _) | (_, Err(p)) => vec![fail(panic_signature(&p), format!("parser panicked on {:?}", variant), case, json!("no panic"), json!(p.msg), rank)],
    }
}

/// string literal contents and the reference un-escaper
fn literal_bodies() -> Vec<&'static str> {
    vec!["--", "a -- b", "SELECT", "select", "MiXeD", "a  b", "  lead", "trail  ", "it\\'s", "back\\\\slash", "\\\\", "\\'", "a;b", "(", "x\ny", "tab\there", "é€😀", "NULL", "", "'||'".trim_matches('\''), "/* c */", "a\\\\\\'b"]
}

fn unescape(body: &str) -> Option<String> {
    let mut out = String::new();
    let mut it = body.chars();
    while let Some(c) = it.next() {
        if c == '\\' {
            match it.next() {
                Some('\\') => out.push('\\'),
                Some('\'') => out.push('\''),
                _ => return None, // other escapes are not fixed by the property
            }
        } else if c == '\'' {
            return None;
        } else {
            out.push(c);
        }
    }
    Some(out)
}

fn judge_literal(body: &str, ctxn: usize) -> Vec<Failure> {
    let expected = match unescape(body) {
        Some(e) => e,
        None => return vec![],
    };
    let (text, what) = match ctxn {
        0 => (format!("SELECT '{}' AS x FROM t", body), "select-literal"),
        1 => (format!("SELECT k FROM t::'{}'", body), "filename"),
        2 => (format!("SELECT STRING_AGG(s, '{}') FROM t", body), "delimiter"),
        3 => (if body.contains('\n') { format!("SELECT k FROM t WHERE s = '{}'", body) } else { format!("SELECT k FROM t WHERE s = '{}' -- '{}'\n", body, body) }, "where-literal"),
        _ => (format!("CREATE TABLE t(line = '{}', line[0] => x TEXT);", body), "pattern"),
    };
    let case = json!({"layer": "literal", "body": body, "context": ctxn, "text": text});
    let r = catch(|| sqlgrep::parsing::parse(&text));
    let got: Option<String> = match &r {
        Ok(Ok(Statement::Select(s))) => match ctxn {
            0 => match &s.projections[0].1 {
                ExpressionTree::Value(Value::String(x)) => Some(x.clone()),
                _ => None,
            },
            1 => s.filename.clone(),
            3 => match &s.filter {
                Some(ExpressionTree::Compare { right, .. }) => match &**right {
                    ExpressionTree::Value(Value::String(x)) => Some(x.clone()),
                    _ => None,
                },
                _ => None,
            },
            _ => None,
        },
        Ok(Ok(Statement::Aggregate(a))) => match &a.aggregates[0].aggregate {
            sqlgrep::model::Aggregate::CollectString(_, d) => Some(d.clone()),
            _ => None,
        },
        Ok(Ok(Statement::CreateTable(t))) => t.patterns.get(0).map(|p| p.1.as_str().to_string()),
        Ok(Err(_)) if ctxn == 4 && regex::Regex::new(&expected).is_err() => return vec![], // not a valid regex: rejection is correct
        _ => None,
    };
    if got.as_deref() != Some(expected.as_str()) {
        let detail = match &r {
            Ok(Ok(_)) => format!("{:?}", got),
            Ok(Err(e)) => format!("rejected: {}", e),
            Err(p) => format!("panic: {}", p.msg),
        };
        return vec![fail(format!("string-literal:{}:{}", what, if body.contains("--") { "contains-comment-marker" } else if body.contains('\\') { "escape" } else { "plain" }), format!("string literal '{}' in {} context: expected content {:?}, got {}", body, what, expected, detail), case, json!(expected), json!(detail), body.len() as u64)];
    }
    vec![]
}

/// two-site variants: a case flip at one token combined with a separator / comment change at one boundary
fn variants2(stmt: &str) -> Vec<(String, String)> {
    let toks = corpus_tokens(stmt);
    let mut out = Vec::new();
    let ci_idx: Vec<usize> = toks.iter().enumerate().filter(|(_, t)| is_ci(t)).map(|(i, _)| i).collect();
    for &i in &ci_idx {
        let flipped = if toks[i].chars().any(|c| c.is_lowercase()) { toks[i].to_uppercase() } else { toks[i].to_lowercase() };
        for bnd in 0..toks.len().saturating_sub(1) {
            for (name, sep) in [("lf", "\n"), ("comment", " -- x\n"), ("tab", "\t")] {
                let mut v = toks.clone();
                v[i] = flipped.clone();
                let text = format!("{}{}{}", v[..=bnd].join(" "), sep, v[bnd + 1..].join(" "));
                out.push((format!("two-site:case+{}", name), text));
            }
        }
    }
    out
}

pub fn run(ctx: &Ctx) -> i32 {
    let col = Collector::new();
    let corpus = statement_corpus();
    let mut all: Vec<(usize, String, String)> = Vec::new();
    for (i, s) in corpus.iter().enumerate() {
        for (k, v) in variants(s) {
            all.push((i, k, v));
        }
        if ctx.tier == Tier::Thorough {
            for (k, v) in variants2(s) {
                all.push((i, k, v));
            }
        }
    }
    let total = all.len() as u64;
    let (done, complete) = par_for_budget(ctx, total, 64, |idx| {
        let (si, kind, variant) = &all[idx as usize];
        let fs = judge_variant(corpus[*si], kind, variant, idx);
        col.eval(2);
        // non-trivial: differs from the single-blank rendering in at least one byte outside string literals
        if variant.as_str() != corpus_tokens(corpus[*si]).join(" ") {
            col.nontrivial(h64(variant));
        }
        col.outcome(h64(&(kind.split(':').next().unwrap_or(""), fs.len())));
        if idx % 2503 == 1 {
            col.sample(json!({"original": corpus[*si], "kind": kind, "variant": variant}));
        }
        for f in fs {
            col.fail(f);
        }
    });
    col.layer("layout variants", done, complete, json!({"corpus": corpus.len(), "variants": total}));
    // the command line program: `-c <text>` and `--command-file` take the same texts; a variant must print what the original prints
    {
        let dir = sut::tmp_dir();
        let defp = format!("{}/c20_def_{}.txt", dir, std::process::id());
        let cmdp = format!("{}/c20_cmd_{}.txt", dir, std::process::id());
        std::fs::write(&defp, format!("{}\n{}", JDEF, JDEF_U)).unwrap();
        let data = sut::TempFiles::new(&[format!("{}\n", jlines().join("\n")).as_bytes()]);
        let mut ncli = 0u64;
        let mut missing = false;
        let wanted = ["comment", "comment-adjacent", "comment-at-end", "comment-at-end-empty", "comment-at-end-lf", "comment-at-start", "semicolon-added", "semicolon-added-adjacent", "semicolon-removed", "separator-lf", "separator-crlf", "separator-none-everywhere", "case-all-upper", "case-all-lower", "trailing-whitespace"];
        'outer: for s in corpus.iter() {
            if !s.starts_with("SELECT") || s.contains("::") || s.contains("now (") {
                continue;
            }
            let original = corpus_tokens(s).join(" ");
            let base = match sut::run_cli(&["-d", &defp, &data.paths[0], "--format", "json", "-c", &original]) {
                Some(b) => b,
                None => {
                    missing = true;
                    break;
                }
            };
            let vs = variants(s);
            for kind in wanted {
                // the first and the last variant of that kind
                let of_kind: Vec<&(String, String)> = vs.iter().filter(|(k, _)| k == kind).collect();
                let mut picks: Vec<&(String, String)> = Vec::new();
                if let Some(f) = of_kind.first() {
                    picks.push(f);
                }
                if of_kind.len() > 1 {
                    picks.push(of_kind[of_kind.len() - 1]);
                }
                for (k, v) in picks {
                    for via_file in [false, true] {
                        // a value that begins with a dash is taken for an option by the argument parser: only through the file
                        if !via_file && v.starts_with('-') {
                            continue;
                        }
                        let got = if via_file {
                            std::fs::write(&cmdp, v).unwrap();
                            sut::run_cli(&["-d", &defp, &data.paths[0], "--format", "json", "--command-file", &cmdp])
                        } else {
                            sut::run_cli(&["-d", &defp, &data.paths[0], "--format", "json", "-c", v])
                        };
                        let got = match got {
                            Some(g) => g,
                            None => break 'outer,
                        };
                        ncli += 1;
                        col.eval(1);
                        col.nontrivial(h64(&("cli", v, via_file)));
                        if got.0 != base.0 {
                            col.fail(fail(
                                format!("layout:cli:{}:{}", k, if via_file { "command-file" } else { "command" }),
                                format!("sqlgrep {} {:?} prints {:?}; the original {:?} prints {:?}", if via_file { "--command-file with" } else { "-c" }, v, got.0.iter().take(4).collect::<Vec<_>>(), original, base.0.iter().take(4).collect::<Vec<_>>()),
                                json!({"layer": "cli", "original": s, "kind": k, "variant": v, "via_file": via_file}),
                                json!(base.0),
                                json!(got.0),
                                v.len() as u64,
                            ));
                        }
                    }
                }
            }
        }
        std::fs::remove_file(&defp).ok();
        std::fs::remove_file(&cmdp).ok();
        if missing {
            col.note("CLI binary not built: command-line layer skipped".into());
        } else {
            col.layer("command line program (-c / --command-file)", ncli, true, json!({"variant_kinds": wanted}));
        }
    }
    // a statement means the same whatever was (mis)typed before it: in one thread every corpus statement is parsed right
    // after each of a list of rejected texts and must lower to what it lowers to on a fresh thread
    {
        let bad = ["SELECT 1.2.3 FROM t", "SELECT 99999999999999999999 FROM t", "SELECT 'abc", "SELECT 1e FROM t", "SELECT x FROM t WHERE (", "CREATE TABLE t(line = '(', line[1] => a INT);", "SELECT CASE WHEN x THEN 1 FROM t", "SELECT x -- c", "SELEC", "SELECT a[ FROM t", "SELECT x FROM t LIMIT 1.5", "SELECT 0.5.5, 'q' FROM t"];
        let corpus2: Vec<String> = corpus.iter().map(|s| corpus_tokens(s).join(" ")).collect();
        let fresh: Vec<Option<String>> = std::thread::scope(|s| s.spawn(|| corpus2.iter().map(|t| parse_dbg(t).ok().and_then(|r| r.ok())).collect()).join().unwrap());
        let after: Vec<Vec<Option<String>>> = std::thread::scope(|s| {
            s.spawn(|| {
                corpus2
                    .iter()
                    .map(|t| {
                        bad.iter()
                            .map(|b| {
                                let _ = parse_dbg(b);
                                parse_dbg(t).ok().and_then(|r| r.ok())
                            })
                            .collect()
                    })
                    .collect()
            })
            .join()
            .unwrap()
        });
        let mut nb = 0u64;
        for (i, t) in corpus2.iter().enumerate() {
            for (j, b) in bad.iter().enumerate() {
                nb += 1;
                col.eval(1);
                col.nontrivial(h64(&("after-bad", i, j)));
                if after[i][j] != fresh[i] {
                    col.fail(fail(
                        "layout:after-a-rejected-text".into(),
                        format!("{:?} parsed right after the rejected text {:?} on the same thread lowers to {:?}, on a fresh thread to {:?}", t, b, after[i][j].as_ref().map(|s| s.chars().take(80).collect::<String>()), fresh[i].as_ref().map(|s| s.chars().take(80).collect::<String>())),
                        json!({"layer": "after-bad", "original": t, "rejected_before": b}),
                        json!(fresh[i]),
                        json!(after[i][j]),
                        (i * 100 + j) as u64,
                    ));
                }
            }
        }
        col.layer("statements parsed after rejected texts on one thread", nb, true, json!({"rejected_texts": bad}));
    }
    let mut nl = 0;
    for body in literal_bodies() {
        for c in 0..5 {
            for f in judge_literal(body, c) {
                col.fail(f);
            }
            col.eval(1);
            col.nontrivial(h64(&("lit", body, c)));
            nl += 1;
        }
    }
    col.layer("string literals", nl, true, json!({"bodies": literal_bodies()}));
    col.sample(json!({"layer": "literal", "text": "SELECT 'a -- b' AS x FROM t"}));
    finish(
        ctx,
        &col,
        Finish {
            level: "exploration",
            rule: "for every corpus statement every single-site layout variant: each case-insensitive word in upper / lower / alternating case (one at a time and all at once), each token boundary with each separator, a comment inserted at each boundary, trailing semicolon toggled, all clause permutations; oracle: identical Debug of the parsed statement (same build). String literal bodies x 5 contexts against a reference un-escaper. Non-trivial: the variant differs from the canonical single-blank rendering.".into(),
            exhaustive: true,
            assumptions: vec!["`split` / `match` after `=` and identifiers are case-sensitive (not varied)".into(), "backslash escapes other than \\\\ and \\' are left open".into()],
            bounds: json!({"corpus": corpus.len()}),
        },
    )
}

pub fn replay(case: &J) -> Vec<Failure> {
    match case["layer"].as_str() {
        Some("after-bad") | Some("cli") => {
            println!("note: cases of this layer are replayed by re-running `./check C20 quick`");
            vec![]
        }
        Some("literal") => judge_literal(case["body"].as_str().unwrap(), case["context"].as_u64().unwrap() as usize),
        _ => judge_variant(case["original"].as_str().unwrap(), case["kind"].as_str().unwrap_or(""), case["variant"].as_str().unwrap(), 0),
    }
}
