//! C15 — order-insensitive aggregates ignore line order and how the input is split.
//!
//! stateright BFS over histories (state = history over a 6-line alphabet). Invariants on every state:
//!  (P) result(history) == result(sorted(history))  -> over all states this covers every permutation of every multiset
//!  (C) for every cut history = A ++ B: result(A ++ B) == combine(result(A), result(B)) for statements made of
//!      COUNT / SUM / MIN / MAX (counts and sums add, minima and maxima combine, groups union).

use std::cmp::Ordering;
use std::sync::Arc;

use serde_json::{json, Value as J};

use sqlgrep::data_model::Tables;

use crate::checks::fail;
use crate::core::*;
use crate::gen::*;
use crate::refmodel::{ref_cmp, ref_eq};
use crate::sut::{self, rows_close, rows_json, Outcome, RVal, Table};

fn statements() -> Vec<String> {
    let mut v = aggregate_corpus(&agg_items_order_insensitive(), false);
    v.push("SELECT k, MIN(s), MAX(s), MIN(ts), MAX(ts) FROM t GROUP BY k".into());
    v.push("SELECT MIN(s), MAX(ts), COUNT(DISTINCT v) FROM t WHERE v IS NOT NULL".into());
    v.push("SELECT k, AVG(v), STDDEV(v), VARIANCE(r) FROM t GROUP BY k HAVING COUNT(*) > 1".into());
    // longer select lists: a COUNT(DISTINCT ...) in front of several other aggregates, and between them
    v.push("SELECT k, COUNT(DISTINCT v), AVG(r), SUM(v) FROM t GROUP BY k".into());
    v.push("SELECT COUNT(DISTINCT s), SUM(v), STDDEV(v), COUNT(DISTINCT v), AVG(r), PERCENTILE(v, 0.5) FROM t".into());
    v.push("SELECT k, SUM(r), COUNT(DISTINCT b), MIN(v), COUNT(DISTINCT v), MAX(s), AVG(v) FROM t GROUP BY k".into());
    v
}

/// statements for the cut law: select list = [k,] combinable aggregates
fn cut_statements() -> Vec<(String, bool, Vec<&'static str>)> {
    vec![
        ("SELECT k, COUNT(*), COUNT(v), SUM(v), MIN(v), MAX(v) FROM t GROUP BY k".into(), true, vec!["add", "add", "add", "min", "max"]),
        ("SELECT COUNT(*), SUM(r), MIN(r), MAX(r) FROM t".into(), false, vec!["add", "add", "min", "max"]),
        ("SELECT k, MIN(s), MAX(s), MIN(ts), MAX(ts) FROM t GROUP BY k".into(), true, vec!["min", "max", "min", "max"]),
        ("SELECT k, SUM(v), COUNT(*) FROM t WHERE v > 1 GROUP BY k".into(), true, vec!["add", "add"]),
    ]
}

fn add(a: &RVal, b: &RVal) -> RVal {
    match (a, b) {
        (RVal::Null, x) | (x, RVal::Null) => x.clone(),
        (RVal::Int(x), RVal::Int(y)) => RVal::Int(x + y),
        (RVal::Real(x), RVal::Real(y)) => RVal::Real(x + y),
        _ => RVal::Text(format!("cannot add {:?} {:?}", a, b)),
    }
}

fn pick(a: &RVal, b: &RVal, want: Ordering) -> RVal {
    match (a, b) {
        (RVal::Null, x) | (x, RVal::Null) => x.clone(),
        _ => {
            if ref_cmp(a, b) == Some(want) {
                a.clone()
            } else if ref_cmp(b, a) == Some(want) {
                b.clone()
            } else {
                a.clone()
            }
        }
    }
}

fn combine(a: &Table, b: &Table, keyed: bool, ops: &[&str]) -> Vec<Vec<RVal>> {
    let off = keyed as usize;
    let mut rows: Vec<Vec<RVal>> = Vec::new();
    for src in [a, b] {
        for r in &src.rows {
            let pos = rows.iter().position(|x| !keyed || ref_eq(&x[0], &r[0]));
            match pos {
                None => rows.push(r.clone()),
                Some(p) => {
                    for (i, op) in ops.iter().enumerate() {
                        let c = i + off;
                        rows[p][c] = match *op {
                            "add" => add(&rows[p][c], &r[c]),
                            "min" => pick(&rows[p][c], &r[c], Ordering::Less),
                            _ => pick(&rows[p][c], &r[c], Ordering::Greater),
                        };
                    }
                }
            }
        }
    }
    if keyed {
        rows.sort_by(|x, y| ref_cmp(&x[0], &y[0]).unwrap_or(Ordering::Equal));
    }
    rows
}

fn perm_check(tables: &Tables, stmt_text: &str, si: usize, hist: &[u8]) -> (Vec<Failure>, bool, u64) {
    let al = jlines();
    let mut sorted = hist.to_vec();
    sorted.sort();
    let st = sut::parse(stmt_text).expect(stmt_text);
    let lines: Vec<&str> = hist.iter().map(|i| al[*i as usize]).collect();
    let slines: Vec<&str> = sorted.iter().map(|i| al[*i as usize]).collect();
    let a = sut::run_batch(tables, &st, &lines);
    let b = sut::run_batch(tables, &st, &slines);
    let mut out = Vec::new();
    // non-trivial: the permutation moves two different lines of the same group (same k) past each other
    let group = |i: u8| match i { 0 | 1 => 0, 2 | 3 => 1, 4 => 2, _ => 3 };
    let mut nontrivial = false;
    for i in 0..hist.len() {
        for j in i + 1..hist.len() {
            if hist[i] > hist[j] && group(hist[i]) == group(hist[j]) {
                nontrivial = true;
            }
        }
    }
    let same = match (&a, &b) {
        (Outcome::Ok(x), Outcome::Ok(y)) => x.columns == y.columns && rows_close(&x.rows, &y.rows),
        (Outcome::Err(_), Outcome::Err(_)) => true,
        _ => false,
    };
    if !same {
        // which cells differ -> aggregate attribution
        let mut cols = Vec::new();
        if let (Outcome::Ok(x), Outcome::Ok(y)) = (&a, &b) {
            if x.rows.len() != y.rows.len() {
                cols.push("group-set".to_string());
            } else {
                for (rx, ry) in x.rows.iter().zip(&y.rows) {
                    for (c, (p, q)) in rx.iter().zip(ry).enumerate() {
                        if !p.close(q) {
                            cols.push(x.columns.get(c).cloned().unwrap_or_default().trim_end_matches(char::is_numeric).to_string());
                        }
                    }
                }
            }
        } else {
            cols.push(format!("outcome {} vs {}", a.kind(), b.kind()));
        }
        cols.sort();
        cols.dedup();
        let argtype = if stmt_text.contains("(s)") { "TEXT" } else if stmt_text.contains("(ts)") { "TIMESTAMP" } else { "num" };
        out.push(fail(
            format!("order-dependent:{}:{}", cols.join(","), argtype),
            format!("`{}`: result differs between input order {:?} and sorted order {:?}", stmt_text, hist, sorted),
            json!({"law": "perm", "stmt": si, "statement": stmt_text, "history": hist, "lines": lines}),
            sut::outcome_json(&b, |t| t.to_json()),
            sut::outcome_json(&a, |t| t.to_json()),
            hist.len() as u64,
        ));
    }
    // the same law with a result requested after every line (as follow mode does): the table shown last
    if same && st.is_aggregate() {
        let last = |ls: &[&str]| -> Option<Option<Vec<Vec<RVal>>>> {
            match sut::run_incremental(tables, &st, ls) {
                Outcome::Ok(steps) => Some(steps.iter().rev().find_map(|s| s.table.as_ref()).map(|t| t.rows.clone())),
                _ => None,
            }
        };
        if let (Some(x), Some(y)) = (last(&lines), last(&slines)) {
            let eq = match (&x, &y) {
                (Some(p), Some(q)) => rows_close(p, q),
                (None, None) => true,
                _ => false,
            };
            if !eq {
                out.push(fail(
                    "order-dependent:result-per-line".into(),
                    format!("`{}` with a result after every line: the last table differs between input order {:?} and sorted order {:?}", stmt_text, hist, sorted),
                    json!({"law": "perm", "stmt": si, "statement": stmt_text, "history": hist, "lines": lines, "driver": "incremental"}),
                    y.map(|r| rows_json(&r)).unwrap_or(J::Null),
                    x.map(|r| rows_json(&r)).unwrap_or(J::Null),
                    hist.len() as u64,
                ));
            }
        }
    }
    let oh = match &a {
        Outcome::Ok(t) => h64(&format!("{:?}", t.rows)),
        o => h64(&o.kind()),
    };
    (out, nontrivial, oh)
}

const BIG_DEF: &str = "CREATE TABLE g(line = '^k=([a-zA-Z]+) v=(-?[0-9]+)$', line[1] => k TEXT, line[2] => v INT);";
const BIG_STMTS: [&str; 4] = ["SELECT k, COUNT(*), SUM(v), AVG(v), STDDEV(v), VARIANCE(v) FROM g GROUP BY k", "SELECT STDDEV(v), VARIANCE(v), PERCENTILE(v, 0.5) FROM g", "SELECT k, MIN(v), MAX(v), COUNT(DISTINCT v) FROM g GROUP BY k", "SELECT VARIANCE(v) FROM g WHERE k != 'zz'"];

fn big_lines() -> Vec<&'static str> {
    // INT values whose squares add up beyond 2^53 (a REAL accumulator would round) but stay inside the INT range
    // (found by search: summing these squares as doubles gives 5 different totals over the 5040 orders)
    // keys that differ only in letter case are different groups
    vec!["k=a v=446220853", "k=A v=-874188973", "k=a v=200751796", "k=b v=-271988205", "k=B v=548906293", "k=A v=1042484889", "k=a v=1386865235"]
}

/// every permutation of the 7 large-INT lines against the identity order, exact comparison (INT inputs)
fn big_case(tables: &Tables, si: usize, perm: &[usize]) -> Vec<Failure> {
    let al = big_lines();
    let st = sut::parse(BIG_STMTS[si]).unwrap();
    let base = sut::run_batch(tables, &st, &al);
    let lines: Vec<&str> = perm.iter().map(|i| al[*i]).collect();
    let got = sut::run_batch(tables, &st, &lines);
    let same = match (&base, &got) {
        (Outcome::Ok(x), Outcome::Ok(y)) => sut::rows_same(&x.rows, &y.rows),
        (Outcome::Err(_), Outcome::Err(_)) => true,
        _ => false,
    };
    if same {
        vec![]
    } else {
        vec![fail(
            format!("order-dependent:large-int:{}", si),
            format!("`{}` over large INT values: result for line order {:?} differs from the result for the original order", BIG_STMTS[si], perm),
            json!({"law": "big", "stmt": si, "statement": BIG_STMTS[si], "perm": perm, "history": []}),
            sut::outcome_json(&base, |t| t.to_json()),
            sut::outcome_json(&got, |t| t.to_json()),
            perm.len() as u64,
        )]
    }
}

fn cut_check(tables: &Tables, ci: usize, hist: &[u8]) -> Vec<Failure> {
    let al = jlines();
    let (text, keyed, ops) = &cut_statements()[ci];
    let st = sut::parse(text).unwrap();
    let lines: Vec<&str> = hist.iter().map(|i| al[*i as usize]).collect();
    let whole = sut::run_batch(tables, &st, &lines);
    let mut out = Vec::new();
    let w = match &whole {
        Outcome::Ok(t) => t,
        _ => return out,
    };
    // the same input split into two files (first file without a final newline) must give the same printed table
    let one = sut::files_from(&lines, &[lines.len()]);
    let whole_files = sut::run_files(tables, &st, &[one[0].as_slice()], sut::FileRunOpts::default());
    for cut in 1..lines.len() {
        let two = sut::files_from(&lines, &[cut, lines.len() - cut]);
        let first_noeol = &two[0][..two[0].len() - 1];
        let split = sut::run_files(tables, &st, &[first_noeol, two[1].as_slice()], sut::FileRunOpts::default());
        if let (Outcome::Ok(x), Outcome::Ok(y)) = (&whole_files, &split) {
            if x.printed != y.printed || x.result.is_ok() != y.result.is_ok() {
                out.push(fail(
                    format!("file-split-law:{}", ci),
                    format!("`{}`: result over two files (cut {}, first file without final newline) differs from the result over one file", text, cut),
                    json!({"law": "cut", "stmt": ci, "statement": text, "history": hist, "lines": lines, "cut": cut, "files": true}),
                    json!(x.printed),
                    json!(y.printed),
                    hist.len() as u64,
                ));
                break;
            }
        }
    }
    for cut in 0..=lines.len() {
        let a = sut::run_batch(tables, &st, &lines[..cut]);
        let b = sut::run_batch(tables, &st, &lines[cut..]);
        if let (Outcome::Ok(ta), Outcome::Ok(tb)) = (&a, &b) {
            let comb = combine(ta, tb, *keyed, ops);
            if !rows_close(&comb, &w.rows) {
                out.push(fail(
                    format!("cut-law:{}", ci),
                    format!("`{}`: result over A++B differs from combine(result(A), result(B)) at cut {}", text, cut),
                    json!({"law": "cut", "stmt": ci, "statement": text, "history": hist, "lines": lines, "cut": cut}),
                    rows_json(&comb),
                    rows_json(&w.rows),
                    hist.len() as u64,
                ));
                break;
            }
        }
    }
    out
}

pub fn run(ctx: &Ctx) -> i32 {
    let col = Arc::new(Collector::new());
    let tables = Arc::new(sut::make_tables(JDEF).unwrap());
    let stmts = statements();
    let depth = ctx.tier.pick(4, 7);
    let k = jlines().len() as u8;
    let expect = seq_count(k as u64, depth as u32);
    let mut complete = true;
    let mut done = 0;
    for (si, s) in stmts.iter().enumerate() {
        if ctx.over_budget() {
            complete = false;
            break;
        }
        let (c, t, s2) = (col.clone(), tables.clone(), s.clone());
        let stats = run_hist(k, depth, 16, move |hist| {
            let (fs, nt, oh) = perm_check(&t, &s2, si, hist);
            c.eval(2);
            c.traces_validated.fetch_add(1, std::sync::atomic::Ordering::Relaxed);
            if nt {
                c.nontrivial(h64(&(si, hist)));
            }
            c.outcome(oh);
            if hist == [1, 0, 3] && si % 11 == 0 {
                c.sample(json!({"law": "perm", "statement": s2, "history": hist}));
            }
            for f in fs {
                c.fail(f);
            }
        });
        if stats.unique_states != expect {
            col.machinery(format!("stateright explored {} states, expected {}", stats.unique_states, expect));
        }
        col.states.fetch_add(stats.unique_states, std::sync::atomic::Ordering::Relaxed);
        col.transitions.fetch_add(stats.unique_states - 1, std::sync::atomic::Ordering::Relaxed);
        done += 1;
    }
    col.layer("permutation law (stateright BFS per statement)", done, complete, json!({"statements": stmts.len(), "depth": depth, "states_per_statement": expect}));
    let ncut = cut_statements().len();
    let mut done = 0;
    for ci in 0..ncut {
        if ctx.over_budget() {
            complete = false;
            break;
        }
        let (c, t) = (col.clone(), tables.clone());
        let stats = run_hist(k, depth, 16, move |hist| {
            let fs = cut_check(&t, ci, hist);
            c.eval(1 + 2 * (hist.len() as u64 + 1));
            c.traces_validated.fetch_add(1, std::sync::atomic::Ordering::Relaxed);
            if hist == [0, 2, 1, 3] {
                c.sample(json!({"law": "cut", "statement": cut_statements()[ci].0, "history": hist, "cuts": "0..=len"}));
            }
            for f in fs {
                c.fail(f);
            }
        });
        col.states.fetch_add(stats.unique_states, std::sync::atomic::Ordering::Relaxed);
        col.transitions.fetch_add(stats.unique_states - 1, std::sync::atomic::Ordering::Relaxed);
        done += 1;
    }
    col.layer("cut law (stateright BFS per statement)", done, complete, json!({"statements": ncut, "depth": depth}));
    // large INT values: all 5040 permutations of 7 lines x 4 statements
    {
        let bt = sut::make_tables(BIG_DEF).unwrap();
        let perms = permutations(7);
        let total = (perms.len() * BIG_STMTS.len()) as u64;
        let (done, complete) = par_for_budget(ctx, total, 64, |idx| {
            let si = idx as usize % BIG_STMTS.len();
            let perm = &perms[idx as usize / BIG_STMTS.len()];
            col.eval(1);
            col.nontrivial(h64(&("big", si, perm)));
            for f in big_case(&bt, si, perm) {
                col.fail(f);
            }
        });
        col.layer("large INT values (all permutations)", done, complete, json!({"lines": big_lines(), "statements": BIG_STMTS}));
    }
    // REAL values incl. NaN, infinities and signed zeros: all 5040 orders of 7 lines; equality of results is the value
    // equality of C16 (NaN = NaN, -0.0 = 0.0)
    {
        let rt = sut::make_tables("CREATE TABLE g(line = '^k=([a-z]+) x=(\\\\S+)$', line[1] => k TEXT, line[2] => x REAL);").unwrap();
        let rlines = ["k=a x=NaN", "k=a x=1.5", "k=a x=2.5", "k=a x=-0.0", "k=a x=0.0", "k=b x=inf", "k=b x=NaN"];
        let rst = ["SELECT k, MIN(x), MAX(x), COUNT(x), COUNT(DISTINCT x) FROM g GROUP BY k", "SELECT MIN(x), MAX(x), PERCENTILE(x, 0.0), PERCENTILE(x, 1.0) FROM g", "SELECT k, MIN(x), MAX(x) FROM g WHERE x > 0.0 OR x <= 0.0 GROUP BY k"];
        let perms = permutations(7);
        let total = (perms.len() * rst.len()) as u64;
        let bases: Vec<Option<Vec<Vec<RVal>>>> = rst.iter().map(|s| match sut::run_batch(&rt, &sut::parse(s).unwrap(), &rlines) { Outcome::Ok(t) => Some(t.rows), _ => None }).collect();
        let (done, complete) = par_for_budget(ctx, total, 64, |idx| {
            let si = idx as usize % rst.len();
            let perm = &perms[idx as usize / rst.len()];
            col.eval(1);
            col.nontrivial(h64(&("real", si, perm)));
            let lines: Vec<&str> = perm.iter().map(|i| rlines[*i]).collect();
            let got = match sut::run_batch(&rt, &sut::parse(rst[si]).unwrap(), &lines) {
                Outcome::Ok(t) => Some(t.rows),
                _ => None,
            };
            let same = match (&bases[si], &got) {
                (Some(a), Some(b)) => a.len() == b.len() && a.iter().zip(b).all(|(x, y)| crate::refmodel::tuple_eq(x, y)),
                (None, None) => true,
                _ => false,
            };
            if !same {
                col.fail(fail(
                    format!("order-dependent:real-values:{}", si),
                    format!("`{}` over REAL values incl. NaN / inf / signed zeros: result for line order {:?} differs from the result for the original order", rst[si], perm),
                    json!({"law": "real", "stmt": si, "statement": rst[si], "perm": perm, "history": []}),
                    json!(bases[si].as_ref().map(|r| rows_json(r))),
                    json!(got.as_ref().map(|r| rows_json(r))),
                    perm.len() as u64,
                ));
            }
        });
        col.layer("REAL values incl. NaN, inf, signed zeros (all permutations)", done, complete, json!({"lines": rlines, "statements": rst}));
        // REAL values whose partial sums are all exact (multiples of 0.25): SUM and AVG must be the same f64, bit for bit,
        // for every order of the lines (the mean itself is not representable, so a running mean would show)
        let elines = ["k=a x=0.25", "k=a x=1.5", "k=a x=7.75", "k=a x=100.25", "k=a x=2.0", "k=a x=0.5", "k=a x=18.75"];
        let est = ["SELECT k, AVG(x), SUM(x), COUNT(*) FROM g GROUP BY k", "SELECT AVG(x), AVG(x * 3.0), SUM(x) FROM g"];
        let total = (perms.len() * est.len()) as u64;
        let ebases: Vec<Option<Vec<Vec<RVal>>>> = est.iter().map(|s| match sut::run_batch(&rt, &sut::parse(s).unwrap(), &elines) { Outcome::Ok(t) => Some(t.rows), _ => None }).collect();
        let exact = |a: &Vec<Vec<RVal>>, b: &Vec<Vec<RVal>>| format!("{:?}", rows_json(a)) == format!("{:?}", rows_json(b)) && a.len() == b.len() && a.iter().zip(b).all(|(x, y)| crate::refmodel::tuple_eq(x, y));
        let (done, complete) = par_for_budget(ctx, total, 64, |idx| {
            let si = idx as usize % est.len();
            let perm = &perms[idx as usize / est.len()];
            col.eval(1);
            col.nontrivial(h64(&("real-exact", si, perm)));
            let lines: Vec<&str> = perm.iter().map(|i| elines[*i]).collect();
            let got = match sut::run_batch(&rt, &sut::parse(est[si]).unwrap(), &lines) {
                Outcome::Ok(t) => Some(t.rows),
                _ => None,
            };
            let same = match (&ebases[si], &got) {
                (Some(a), Some(b)) => exact(a, b),
                (None, None) => true,
                _ => false,
            };
            if !same || got.is_none() {
                col.fail(fail(
                    format!("order-dependent:real-exact-sums:{}", si),
                    format!("`{}` over REAL values with exact partial sums: result for line order {:?} differs (bit for bit) from the result for the original order", est[si], perm),
                    json!({"law": "real-exact", "stmt": si, "statement": est[si], "perm": perm, "history": []}),
                    json!(ebases[si].as_ref().map(|r| rows_json(r))),
                    json!(got.as_ref().map(|r| rows_json(r))),
                    perm.len() as u64,
                ));
            }
        });
        col.layer("REAL values with exact partial sums, AVG / SUM bit for bit (all permutations)", done, complete, json!({"lines": elines, "statements": est}));
        // REAL keys and arguments one and two units in the last place apart: all 5040 orders
        {
            let nlines = ["k=a x=0.5", "k=a x=0.5000000000000002", "k=a x=0.5000000000000001", "k=a x=0.5", "k=b x=0.5000000000000001", "k=b x=5e-324", "k=b x=0.0"];
            let nst = ["SELECT x, COUNT(*) FROM g GROUP BY x", "SELECT k, MIN(x), MAX(x), COUNT(DISTINCT x) FROM g GROUP BY k", "SELECT x, k, COUNT(*) FROM g GROUP BY x, k"];
            let total = (perms.len() * nst.len()) as u64;
            let nbases: Vec<Option<Vec<Vec<RVal>>>> = nst.iter().map(|s| match sut::run_batch(&rt, &sut::parse(s).unwrap(), &nlines) { Outcome::Ok(t) => Some(t.rows), _ => None }).collect();
            let (done, complete) = par_for_budget(ctx, total, 64, |idx| {
                let si = idx as usize % nst.len();
                let perm = &perms[idx as usize / nst.len()];
                col.eval(1);
                col.nontrivial(h64(&("real-neighbours", si, perm)));
                let lines: Vec<&str> = perm.iter().map(|i| nlines[*i]).collect();
                let got = match sut::run_batch(&rt, &sut::parse(nst[si]).unwrap(), &lines) {
                    Outcome::Ok(t) => Some(t.rows),
                    _ => None,
                };
                let same = match (&nbases[si], &got) {
                    (Some(a), Some(b)) => exact(a, b),
                    _ => false,
                };
                if !same {
                    col.fail(fail(
                        format!("order-dependent:real-neighbours:{}", si),
                        format!("`{}` over REAL values one and two units in the last place apart: result for line order {:?} differs from the result for the original order", nst[si], perm),
                        json!({"law": "real-neighbours", "stmt": si, "statement": nst[si], "perm": perm, "history": []}),
                        json!(nbases[si].as_ref().map(|r| rows_json(r))),
                        json!(got.as_ref().map(|r| rows_json(r))),
                        perm.len() as u64,
                    ));
                }
            });
            col.layer("REAL values 1-2 ulp apart as keys and arguments (all permutations)", done, complete, json!({"lines": nlines, "statements": nst}));
        }
        // TEXT arguments that repeat across groups (the same text on neighbouring lines of different groups): all 5040 orders
        let tt = sut::make_tables("CREATE TABLE g(line = '^k=([a-z]+) s=([a-z]*)$', line[1] => k TEXT, line[2] => s TEXT);").unwrap();
        let tlines = ["k=a s=curl", "k=b s=curl", "k=a s=wget", "k=b s=wget", "k=a s=curl", "k=c s=curl", "k=b s="];
        let tst = ["SELECT k, COUNT(DISTINCT s), COUNT(s), MIN(s), MAX(s) FROM g GROUP BY k", "SELECT COUNT(DISTINCT s), COUNT(DISTINCT k), MIN(s) FROM g", "SELECT s, COUNT(DISTINCT k), COUNT(*) FROM g GROUP BY s", "SELECT k, array_length(array_unique(ARRAY_AGG(s))) FROM g GROUP BY k"];
        let total = (perms.len() * tst.len()) as u64;
        let tbases: Vec<Option<Vec<Vec<RVal>>>> = tst.iter().map(|s| match sut::run_batch(&tt, &sut::parse(s).unwrap(), &tlines) { Outcome::Ok(t) => Some(t.rows), _ => None }).collect();
        let (done, complete) = par_for_budget(ctx, total, 64, |idx| {
            let si = idx as usize % tst.len();
            let perm = &perms[idx as usize / tst.len()];
            col.eval(1);
            col.nontrivial(h64(&("text-args", si, perm)));
            let lines: Vec<&str> = perm.iter().map(|i| tlines[*i]).collect();
            let got = match sut::run_batch(&tt, &sut::parse(tst[si]).unwrap(), &lines) {
                Outcome::Ok(t) => Some(t.rows),
                _ => None,
            };
            let same = match (&tbases[si], &got) {
                (Some(a), Some(b)) => exact(a, b),
                _ => false,
            };
            if !same {
                col.fail(fail(
                    format!("order-dependent:text-arguments:{}", si),
                    format!("`{}` over TEXT arguments that repeat across groups: result for line order {:?} differs from the result for the original order", tst[si], perm),
                    json!({"law": "text-args", "stmt": si, "statement": tst[si], "perm": perm, "history": []}),
                    json!(tbases[si].as_ref().map(|r| rows_json(r))),
                    json!(got.as_ref().map(|r| rows_json(r))),
                    perm.len() as u64,
                ));
            }
        });
        col.layer("TEXT arguments repeating across groups (all permutations)", done, complete, json!({"lines": tlines, "statements": tst}));
    }
    // file order: the result over files [a, b] equals the result over [b, a] also when a file starts with a byte order
    // mark, a blank line or a CR-terminated line
    {
        let ft = sut::make_tables("CREATE TABLE g(line = '^k=([a-z]+) v=(-?[0-9]+)$', line[1] => k TEXT, line[2] => v INT);").unwrap();
        let st = sut::parse("SELECT k, COUNT(*), SUM(v), MIN(v), MAX(v) FROM g GROUP BY k").unwrap();
        let firsts = ["k=a v=1", "\u{feff}k=a v=1", "", "k=a v=1\r", " k=a v=1", "k=a v=1 "];
        let mut nf = 0u64;
        for fa in firsts {
            for fb in firsts {
                let a = format!("{}\nk=b v=2\n", fa);
                let b = format!("{}\nk=a v=5\nk=c v=7", fb);
                nf += 1;
                col.eval(2);
                col.nontrivial(h64(&("file-order", fa, fb)));
                let r1 = sut::run_files(&ft, &st, &[a.as_bytes(), b.as_bytes()], sut::FileRunOpts::default());
                let r2 = sut::run_files(&ft, &st, &[b.as_bytes(), a.as_bytes()], sut::FileRunOpts::default());
                let same = match (&r1, &r2) {
                    (Outcome::Ok(x), Outcome::Ok(y)) => x.printed == y.printed && x.result.is_ok() == y.result.is_ok(),
                    _ => false,
                };
                if !same {
                    col.fail(fail(
                        "file-order-law".into(),
                        format!("the aggregate over files [a, b] differs from the one over [b, a] (a starts with {:?}, b starts with {:?})", fa, fb),
                        json!({"law": "file-order", "first_a": fa, "first_b": fb, "history": []}),
                        sut::outcome_json(&r1, |f| f.to_json()),
                        sut::outcome_json(&r2, |f| f.to_json()),
                        nf,
                    ));
                }
            }
        }
        col.layer("file order law (files starting with a byte order mark / blank / CR-terminated / padded line)", nf, true, json!({"first_lines": firsts}));
    }
    // the command line program over several files (also the same file named twice, in both orders): what it prints is
    // what the batch executor prints over the same sequence of contents
    {
        let dir = sut::tmp_dir();
        let defp = format!("{}/c15_def_{}.txt", dir, std::process::id());
        std::fs::write(&defp, JDEF).unwrap();
        let al = jlines();
        let fa = format!("{}\n{}\n{}\n", al[0], al[2], al[1]);
        let fb = format!("{}\n{}\n", al[1], al[4]);
        let created = sut::TempFiles::new(&[fa.as_bytes(), fb.as_bytes()]);
        let text = "SELECT k, COUNT(*), SUM(v), MIN(s), MAX(r) FROM t GROUP BY k";
        let st = sut::parse(text).unwrap();
        let mut nc = 0u64;
        for order in [vec![0usize, 1], vec![1, 0], vec![0, 0], vec![1, 1], vec![0, 1, 0], vec![1, 0, 0, 1]] {
            let mut args: Vec<&str> = vec!["-d", &defp];
            for i in &order {
                args.push(&created.paths[*i]);
            }
            args.extend(["--format", "json", "-c", text]);
            let got = match sut::run_cli(&args) {
                Some(g) => g,
                None => {
                    col.note("CLI binary not built: command-line layer skipped".into());
                    break;
                }
            };
            let contents: Vec<&[u8]> = order.iter().map(|i| if *i == 0 { fa.as_bytes() } else { fb.as_bytes() }).collect();
            let want = match sut::run_files(&tables, &st, &contents, sut::FileRunOpts::default()) {
                Outcome::Ok(fr) => fr.printed.iter().filter(|l| !l.is_empty()).cloned().collect::<Vec<_>>(),
                _ => continue,
            };
            nc += 1;
            col.eval(1);
            col.nontrivial(h64(&("cli", &order)));
            let out: Vec<String> = got.0.iter().filter(|l| !l.is_empty()).cloned().collect();
            if out != want {
                col.fail(fail(
                    format!("cli-files:{}", if order.windows(2).any(|w| w[0] == w[1]) || order.len() > 2 { "file-named-twice" } else { "two-files" }),
                    format!("sqlgrep over files {:?} (0 = a.log, 1 = b.log) prints {:?}, the batch executor over the same contents prints {:?}", order, out, want),
                    json!({"law": "cli", "order": order, "history": []}),
                    json!(want),
                    json!(out),
                    order.len() as u64,
                ));
            }
        }
        std::fs::remove_file(&defp).ok();
        col.layer("command line program over several files", nc, true, json!({"orders": ["a b", "b a", "a a", "b b", "a b a", "b a a b"]}));
    }
    // long inputs: (a) line boundaries aligned with the reader's 8192-byte buffer, (b) more distinct values per group than
    // any small-collection optimisation would hold; the result must not depend on alignment, order or rotation
    {
        let lt = sut::make_tables("CREATE TABLE g(line = '^k=([a-z]+) v=([0-9]+)$', line[1] => k TEXT, line[2] => v INT);").unwrap();
        let st = sut::parse("SELECT k, COUNT(*), SUM(v), MIN(v), MAX(v), COUNT(DISTINCT v) FROM g GROUP BY k").unwrap();
        let mut nl = 0u64;
        for pad in 0..=9usize {
            for rev in [false, true] {
                let mut content: Vec<u8> = Vec::new();
                if pad > 0 {
                    content.extend(std::iter::repeat(b'#').take(pad - 1));
                    content.push(b'\n');
                }
                let n = 2100usize;
                let idx: Vec<usize> = if rev { (0..n).rev().collect() } else { (0..n).collect() };
                for i in idx {
                    content.extend_from_slice(format!("k={} v={}\n", if i % 2 == 0 { "a" } else { "b" }, i % 7).as_bytes());
                }
                let r = sut::run_files(&lt, &st, &[content.as_slice()], sut::FileRunOpts::default());
                nl += 1;
                col.eval(1);
                col.nontrivial(h64(&("long-a", pad, rev)));
                let expect = vec!["{\"k\":\"a\",\"count1\":1050,\"sum2\":3150,\"min3\":0,\"max4\":6,\"count5\":7}".to_string(), "{\"k\":\"b\",\"count1\":1050,\"sum2\":3150,\"min3\":0,\"max4\":6,\"count5\":7}".to_string()];
                // values: i even -> i%7 over evens, i odd -> odds: both cover 0..6 equally (2100 = 300*7): sums = 150 * (0+..+6) = 3150
                let got = match &r {
                    Outcome::Ok(fr) => fr.printed.clone(),
                    o => vec![format!("{}", o.kind())],
                };
                if got != expect {
                    col.fail(fail(
                        "long-input:buffer-alignment".into(),
                        format!("aggregates over 2100 eight-byte lines after a {}-byte pad line ({} order): {:?}", pad, if rev { "reversed" } else { "forward" }, got),
                        json!({"law": "long-a", "pad": pad, "reversed": rev}),
                        json!(expect),
                        json!(got),
                        pad as u64,
                    ));
                }
            }
        }
        let st2 = sut::parse("SELECT k, COUNT(DISTINCT v), COUNT(*) FROM g GROUP BY k HAVING COUNT(DISTINCT v) = 41").unwrap();
        for rot in 0..41usize {
            for order in 0..3 {
                let vals: Vec<usize> = (0..41).map(|i| (i + rot) % 41).collect();
                let seq: Vec<usize> = match order {
                    0 => vals.iter().chain(vals.iter()).cloned().collect(),
                    1 => vals.iter().chain(vals.iter().rev()).cloned().collect(),
                    _ => vals.iter().flat_map(|v| vec![*v, *v]).collect(),
                };
                let content: String = seq.iter().map(|v| format!("k=a v={}\n", v)).collect();
                let r = sut::run_files(&lt, &st2, &[content.as_bytes()], sut::FileRunOpts::default());
                nl += 1;
                col.eval(1);
                col.nontrivial(h64(&("long-b", rot, order)));
                let got = match &r {
                    Outcome::Ok(fr) => fr.printed.clone(),
                    o => vec![format!("{}", o.kind())],
                };
                let expect = vec!["{\"k\":\"a\",\"count1\":41,\"count2\":82}".to_string()];
                if got != expect {
                    col.fail(fail(
                        "long-input:many-distinct-values".into(),
                        format!("COUNT(DISTINCT v) over 41 distinct values each arriving twice (rotation {}, order {}): {:?}", rot, order, got),
                        json!({"law": "long-b", "rotation": rot, "order": order}),
                        json!(expect),
                        json!(got),
                        rot as u64,
                    ));
                }
            }
        }
        col.layer("long inputs (buffer alignment; many distinct values in every arrival order family)", nl, true, json!({"lines": 2100, "pads": "0..=9", "distinct_values": 41}));
        col.sample(json!({"law": "long-b", "statement": "SELECT k, COUNT(DISTINCT v), COUNT(*) FROM g GROUP BY k HAVING COUNT(DISTINCT v) = 41", "input": "41 distinct values, each twice, rotated"}));
    }
    finish(
        ctx,
        &col,
        Finish {
            level: "model_checking",
            rule: "stateright BFS over input histories; invariants: result(history) == result(sorted(history)) (covers all permutations of all multisets up to the depth), and result(A++B) == combine(result(A), result(B)) for every cut. Non-trivial: the history differs from its sorted form by an inversion of two different lines of the same group.".into(),
            exhaustive: true,
            assumptions: vec!["REAL inputs chosen so that sums and sums of squares are exactly representable".into(), "metamorphic: both sides computed by the same build".into()],
            bounds: json!({"depth": depth, "alphabet": jlines()}),
        },
    )
}

pub fn replay(case: &J) -> Vec<Failure> {
    let tables = sut::make_tables(JDEF).unwrap();
    let hist: Vec<u8> = case["history"].as_array().unwrap().iter().map(|x| x.as_u64().unwrap() as u8).collect();
    match case["law"].as_str() {
        Some("perm") => perm_check(&tables, case["statement"].as_str().unwrap(), case["stmt"].as_u64().unwrap() as usize, &hist).0,
        Some("real") | Some("file-order") => {
            println!("note: these cases are replayed by re-running `./check C15 quick`");
            vec![]
        }
        Some("cli") => {
            println!("note: command-line cases are replayed by re-running `./check C15 quick`");
            vec![]
        }
        Some("big") => {
            let perm: Vec<usize> = case["perm"].as_array().unwrap().iter().map(|x| x.as_u64().unwrap() as usize).collect();
            big_case(&sut::make_tables(BIG_DEF).unwrap(), case["stmt"].as_u64().unwrap() as usize, &perm)
        }
        Some("cut") => cut_check(&tables, case["stmt"].as_u64().unwrap() as usize, &hist),
        _ => vec![],
    }
}
