//! C13 — expressions group by standard SQL operator precedence and associativity.
//!
//! Enumerated: all expression trees with two operators (every ordered pair of the 12 binary operators in both shapes, every
//! binary operator combined with NOT / unary minus / negative literal / :: / [ ] / IS NULL / IN / CASE on either side),
//! and with three binary operators (thorough). Each tree is rendered with minimal parentheses under the reference grammar
//! and fully parenthesised. Oracle (a): both texts lower to the same statement (Debug of the parsed Statement, same build).
//! Oracle (b): the statement parsed from the minimal text evaluates like the reference tree on distinguishing rows.

use serde_json::{json, Value as J};

use crate::checks::fail;
use crate::core::*;
use crate::refmodel::expr::*;
use crate::sut::{self, Outcome, RVal};

fn col(n: &str) -> E {
    E::Col(n.to_string())
}

fn class_of(e: &E) -> &'static str {
    match e {
        E::Bin(op, ..) => match op {
            Bin::Mul | Bin::Div => "mul",
            Bin::Add | Bin::Sub => "add",
            Bin::And => "and",
            Bin::Or => "or",
            Bin::Eq | Bin::Ne => "eq",
            _ => "rel",
        },
        E::Not(_) => "not",
        E::Neg(_) => "neg",
        E::Cast(..) => "cast",
        E::Index(..) => "index",
        E::IsNull(..) => "is",
        E::In(..) => "in",
        E::Case(..) => "case",
        E::Lit(Lit::Int(i)) if *i < 0 => "neglit",
        E::Lit(Lit::Real(r)) if *r < 0.0 => "neglit",
        _ => "atom",
    }
}

fn children(e: &E) -> Vec<&E> {
    match e {
        E::Bin(_, l, r) | E::Index(l, r) => vec![l, r],
        E::Not(x) | E::Neg(x) | E::Cast(x, _) | E::IsNull(x, _) | E::Extract(_, x) => vec![x],
        E::In(x, vs, _) => std::iter::once(&**x).chain(vs.iter()).collect(),
        E::Case(cl, el) => cl.iter().flat_map(|(a, b)| vec![a, b]).chain(std::iter::once(&**el)).collect(),
        E::Call(_, a) | E::Array(a) => a.iter().collect(),
        _ => vec![],
    }
}

/// "outer class > inner class > side" for the first compound child
fn shape_sig(e: &E) -> String {
    let ch = children(e);
    for (i, c) in ch.iter().enumerate() {
        if class_of(c) != "atom" {
            return format!("{}>{}>{}", class_of(e), class_of(c), if i == 0 { "left" } else { "right" });
        }
    }
    format!("{}>atoms", class_of(e))
}

/// operands typed to make sense for an operator class (for the evaluation oracle)
fn operand(class: &str, n: usize) -> E {
    match class {
        "bool" => col(["p", "q", "b"][n % 3]),
        "num" => col(["i", "j", "n"][n % 3]),
        _ => col(["i", "j", "n"][n % 3]),
    }
}

fn opclass(op: Bin) -> (&'static str, &'static str) {
    // (operand class, result class)
    match op {
        Bin::And | Bin::Or => ("bool", "bool"),
        Bin::Add | Bin::Sub | Bin::Mul | Bin::Div => ("num", "num"),
        _ => ("num", "bool"),
    }
}

/// all trees to examine, with a flag telling whether the tree is type-correct (so that oracle (b) applies)
fn trees(three: bool) -> Vec<(E, bool)> {
    let mut out: Vec<(E, bool)> = Vec::new();
    let ops = Bin::all();
    // two binary operators, both shapes
    for o1 in ops {
        for o2 in ops {
            let (in1, res1) = opclass(o1);
            let (in2, _) = opclass(o2);
            // (a o1 b) o2 c : typed if res1 == in2
            let left = E::Bin(o2, b(E::Bin(o1, b(operand(in1, 0)), b(operand(in1, 1)))), b(operand(in2, 2)));
            out.push((left, res1 == in2));
            let (in2b, res2) = opclass(o2);
            let right = E::Bin(o1, b(operand(in1, 0)), b(E::Bin(o2, b(operand(in2b, 1)), b(operand(in2b, 2)))));
            out.push((right, res2 == in1));
        }
    }
    // unary / postfix decorations on either operand, or on the whole
    for o in ops {
        let (inc, res) = opclass(o);
        let a = operand(inc, 0);
        let c = operand(inc, 1);
        let plain = E::Bin(o, b(a.clone()), b(c.clone()));
        // NOT
        out.push((E::Not(b(plain.clone())), res == "bool"));
        out.push((E::Bin(o, b(E::Not(b(col("p")))), b(c.clone())), inc == "bool"));
        out.push((E::Bin(o, b(a.clone()), b(E::Not(b(col("q"))))), inc == "bool"));
        // unary minus / negative literal
        out.push((E::Neg(b(plain.clone())), res == "num"));
        out.push((E::Bin(o, b(E::Neg(b(col("i")))), b(c.clone())), inc == "num"));
        out.push((E::Bin(o, b(a.clone()), b(E::Neg(b(col("j"))))), inc == "num"));
        out.push((E::Bin(o, b(a.clone()), b(E::Lit(Lit::Int(-1)))), inc == "num"));
        out.push((E::Bin(o, b(E::Lit(Lit::Int(-2))), b(c.clone())), inc == "num"));
        out.push((E::Bin(o, b(a.clone()), b(E::Lit(Lit::Real(-1.5)))), false));
        // cast
        out.push((E::Cast(b(plain.clone()), "text"), false));
        out.push((E::Bin(o, b(E::Cast(b(col("t")), "int")), b(c.clone())), inc == "num"));
        out.push((E::Bin(o, b(a.clone()), b(E::Cast(b(col("t")), "int"))), inc == "num"));
        // subscript
        out.push((E::Bin(o, b(a.clone()), b(E::Index(b(col("a")), b(E::Lit(Lit::Int(1)))))), inc == "num"));
        out.push((E::Bin(o, b(E::Index(b(col("a")), b(E::Lit(Lit::Int(2))))), b(c.clone())), inc == "num"));
        out.push((E::Index(b(col("a")), b(plain.clone())), res == "num"));
        // IS NULL
        out.push((E::IsNull(b(plain.clone()), false), true));
        out.push((E::IsNull(b(plain.clone()), true), true));
        out.push((E::Bin(o, b(a.clone()), b(E::IsNull(b(col("n")), false))), inc == "bool"));
        out.push((E::Bin(o, b(E::IsNull(b(col("n")), true)), b(c.clone())), inc == "bool"));
        // IN
        out.push((E::In(b(plain.clone()), vec![E::Lit(Lit::Int(1)), E::Lit(Lit::Int(2))], false), res == "num"));
        out.push((E::Bin(o, b(a.clone()), b(E::In(b(col("j")), vec![E::Lit(Lit::Int(1)), E::Lit(Lit::Int(3))], false))), inc == "bool"));
        out.push((E::Bin(o, b(E::In(b(col("i")), vec![E::Lit(Lit::Int(2))], true)), b(c.clone())), inc == "bool"));
        out.push((E::In(b(col("i")), vec![plain.clone(), E::Lit(Lit::Int(7))], false), res == "num"));
        // CASE operands and results
        out.push((E::Case(vec![(plain.clone(), E::Lit(Lit::Int(1)))], b(E::Lit(Lit::Int(0)))), res == "bool"));
        out.push((E::Case(vec![(col("p"), plain.clone())], b(plain.clone())), true));
        out.push((E::Bin(o, b(E::Case(vec![(col("p"), a.clone())], b(c.clone()))), b(c.clone())), true));
    }
    // unary/postfix stacked
    out.push((E::Neg(b(E::Cast(b(col("t")), "int"))), true));
    out.push((E::Cast(b(E::Neg(b(col("i")))), "text"), true));
    out.push((E::Neg(b(E::Index(b(col("a")), b(E::Lit(Lit::Int(1)))))), true));
    out.push((E::Not(b(E::IsNull(b(col("n")), false))), true));
    out.push((E::Not(b(E::Not(b(col("p"))))), true));
    out.push((E::Neg(b(E::Neg(b(col("i"))))), true));
    out.push((E::Bin(Bin::Sub, b(col("i")), b(E::Neg(b(E::Lit(Lit::Int(1)))))), true));
    out.push((E::Not(b(E::In(b(col("i")), vec![E::Lit(Lit::Int(1))], false))), true));
    out.push((E::In(b(col("i")), vec![E::Lit(Lit::Int(1))], false), true));
    out.push((E::In(b(col("i")), vec![E::Lit(Lit::Int(-1))], true), true));
    out.push((E::In(b(col("i")), vec![E::Bin(Bin::Add, b(col("j")), b(E::Lit(Lit::Int(1))))], false), true));
    out.push((E::Cast(b(E::Index(b(col("a")), b(E::Lit(Lit::Int(1))))), "text"), true));
    out.push((E::Index(b(E::Array(vec![col("i"), col("j")])), b(E::Lit(Lit::Int(2)))), true));
    out.push((E::IsNull(b(E::Cast(b(col("t")), "int")), true), true));
    // CASE nested in the condition, in the result and in the ELSE part of another CASE (and two levels deep)
    {
        let inner_bool = E::Case(vec![(col("p"), col("q"))], b(col("p")));
        let inner_int = E::Case(vec![(col("q"), col("i"))], b(col("j")));
        let one = E::Lit(Lit::Int(1));
        out.push((E::Case(vec![(inner_bool.clone(), one.clone())], b(col("j"))), true));
        out.push((E::Case(vec![(col("p"), inner_int.clone())], b(col("j"))), true));
        out.push((E::Case(vec![(col("p"), col("i"))], b(inner_int.clone())), true));
        out.push((E::Case(vec![(col("p"), inner_int.clone()), (col("q"), inner_int.clone())], b(inner_int.clone())), true));
        out.push((E::Case(vec![(col("p"), E::Case(vec![(col("q"), inner_int.clone())], b(one.clone())))], b(col("j"))), true));
        out.push((E::Bin(Bin::Add, b(E::Case(vec![(col("p"), inner_int.clone())], b(col("j")))), b(inner_int.clone())), true));
        out.push((E::Bin(Bin::And, b(inner_bool.clone()), b(E::Not(b(inner_bool.clone())))), true));
    }
    // unary / postfix forms stacked two deep over every kind of atom (column and literals), alone and as operand of a binary operator
    let atoms: Vec<E> = vec![col("i"), E::Lit(Lit::Int(1)), E::Lit(Lit::Real(1.5)), E::Lit(Lit::Text("7".into())), col("a"), col("t"), E::Lit(Lit::Null), E::Lit(Lit::Bool(true))];
    let wrap = |k: usize, x: E| -> E {
        match k {
            0 => E::Neg(b(x)),
            1 => E::Not(b(x)),
            2 => E::Cast(b(x), "text"),
            3 => E::Cast(b(x), "int"),
            4 => E::Index(b(x), b(E::Lit(Lit::Int(1)))),
            _ => E::IsNull(b(x), false),
        }
    };
    for a in &atoms {
        for k1 in 0..6 {
            out.push((wrap(k1, a.clone()), false));
            for k2 in 0..6 {
                let e = wrap(k2, wrap(k1, a.clone()));
                out.push((e.clone(), false));
                for o in [Bin::Eq, Bin::Add, Bin::Mul, Bin::And, Bin::Lt] {
                    out.push((E::Bin(o, b(col("j")), b(e.clone())), false));
                    out.push((E::Bin(o, b(e.clone()), b(col("j"))), false));
                    // a unary / postfix form around a binary operator one of whose operands carries another one
                    // (`NOT -i = j`, `-(i::int + j)`, `(NOT i IS NULL) AND j`): a run of prefix operators in front of a
                    // binary operator
                    out.push((wrap(k2, E::Bin(o, b(wrap(k1, a.clone())), b(col("j")))), false));
                    out.push((wrap(k2, E::Bin(o, b(col("j")), b(wrap(k1, a.clone())))), false));
                }
            }
        }
    }
    // all binary trees with three operators (and four in the thorough tier)
    fn shapes(n: usize, leaf: &mut usize) -> Vec<Box<dyn Fn(&[Bin], &mut usize, &mut usize) -> E>> {
        let _ = (n, leaf);
        vec![]
    }
    let _ = shapes;
    fn build(ops: &[Bin], shape: &[usize], oi: &mut usize, si: &mut usize, li: &mut usize) -> E {
        // shape: preorder list, 1 = internal node, 0 = leaf
        let s = shape[*si];
        *si += 1;
        if s == 0 {
            let names = ["i", "j", "n", "p", "q"];
            let e = E::Col(names[*li % names.len()].to_string());
            *li += 1;
            e
        } else {
            let op = ops[*oi];
            *oi += 1;
            let l = build(ops, shape, oi, si, li);
            let r = build(ops, shape, oi, si, li);
            E::Bin(op, b(l), b(r))
        }
    }
    fn all_shapes(n: usize) -> Vec<Vec<usize>> {
        if n == 0 {
            return vec![vec![0]];
        }
        let mut out = Vec::new();
        for l in 0..n {
            for ls in all_shapes(l) {
                for rs in all_shapes(n - 1 - l) {
                    let mut v = vec![1];
                    v.extend(ls.iter());
                    v.extend(rs.iter());
                    out.push(v);
                }
            }
        }
        out
    }
    let depths: Vec<usize> = if three { vec![3, 4] } else { vec![3] };
    for n in depths {
        let shp = all_shapes(n);
        let total = 12usize.pow(n as u32);
        for code in 0..total {
            let mut c = code;
            let mut os = Vec::new();
            for _ in 0..n {
                os.push(ops[c % 12]);
                c /= 12;
            }
            for sh in &shp {
                let (mut oi, mut si, mut li) = (0, 0, 0);
                out.push((build(&os, sh, &mut oi, &mut si, &mut li), false));
            }
        }
    }
    out
}

const DEF: &str = "CREATE TABLE t({ .i } => i INT, { .j } => j INT, { .n } => n INT, { .p } => p BOOLEAN, { .q } => q BOOLEAN, { .b } => b BOOLEAN, { .t } => t TEXT, { .a } => a INT[], { .m } => m TEXT);";

fn rows() -> Vec<(String, Row)> {
    // rows chosen so that different groupings of operator pairs differ on at least one of them
    let mut out = Vec::new();
    let ints = [(1i64, 2i64, 3i64), (3, 1, 2), (2, 3, 1), (0, 1, 0), (4, 2, 2), (1, 1, 1), (5, 0, 1)];
    let bools = [(true, false, false), (false, true, false), (false, false, true), (true, true, false), (false, false, false), (true, true, true), (true, false, true)];
    for (k, ((i, j, n), (p, q, bb))) in ints.iter().zip(bools.iter()).enumerate() {
        let nn = if k % 3 == 2 { None } else { Some(*n) };
        let line = format!("{{\"m\":\"m\",\"i\":{},\"j\":{},{}\"p\":{},\"q\":{},\"b\":{},\"t\":\"{}\",\"a\":[{},{}]}}", i, j, nn.map(|x| format!("\"n\":{},", x)).unwrap_or_default(), p, q, bb, k + 1, i + 10, j + 20);
        let mut r = Row::new();
        r.insert("i".into(), RVal::Int(*i));
        r.insert("j".into(), RVal::Int(*j));
        r.insert("n".into(), nn.map(RVal::Int).unwrap_or(RVal::Null));
        r.insert("p".into(), RVal::Bool(*p));
        r.insert("q".into(), RVal::Bool(*q));
        r.insert("b".into(), RVal::Bool(*bb));
        r.insert("t".into(), RVal::Text((k + 1).to_string()));
        r.insert("a".into(), RVal::Array(vec![RVal::Int(i + 10), RVal::Int(j + 20)]));
        r.insert("m".into(), RVal::Text("m".into()));
        out.push((line, r));
    }
    out
}

fn judge(tables: &sqlgrep::data_model::Tables, e: &E, typed: bool, rank: u64) -> (Vec<Failure>, bool, u64) {
    let min_text = format!("SELECT {} FROM t", e.min());
    let full_text = format!("SELECT {} FROM t", e.full());
    let case = json!({"minimal": min_text, "full": full_text, "typed": typed});
    let pm = catch(|| sqlgrep::parsing::parse(&min_text).map(|s| format!("{:?}", s)).map_err(|e| format!("{}", e)));
    let pf = catch(|| sqlgrep::parsing::parse(&full_text).map(|s| format!("{:?}", s)).map_err(|e| format!("{}", e)));
    let mut out = Vec::new();
    let shape = shape_sig(e);
    let differs_structurally = e.min() != e.full();
    let (pm, pf) = match (pm, pf) {
        (Ok(a), Ok(b)) => (a, b),
        (Err(p), _) | (_, Err(p)) => {
            out.push(fail(panic_signature(&p), format!("parser panicked on {:?}", min_text), case, json!("no panic"), json!(p.msg), rank));
            return (out, differs_structurally, 0);
        }
    };
    let mut outcome = 0u64;
    match (&pm, &pf) {
        (Ok(a), Ok(bb)) => {
            outcome = 1;
            if a != bb {
                out.push(fail(
                    format!("grouping:{}", shape),
                    format!("`{}` does not group like `{}`", e.min(), e.full()),
                    case.clone(),
                    json!(bb),
                    json!(a),
                    rank,
                ));
            }
        }
        (Err(em), Ok(_)) => {
            out.push(fail(
                format!("rejected-minimal:{}:{}", msg_class(em).split('\'').next().unwrap_or("").trim(), shape),
                format!("`{}` is rejected ({}) although its fully parenthesised form `{}` parses", e.min(), em, e.full()),
                case.clone(),
                json!("parses"),
                json!(em),
                rank,
            ));
        }
        (_, Err(ef)) => {
            out.push(fail(
                format!("rejected-parenthesised:{}:{}", msg_class(ef).split('\'').next().unwrap_or("").trim(), shape),
                format!("fully parenthesised form `{}` is rejected: {} (a parenthesised sub-expression must be accepted where an operand is)", e.full(), ef),
                case.clone(),
                json!("parses"),
                json!(ef),
                rank,
            ));
        }
    }
    // the same minimal text with every blank replaced by a line break (and by a tab) must parse to the same statement
    if out.is_empty() {
        if let Ok(reference) = &pm {
            for (name, sep) in [("lf", "\n"), ("tab", "\t"), ("crlf", "\r\n")] {
                let alt = format!("SELECT{}{}{}FROM t", sep, e.min().replace(' ', sep), sep);
                let pa = catch(|| sqlgrep::parsing::parse(&alt).map(|s| format!("{:?}", s)).map_err(|e| format!("{}", e)));
                match pa {
                    Ok(Ok(x)) if &x == reference => {}
                    Ok(other) => {
                        out.push(fail(
                            format!("separator-{}:{}:{}", name, if other.is_ok() { "parses-differently" } else { "rejected" }, shape),
                            format!("`{}` written with {} between the tokens {}", e.min(), name, match &other { Ok(_) => "parses to another statement".to_string(), Err(m) => format!("is rejected: {}", m) }),
                            json!({"minimal": min_text, "full": full_text, "typed": typed, "separator": name}),
                            json!(reference),
                            json!(other),
                            rank,
                        ));
                        break;
                    }
                    Err(p) => {
                        out.push(fail(panic_signature(&p), format!("parser panicked on {:?}", alt), case.clone(), json!("no panic"), json!(p.msg), rank));
                        break;
                    }
                }
            }
        }
    }
    // oracle (b): evaluate the minimal text on distinguishing rows
    if typed && out.is_empty() {
        if let Ok(st) = sut::parse(&format!("SELECT ({}) AS x FROM t", e.min())) {
            for (line, row) in rows() {
                let expect = eval(e, &row);
                let got = sut::run_batch(tables, &st, &[line.as_str()]);
                let ok = match (&expect, &got) {
                    (Ev::Open(_), _) => true,
                    (Ev::Val(v), Outcome::Ok(t)) => t.rows.len() == 1 && t.rows[0][0].same(v),
                    (Ev::NoValue(_), Outcome::Err(_)) => true,
                    (Ev::NoValue(_), _) => true, // value-level error handling is C03's business
                    (Ev::Val(_), _) => false,
                };
                if !ok {
                    out.push(fail(
                        format!("evaluation:{}", shape),
                        format!("`{}` on row {} evaluates differently from the reference grouping `{}`", e.min(), line, e.full()),
                        json!({"minimal": min_text, "full": full_text, "typed": typed, "line": line}),
                        json!(format!("{:?}", expect)),
                        sut::outcome_json(&got, |t| t.to_json()),
                        rank,
                    ));
                    break;
                }
            }
        }
    }
    (out, differs_structurally, outcome)
}

pub fn run(ctx: &Ctx) -> i32 {
    let col = Collector::new();
    let tables = sut::make_tables(DEF).unwrap();
    let ts = trees(ctx.tier == Tier::Thorough);
    let total = ts.len() as u64;
    let (done, complete) = par_for_budget(ctx, total, 16, |idx| {
        let (e, typed) = &ts[idx as usize];
        let (fs, nt, oc) = judge(&tables, e, *typed, idx);
        col.eval(2);
        if nt {
            col.nontrivial(h64(&e.min()));
        }
        col.outcome(h64(&(oc, fs.len(), shape_sig(e))));
        if idx % 173 == 3 {
            col.sample(json!({"minimal": e.min(), "full": e.full()}));
        }
        for f in fs {
            col.fail(f);
        }
    });
    // text pairs (minimal, parenthesised) for forms the reference tree type has no node for, and long flat chains whose
    // fully parenthesised form has hundreds of groups (no grouping may depend on how many groups came before)
    {
        let mut pairs: Vec<(String, String)> = vec![
            ("x IS y - 1".into(), "x IS (y - 1)".into()),
            ("x IS NOT y * 2".into(), "x IS NOT (y * 2)".into()),
            ("x IS s::int".into(), "x IS (s::int)".into()),
            ("x IS NOT a[1]".into(), "x IS NOT (a[1])".into()),
            ("x + 1 IS y".into(), "(x + 1) IS y".into()),
            ("x IS y AND p".into(), "(x IS y) AND p".into()),
            ("NOT x IS y".into(), "NOT (x IS y)".into()),
            ("x IS - y".into(), "x IS (- y)".into()),
            ("x = y IS z".into(), "(x = y) IS z".into()),
            ("CASE WHEN p THEN 1 ELSE CASE WHEN q THEN 10 ELSE 20 END + 1 END".into(), "CASE WHEN p THEN 1 ELSE ((CASE WHEN q THEN 10 ELSE 20 END) + 1) END".into()),
            ("CASE WHEN p THEN 1 ELSE CASE WHEN q THEN 10 ELSE 20 END = 2 END".into(), "CASE WHEN p THEN 1 ELSE ((CASE WHEN q THEN 10 ELSE 20 END) = 2) END".into()),
            ("CASE WHEN p THEN 1 ELSE CASE WHEN q THEN 10 ELSE 20 END::text END".into(), "CASE WHEN p THEN 1 ELSE ((CASE WHEN q THEN 10 ELSE 20 END)::text) END".into()),
            ("CASE WHEN p THEN CASE WHEN q THEN 1 ELSE 2 END * 3 ELSE 4 END".into(), "CASE WHEN p THEN ((CASE WHEN q THEN 1 ELSE 2 END) * 3) ELSE 4 END".into()),
            ("CASE WHEN CASE WHEN q THEN p ELSE q END AND p THEN 1 ELSE 2 END".into(), "CASE WHEN ((CASE WHEN q THEN p ELSE q END) AND p) THEN 1 ELSE 2 END".into()),
        ];
        for n in [70usize, 300, 1000] {
            let min: Vec<String> = (0..n).map(|i| format!("x = {} AND y = {}", i, i + 1)).collect();
            let full: Vec<String> = (0..n).map(|i| format!("((x = {}) AND (y = {}))", i, i + 1)).collect();
            pairs.push((min.join(" OR "), full.join(" OR ")));
            let vals: Vec<String> = (0..n).map(|i| format!("{}", i)).collect();
            let pvals: Vec<String> = (0..n).map(|i| format!("({})", i)).collect();
            pairs.push((format!("x IN ({})", vals.join(", ")), format!("x IN ({})", pvals.join(", "))));
            pairs.push(((0..n).map(|i| format!("x * {}", i)).collect::<Vec<_>>().join(" + "), (0..n).map(|i| format!("(x * {})", i)).collect::<Vec<_>>().join(" + ")));
        }
        let mut np = 0u64;
        for (min_e, full_e) in &pairs {
            for ctxt in ["SELECT {} FROM t", "SELECT m FROM t WHERE {}"] {
                let (a, bq) = (ctxt.replace("{}", min_e), ctxt.replace("{}", full_e));
                np += 1;
                col.eval(2);
                col.nontrivial(h64(&("pair", &a)));
                let pa = catch(|| sqlgrep::parsing::parse(&a).map(|s| format!("{:?}", s)).map_err(|e| format!("{}", e)));
                let pb = catch(|| sqlgrep::parsing::parse(&bq).map(|s| format!("{:?}", s)).map_err(|e| format!("{}", e)));
                let same = matches!((&pa, &pb), (Ok(Ok(x)), Ok(Ok(y))) if x == y);
                if !same {
                    let short = |t: &str| t.chars().take(120).collect::<String>();
                    col.fail(fail(
                        format!("text-pair:{}", if min_e.len() > 200 { "long-chain" } else { min_e.as_str() }),
                        format!("{:?} and its parenthesised form {:?} do not lower to the same statement ({} / {})", short(&a), short(&bq), match &pa { Ok(Ok(_)) => "parses".to_string(), Ok(Err(e)) => format!("rejected: {}", e), Err(p) => format!("panic: {}", p.msg) }, match &pb { Ok(Ok(_)) => "parses".to_string(), Ok(Err(e)) => format!("rejected: {}", e), Err(p) => format!("panic: {}", p.msg) }),
                        json!({"layer": "text-pair", "minimal": short(&a), "parenthesised": short(&bq), "length": a.len()}),
                        json!("the same statement"),
                        json!("differs"),
                        a.len() as u64,
                    ));
                }
            }
        }
        col.layer("text pairs (IS with an expression operand; long flat chains fully parenthesised)", np, true, json!({"pairs": pairs.len(), "chain_terms": [70, 300, 1000]}));
    }
    col.layer("expression trees", done, complete, json!({"trees": total, "three_operator_trees": ctx.tier == Tier::Thorough}));
    finish(
        ctx,
        &col,
        Finish {
            level: "exploration",
            rule: "all two-operator expression trees over the 12 binary operators (both shapes), every binary operator combined with NOT / unary minus / negative literals / :: / [ ] / IS NULL / IN / CASE on either side, stacked unary/postfix forms, and (thorough) all three-binary-operator trees in 5 shapes; each rendered with minimal parentheses under the reference grammar and fully parenthesised; oracle: identical lowered statement (Debug, same build) + reference evaluation on 7 distinguishing rows for type-correct trees. Non-trivial: minimal and full renderings differ.".into(),
            exhaustive: true,
            assumptions: vec!["reference grammar levels as listed in property C13".into()],
            bounds: json!({"operators": 12, "trees": total}),
        },
    )
}

pub fn replay(case: &J) -> Vec<Failure> {
    if case["layer"].as_str() == Some("text-pair") {
        println!("note: text-pair cases are replayed by re-running `./check C13 quick`");
        return vec![];
    }
    let tables = sut::make_tables(DEF).unwrap();
    let min = case["minimal"].as_str().unwrap_or("");
    for (e, typed) in trees(true) {
        if format!("SELECT {} FROM t", e.min()) == min {
            return judge(&tables, &e, typed, 0).0;
        }
    }
    vec![]
}
