//! C04 — GROUP BY: one row per group, every aggregate computed from that group's rows.
//!
//! Enumerated: all ordered select lists of <= 2 items (thorough: 3 on a reduced item set) from ~27 key / aggregate items
//! x GROUP BY {none, k, (k, g)} x WHERE variants x HAVING variants x all line sequences up to 3 (4) over a 6-line
//! alphabet that forces all-NULL groups, single-row groups, NULL keys and non-extreme first values.
//! Oracle: reference group-by computed from the full list of group rows (independent of the implementation).

use std::cmp::Ordering;

use serde_json::{json, Value as J};

use sqlgrep::data_model::Tables;

use crate::checks::fail;
use crate::core::*;
use crate::refmodel::expr::{parse_ts, Row};
use crate::refmodel::{ref_cmp, ref_eq};
use crate::sut::{self, rows_json, Outcome, RVal};

pub const DEF: &str = "CREATE TABLE t({ .m } => m TEXT, { .k } => k TEXT, { .g } => g INT, { .v } => v INT, { .r } => r REAL, { .s } => s TEXT, { .b } => b BOOLEAN, { .ts } => ts TIMESTAMP CONVERT);";

const T1: &str = "2021-01-01 00:00:01";
const T2: &str = "2021-01-01 00:00:02";
const T3: &str = "2021-01-01 00:00:03";

pub fn lines() -> Vec<(String, Row)> {
    let mk = |k: Option<&str>, g: Option<i64>, v: Option<i64>, r: Option<f64>, s: Option<&str>, b: Option<bool>, ts: Option<&str>| {
        let mut parts = vec!["\"m\":\"m\"".to_string()];
        let mut row = Row::new();
        row.insert("m".into(), RVal::Text("m".into()));
        macro_rules! put {
            ($name:expr, $val:expr, $json:expr, $rv:expr) => {
                match $val {
                    Some(x) => {
                        parts.push(format!("\"{}\":{}", $name, $json(x)));
                        row.insert($name.into(), $rv(x));
                    }
                    None => {
                        row.insert($name.into(), RVal::Null);
                    }
                }
            };
        }
        put!("k", k, |x: &str| format!("{:?}", x), |x: &str| RVal::Text(x.to_string()));
        put!("g", g, |x: i64| x.to_string(), RVal::Int);
        put!("v", v, |x: i64| x.to_string(), RVal::Int);
        put!("r", r, |x: f64| format!("{:?}", x), RVal::Real);
        // computed aggregate arguments (the same f64 product the engine forms)
        row.insert("r*0.001".into(), r.map(|x| RVal::Real(x * 0.001)).unwrap_or(RVal::Null));
        row.insert("r*0.004".into(), r.map(|x| RVal::Real(x * 0.004)).unwrap_or(RVal::Null));
        put!("s", s, |x: &str| format!("{:?}", x), |x: &str| RVal::Text(x.to_string()));
        put!("b", b, |x: bool| x.to_string(), RVal::Bool);
        put!("ts", ts, |x: &str| format!("{:?}", x), |x: &str| RVal::Ts(parse_ts(x).unwrap()));
        (format!("{{{}}}", parts.join(",")), row)
    };
    vec![
        mk(Some("a"), Some(1), Some(2), Some(1.5), Some("mm"), Some(true), Some(T2)),
        mk(Some("a"), Some(1), Some(1), Some(2.5), Some("aa"), Some(false), Some(T1)),
        mk(Some("a"), Some(2), Some(3), Some(0.5), Some("zz"), Some(true), Some(T3)),
        mk(Some("b"), Some(1), None, None, None, None, None),
        mk(None, Some(2), Some(5), Some(-1.0), Some("b"), Some(false), None),
        mk(Some("b"), Some(1), Some(2), None, Some("q"), None, None),
    ]
}

#[derive(Clone)]
pub struct Item {
    pub text: &'static str,
    /// aggregate kind for classification ("key" for group keys)
    pub kind: &'static str,
    pub arg: &'static str,
    /// true when the implementation is known to create no per-group entry for all-NULL input (group may vanish)
    pub entryless: bool,
}

pub fn items() -> Vec<Item> {
    let it = |text, kind, arg, entryless| Item { text, kind, arg, entryless };
    vec![
        it("k", "key", "k", false),
        it("g", "key", "g", false),
        it("upper(k)", "key", "k", false),
        it("COUNT(*)", "COUNT(*)", "", false),
        it("COUNT(v)", "COUNT", "v", true),
        it("COUNT(DISTINCT v)", "COUNT_DISTINCT", "v", true),
        it("COUNT(DISTINCT s)", "COUNT_DISTINCT", "s", true),
        it("SUM(v)", "SUM", "v", false),
        it("SUM(r)", "SUM", "r", false),
        it("MIN(v)", "MIN", "v", false),
        it("MAX(v)", "MAX", "v", false),
        it("MIN(r)", "MIN", "r", false),
        it("MAX(s)", "MAX", "s", false),
        it("MIN(s)", "MIN", "s", false),
        it("MIN(ts)", "MIN", "ts", false),
        it("MAX(ts)", "MAX", "ts", false),
        it("AVG(v)", "AVG", "v", false),
        it("AVG(r)", "AVG", "r", false),
        it("STDDEV(v)", "STDDEV", "v", false),
        it("VARIANCE(r)", "VARIANCE", "r", false),
        it("PERCENTILE(v, 0.0)", "PERCENTILE0.0", "v", false),
        it("PERCENTILE(v, 0.5)", "PERCENTILE0.5", "v", false),
        it("PERCENTILE(v, 1.0)", "PERCENTILE1.0", "v", false),
        it("BOOL_AND(b)", "BOOL_AND", "b", false),
        it("BOOL_OR(b)", "BOOL_OR", "b", false),
        it("STRING_AGG(s, ',')", "STRING_AGG", "s", false),
        it("ARRAY_AGG(v)", "ARRAY_AGG", "v", false),
        it("SUM(v) * 2", "SUM*2", "v", false),
        it("MAX(v) + 1", "MAX+1", "v", false),
        it("COUNT(v) + 100", "COUNT+100", "v", true),
        it("10 - COUNT(DISTINCT v)", "10-COUNT_DISTINCT", "v", true),
        // arguments that differ although their printed text (REAL literals with two decimals) is alike
        it("SUM(r * 0.001)", "SUM", "r*0.001", false),
        it("SUM(r * 0.004)", "SUM", "r*0.004", false),
        it("MAX(r * 0.004)", "MAX", "r*0.004", false),
        // the group key next to the aggregate in one expression (only well-formed when g is part of GROUP BY)
        it("MAX(v) + g", "MAX+g", "v", false),
        it("g + MAX(v)", "MAX+g", "v", false),
        it("SUM(v) * 10 + g", "SUM*10+g", "v", false),
        it("COUNT(v) + g", "COUNT+g", "v", true),
        // a prefix operator directly around the aggregate
        it("- SUM(v)", "NEG-SUM", "v", false),
        it("NOT BOOL_OR(b)", "NOT-BOOL_OR", "b", false),
        it("100 + - MAX(v)", "100-MAX", "v", false),
        it("MIN(b)", "MIN", "b", false),
        it("MAX(b)", "MAX", "b", false),
    ]
}

#[derive(Debug, Clone)]
enum Cell {
    Val(RVal),
    Open,
}

fn nonnull<'a>(rows: &[&'a Row], col: &str) -> Vec<&'a RVal> {
    if col.is_empty() {
        return vec![];
    }
    rows.iter().map(|r| &r[col]).filter(|v| !v.is_null()).collect()
}

fn num(v: &RVal) -> f64 {
    match v {
        RVal::Int(i) => *i as f64,
        RVal::Real(r) => *r,
        _ => f64::NAN,
    }
}

fn key_value(text: &str, row: &Row) -> RVal {
    match text {
        "k" => row["k"].clone(),
        "g" => row["g"].clone(),
        "upper(k)" => match &row["k"] {
            RVal::Text(t) => RVal::Text(t.to_uppercase()),
            _ => RVal::Null, // upper(NULL): open, handled by the caller
        },
        _ => unreachable!(),
    }
}

/// reference value of one aggregate item over the rows of a group
fn agg_value(item: &Item, rows: &[&Row]) -> Cell {
    let vals = nonnull(rows, item.arg);
    let v = |x: RVal| Cell::Val(x);
    let extreme = |want: Ordering| -> Cell {
        let mut best: Option<&RVal> = None;
        for x in &vals {
            best = match best {
                None => Some(x),
                Some(b) => {
                    if ref_cmp(x, b) == Some(want) {
                        Some(x)
                    } else {
                        Some(b)
                    }
                }
            };
        }
        v(best.cloned().unwrap_or(RVal::Null))
    };
    let sum = || -> Cell {
        if vals.is_empty() {
            return v(RVal::Null);
        }
        match vals[0] {
            RVal::Int(_) => {
                let mut acc: i64 = 0;
                for x in &vals {
                    if let RVal::Int(i) = x {
                        match acc.checked_add(*i) {
                            Some(a) => acc = a,
                            None => return Cell::Open,
                        }
                    }
                }
                v(RVal::Int(acc))
            }
            _ => v(RVal::Real(vals.iter().map(|x| num(x)).sum())),
        }
    };
    match item.kind {
        "COUNT(*)" => v(RVal::Int(rows.len() as i64)),
        "COUNT" => v(RVal::Int(vals.len() as i64)),
        "COUNT_DISTINCT" => {
            let mut d: Vec<&RVal> = Vec::new();
            for x in &vals {
                if !d.iter().any(|y| ref_eq(x, y)) {
                    d.push(x);
                }
            }
            v(RVal::Int(d.len() as i64))
        }
        "COUNT+100" => v(RVal::Int(vals.len() as i64 + 100)),
        "10-COUNT_DISTINCT" => {
            let mut d: Vec<&RVal> = Vec::new();
            for x in &vals {
                if !d.iter().any(|y| ref_eq(x, y)) {
                    d.push(x);
                }
            }
            v(RVal::Int(10 - d.len() as i64))
        }
        "SUM" => sum(),
        "SUM*2" => match sum() {
            Cell::Val(RVal::Int(i)) => v(RVal::Int(i * 2)),
            Cell::Val(RVal::Null) => v(RVal::Null),
            _ => Cell::Open,
        },
        "MIN" => extreme(Ordering::Less),
        "MAX" => extreme(Ordering::Greater),
        "MAX+g" | "SUM*10+g" | "COUNT+g" => {
            // g is part of the group key: every row of the group carries the same value
            let g = rows.first().map(|r| r["g"].clone()).unwrap_or(RVal::Null);
            let base = match item.kind {
                "MAX+g" => extreme(Ordering::Greater),
                "SUM*10+g" => match sum() {
                    Cell::Val(RVal::Int(i)) => v(RVal::Int(i * 10)),
                    other => other,
                },
                _ => v(RVal::Int(vals.len() as i64)),
            };
            match (base, g) {
                (Cell::Val(RVal::Int(a)), RVal::Int(b)) => v(RVal::Int(a + b)),
                (Cell::Val(RVal::Null), _) | (Cell::Val(_), RVal::Null) => v(RVal::Null),
                _ => Cell::Open,
            }
        }
        "NEG-SUM" => match sum() {
            Cell::Val(RVal::Int(i)) => v(RVal::Int(-i)),
            Cell::Val(RVal::Null) => v(RVal::Null),
            _ => Cell::Open,
        },
        "100-MAX" => match extreme(Ordering::Greater) {
            Cell::Val(RVal::Int(i)) => v(RVal::Int(100 - i)),
            Cell::Val(RVal::Null) => v(RVal::Null),
            _ => Cell::Open,
        },
        "NOT-BOOL_OR" => {
            if vals.is_empty() {
                Cell::Open // NOT applied to NULL is an open point
            } else {
                v(RVal::Bool(!vals.iter().any(|x| matches!(x, RVal::Bool(true)))))
            }
        }
        "MAX+1" => match extreme(Ordering::Greater) {
            Cell::Val(RVal::Int(i)) => v(RVal::Int(i + 1)),
            Cell::Val(RVal::Null) => v(RVal::Null),
            _ => Cell::Open,
        },
        "AVG" => {
            if vals.is_empty() {
                return v(RVal::Null);
            }
            match vals[0] {
                RVal::Int(_) => {
                    let s: i64 = vals.iter().map(|x| if let RVal::Int(i) = x { *i } else { 0 }).sum();
                    v(RVal::Int(s / vals.len() as i64)) // adopted: AVG keeps the argument's type (truncating)
                }
                _ => v(RVal::Real(vals.iter().map(|x| num(x)).sum::<f64>() / vals.len() as f64)),
            }
        }
        "STDDEV" | "VARIANCE" => {
            if vals.is_empty() {
                return v(RVal::Null);
            }
            let n = vals.len() as f64;
            let mean = vals.iter().map(|x| num(x)).sum::<f64>() / n;
            let var = vals.iter().map(|x| (num(x) - mean) * (num(x) - mean)).sum::<f64>() / n;
            v(RVal::Real(if item.kind == "VARIANCE" { var } else { var.sqrt() }))
        }
        "PERCENTILE0.0" | "PERCENTILE0.5" | "PERCENTILE1.0" => {
            if vals.is_empty() {
                return v(RVal::Null);
            }
            let p: f64 = item.kind["PERCENTILE".len()..].parse().unwrap();
            let mut sorted: Vec<&RVal> = vals.clone();
            sorted.sort_by(|a, b| ref_cmp(a, b).unwrap());
            let idx = ((p * sorted.len() as f64).floor() as usize).min(sorted.len() - 1);
            v(sorted[idx].clone())
        }
        "BOOL_AND" | "BOOL_OR" => {
            if vals.is_empty() {
                return v(RVal::Null);
            }
            let bs: Vec<bool> = vals.iter().map(|x| matches!(x, RVal::Bool(true))).collect();
            v(RVal::Bool(if item.kind == "BOOL_AND" { bs.iter().all(|x| *x) } else { bs.iter().any(|x| *x) }))
        }
        "STRING_AGG" => {
            if vals.is_empty() {
                return v(RVal::Null);
            }
            v(RVal::Text(vals.iter().map(|x| if let RVal::Text(t) = x { t.clone() } else { String::new() }).collect::<Vec<_>>().join(",")))
        }
        "ARRAY_AGG" => {
            // all values in arrival order; a group whose first value is NULL has no evident element type: open
            let all: Vec<RVal> = rows.iter().map(|r| r[item.arg].clone()).collect();
            if all.first().map(|x| x.is_null()).unwrap_or(true) {
                Cell::Open
            } else {
                v(RVal::Array(all))
            }
        }
        _ => unreachable!("{}", item.kind),
    }
}

pub struct Stmt {
    pub distinct: bool,
    pub items: Vec<usize>,
    pub group_by: usize, // 0 none, 1 k, 2 (k, g), 3 upper(k), 4 g
    pub filter: usize,
    pub having: usize,
}

const GROUPS: [&str; 6] = ["", "GROUP BY k", "GROUP BY k, g", "GROUP BY upper(k)", "GROUP BY g", "GROUP BY upper(k), g"];
const FILTERS: [&str; 5] = ["", "WHERE v IS NOT NULL", "WHERE g = 1", "WHERE b", "WHERE NOT b"];
const HAVINGS: [&str; 12] = ["", "HAVING COUNT(*) > 1", "HAVING k IS NOT NULL", "HAVING SUM(v) > 2", "HAVING MAX(v) = 3", "HAVING COUNT(v) = 0", "HAVING COUNT(*) > 1 AND SUM(v) > 2", "HAVING SUM(v) > 2 AND COUNT(*) > 1", "HAVING MAX(v) = 3 OR COUNT(v) = 0", "HAVING COUNT(DISTINCT v) = 1", "HAVING COUNT(DISTINCT v) < COUNT(v)", "HAVING PERCENTILE(v, 0.5) > 1"];

fn keys_of(group_by: usize) -> Vec<&'static str> {
    match group_by {
        0 => vec![],
        1 => vec!["k"],
        2 => vec!["k", "g"],
        3 => vec!["upper(k)"],
        5 => vec!["upper(k)", "g"],
        _ => vec!["g"],
    }
}

pub fn text_of(st: &Stmt) -> String {
    let its = items();
    format!("SELECT {}{} FROM t {} {} {}", if st.distinct { "DISTINCT " } else { "" }, st.items.iter().map(|i| its[*i].text).collect::<Vec<_>>().join(", "), FILTERS[st.filter], GROUPS[st.group_by], HAVINGS[st.having]).split_whitespace().collect::<Vec<_>>().join(" ")
}

/// well-formed: key items of the select list and HAVING occur in GROUP BY
pub fn well_formed(st: &Stmt) -> bool {
    let its = items();
    let keys = keys_of(st.group_by);
    for i in &st.items {
        if its[*i].kind == "key" && !keys.contains(&its[*i].text) {
            return false;
        }
    }
    if st.having == 2 && !keys.contains(&"k") {
        return false;
    }
    if st.items.iter().any(|i| its[*i].kind.ends_with("+g")) && !keys.contains(&"g") {
        return false;
    }
    if st.items.iter().all(|i| its[*i].kind == "key") {
        return false; // without an aggregate it is not an aggregate statement (unless GROUP BY) - keep it simple
    }
    true
}

struct RefGroup {
    key: Vec<RVal>,
    cells: Vec<Cell>,
    entryless_all_null: bool,
}

/// reference result: Some(groups) or None when the outcome is open for the whole statement (e.g. upper(NULL) key)
fn reference(st: &Stmt, input: &[&Row]) -> Option<Vec<RefGroup>> {
    let its = items();
    let rows: Vec<&Row> = input
        .iter()
        .filter(|r| match st.filter {
            0 => true,
            1 => !r["v"].is_null(),
            2 => matches!(r["g"], RVal::Int(1)),
            // a condition that is NULL on a row does not let the row pass
            3 => matches!(r["b"], RVal::Bool(true)),
            _ => matches!(r["b"], RVal::Bool(false)),
        })
        .cloned()
        .collect();
    let keys = keys_of(st.group_by);
    if keys.contains(&"upper(k)") && rows.iter().any(|r| r["k"].is_null()) {
        return None; // upper(NULL) is open
    }
    let mut groups: Vec<(Vec<RVal>, Vec<&Row>)> = Vec::new();
    for r in &rows {
        let key: Vec<RVal> = keys.iter().map(|k| key_value(k, r)).collect();
        match groups.iter_mut().find(|(k, _)| k.len() == key.len() && k.iter().zip(&key).all(|(a, b)| ref_eq(a, b))) {
            Some((_, v)) => v.push(r),
            None => groups.push((key, vec![r])),
        }
    }
    groups.sort_by(|a, b| {
        for (x, y) in a.0.iter().zip(&b.0) {
            match ref_cmp(x, y).unwrap() {
                Ordering::Equal => {}
                o => return o,
            }
        }
        Ordering::Equal
    });
    let mut out = Vec::new();
    for (key, grows) in groups {
        // HAVING
        let keep = match st.having {
            0 => Some(true),
            1 => Some(grows.len() > 1),
            2 => Some(!key[keys.iter().position(|k| *k == "k").unwrap()].is_null()),
            3 => match agg_value(&its[7], &grows) {
                Cell::Val(RVal::Int(s)) => Some(s > 2),
                Cell::Val(RVal::Null) => Some(false),
                _ => None,
            },
            4 => match agg_value(&its[10], &grows) {
                Cell::Val(RVal::Int(m)) => Some(m == 3),
                Cell::Val(RVal::Null) => Some(false),
                _ => None,
            },
            5 => Some(nonnull(&grows, "v").is_empty()),
            6 | 7 => match agg_value(&its[7], &grows) {
                Cell::Val(RVal::Int(s)) => Some(grows.len() > 1 && s > 2),
                Cell::Val(RVal::Null) => Some(false),
                _ => None,
            },
            8 => match agg_value(&its[10], &grows) {
                Cell::Val(RVal::Int(m)) => Some(m == 3 || nonnull(&grows, "v").is_empty()),
                Cell::Val(RVal::Null) => Some(nonnull(&grows, "v").is_empty()),
                _ => None,
            },
            11 => match agg_value(&its[21], &grows) {
                // PERCENTILE(v, 0.5) (item 21) used only in HAVING
                Cell::Val(RVal::Int(m)) => Some(m > 1),
                Cell::Val(RVal::Null) => Some(false),
                _ => None,
            },
            _ => {
                let vals = nonnull(&grows, "v");
                let mut d: Vec<&RVal> = Vec::new();
                for x in &vals {
                    if !d.iter().any(|y| ref_eq(x, y)) {
                        d.push(x);
                    }
                }
                Some(if st.having == 9 { d.len() == 1 } else { d.len() < vals.len() })
            }
        };
        let keep = keep?;
        if !keep {
            continue;
        }
        let mut cells = Vec::new();
        let mut all_entryless = true;
        let mut any_agg = false;
        for i in &st.items {
            let it = &its[*i];
            if it.kind == "key" {
                let pos = keys.iter().position(|k| *k == it.text).unwrap();
                cells.push(Cell::Val(key[pos].clone()));
            } else {
                any_agg = true;
                if !(it.entryless && nonnull(&grows, it.arg).is_empty()) {
                    all_entryless = false;
                }
                cells.push(agg_value(it, &grows));
            }
        }
        // HAVING aggregates also create entries
        let having_entry = match st.having {
            1 | 6 | 7 | 8 => true,                     // COUNT(*) / SUM / MAX are present
            3 | 4 | 11 => true,                        // SUM / MAX / PERCENTILE create NULL entries
            5 | 9 | 10 => !nonnull(&grows, "v").is_empty(), // COUNT(v) / COUNT(DISTINCT v)
            _ => false,
        };
        out.push(RefGroup { key, cells, entryless_all_null: any_agg && all_entryless && !having_entry });
    }
    if st.distinct {
        // DISTINCT removes duplicate rows of the result table (first occurrence kept)
        let mut kept: Vec<RefGroup> = Vec::new();
        for g in out {
            let row: Vec<RVal> = g.cells.iter().map(|c| if let Cell::Val(v) = c { v.clone() } else { RVal::Text("<open>".into()) }).collect();
            let dup = kept.iter().any(|k| {
                let kr: Vec<RVal> = k.cells.iter().map(|c| if let Cell::Val(v) = c { v.clone() } else { RVal::Text("<open>".into()) }).collect();
                crate::refmodel::tuple_eq(&kr, &row)
            });
            if !dup {
                kept.push(g);
            }
        }
        return Some(kept);
    }
    Some(out)
}

fn feature(st: &Stmt, input: &[&Row], gi: usize, groups: &[RefGroup]) -> String {
    let _ = (st, input);
    let g = &groups[gi];
    let mut f = Vec::new();
    if g.key.iter().any(|k| k.is_null()) {
        f.push("null-key");
    }
    if g.entryless_all_null {
        f.push("all-aggregates-without-input");
    }
    f.join("+")
}

fn judge(tables: &Tables, st: &Stmt, seq: &[u8]) -> (Vec<Failure>, bool, u64) {
    let al = lines();
    let its = items();
    let input: Vec<&Row> = seq.iter().map(|i| &al[*i as usize].1).collect();
    let text = text_of(st);
    let case = json!({"distinct": st.distinct, "items": st.items, "group_by": st.group_by, "filter": st.filter, "having": st.having, "seq": seq, "statement": text});
    let groups = match reference(st, &input) {
        Some(g) => g,
        None => return (vec![], false, 0),
    };
    let parsed = match sut::parse(&text) {
        Ok(p) => p,
        Err(e) => return (vec![fail(format!("rejected:{}", msg_class(&e)), format!("`{}` rejected: {}", text, e), case, json!("parses"), json!(e), 0)], false, 0),
    };
    let ls: Vec<&str> = seq.iter().map(|i| al[*i as usize].0.as_str()).collect();
    let got = sut::run_batch(tables, &parsed, &ls);
    let expected_rows: Vec<Vec<RVal>> = groups.iter().map(|g| g.cells.iter().map(|c| if let Cell::Val(v) = c { v.clone() } else { RVal::Text("<open>".into()) }).collect()).collect();
    // ARRAY_AGG: a group (before HAVING) whose first value is NULL has no evident element type -> open for the statement
    let array_agg_open = st.items.iter().any(|i| its[*i].kind == "ARRAY_AGG") && input.iter().any(|r| r["v"].is_null());
    let any_open = array_agg_open || groups.iter().any(|g| g.cells.iter().any(|c| matches!(c, Cell::Open)));
    let nontrivial = (groups.len() >= 2 || input.len() >= 2) && groups.iter().any(|g| g.cells.iter().any(|c| matches!(c, Cell::Val(v) if !v.is_null())));
    let okey = h64(&format!("{:?}", expected_rows));
    let rank = (seq.len() * 100 + st.items.len() * 10 + st.having) as u64;
    let mut out = Vec::new();
    match &got {
        Outcome::Panic(p) => out.push(fail(panic_signature(p), format!("`{}` over {:?} panicked: {}", text, seq, p.msg), case, rows_json(&expected_rows), json!(p.msg), rank)),
        Outcome::Err(e) => {
            if !any_open {
                out.push(fail(format!("error:{}", msg_class(e)), format!("`{}` over {:?} reported an error: {}", text, seq, e), case, rows_json(&expected_rows), json!(e), rank));
            }
        }
        Outcome::Ok(t) => {
            if t.rows.len() != groups.len() {
                // which groups are missing? match by key columns when present, else by position
                let kinds: Vec<&str> = st.items.iter().map(|i| its[*i].kind).filter(|k| *k != "key").collect();
                let dropped_entryless = groups.iter().filter(|g| g.entryless_all_null).count();
                let sig = if t.rows.len() + dropped_entryless == groups.len() && t.rows.len() < groups.len() {
                    "group-dropped:every aggregate of the statement is COUNT(col) / COUNT(DISTINCT col) without non-NULL input in that group".to_string()
                } else if t.rows.len() < groups.len() {
                    format!("group-dropped:other:{}", kinds.join("+"))
                } else {
                    format!("group-duplicated-or-extra:{}", kinds.join("+"))
                };
                out.push(fail(sig, format!("`{}` over lines {:?}: {} result rows, reference has {} groups", text, seq, t.rows.len(), groups.len()), case, rows_json(&expected_rows), t.to_json(), rank));
            } else {
                for (gi, (g, r)) in groups.iter().zip(&t.rows).enumerate() {
                    for (ci, (c, x)) in g.cells.iter().zip(r).enumerate() {
                        if let Cell::Val(v) = c {
                            if !x.close(v) {
                                let it = &its[st.items[ci]];
                                let argtype = match it.arg { "v" | "g" => "INT", "r" => "REAL", "s" | "k" => "TEXT", "b" => "BOOLEAN", "ts" => "TIMESTAMP", _ => "-" };
                                let allnull = it.kind != "key" && !it.arg.is_empty() && {
                                    let rows_in: Vec<&Row> = input.iter().cloned().collect();
                                    let _ = rows_in;
                                    v.is_null() || matches!(v, RVal::Int(0))
                                };
                                out.push(fail(
                                    format!("cell-wrong:{}:{}:{}{}", it.kind, argtype, if allnull { "group-without-input" } else { "group-with-input" }, if feature(st, &input, gi, &groups).is_empty() { String::new() } else { format!(":{}", feature(st, &input, gi, &groups)) }),
                                    format!("`{}` over lines {:?}: group {:?} column `{}` is {:?}, reference {:?}", text, seq, g.key, it.text, x, v),
                                    case.clone(),
                                    rows_json(&expected_rows),
                                    t.to_json(),
                                    rank,
                                ));
                                return (out, nontrivial, okey);
                            }
                        }
                    }
                }
            }
        }
    }
    // incremental driver (follow mode: update + result after every line on ONE engine): every shown table must equal the
    // reference over the prefix consumed so far (checked for short select lists to bound the cost)
    if out.is_empty() && st.items.len() <= 2 && !any_open && seq.len() >= 2 {
        if let Outcome::Ok(steps) = sut::run_incremental(tables, &parsed, &ls) {
            for (kq, step) in steps.iter().enumerate() {
                if let Some(t) = &step.table {
                    let pref: Vec<&Row> = input[..=kq].to_vec();
                    if let Some(pg) = reference(st, &pref) {
                        if pg.iter().any(|g| g.entryless_all_null) || pg.iter().any(|g| g.cells.iter().any(|c| matches!(c, Cell::Open))) {
                            continue;
                        }
                        let exp: Vec<Vec<RVal>> = pg.iter().map(|g| g.cells.iter().map(|c| if let Cell::Val(v) = c { v.clone() } else { RVal::Null }).collect()).collect();
                        if !sut::rows_close(&t.rows, &exp) {
                            let kinds: Vec<&str> = st.items.iter().map(|i| its[*i].kind).filter(|k| *k != "key").collect();
                            out.push(fail(
                                format!("incremental-table-wrong:{}", kinds.join("+")),
                                format!("`{}` fed line by line {:?}: table shown after line {} differs from the reference over that prefix", text, seq, kq + 1),
                                json!({"distinct": st.distinct, "items": st.items, "group_by": st.group_by, "filter": st.filter, "having": st.having, "seq": seq, "statement": text, "driver": "incremental", "k": kq + 1}),
                                rows_json(&exp),
                                t.to_json(),
                                rank,
                            ));
                            break;
                        }
                    }
                }
            }
        }
    }
    (out, nontrivial, okey)
}

fn statements(thorough: bool) -> Vec<Stmt> {
    let n = items().len();
    let mut out = Vec::new();
    let clause_sets: Vec<(usize, usize, usize)> = {
        let mut v = Vec::new();
        for g in 0..GROUPS.len() {
            for f in 0..3 {
                for h in 0..HAVINGS.len() {
                    if thorough || (f == 0 && h <= 1) || (h == 0) || (g == 1 && f == 0) || (g == 0 && f == 0 && h >= 6) {
                        v.push((g, f, h));
                    }
                }
            }
        }
        v
    };
    let its_all = items();
    for (g, f, h) in &clause_sets {
        for a in 0..n {
            // quick tier: under GROUP BY upper(k), g only the select lists that use g next to an aggregate
            let uses_g = |i: usize| its_all[i].kind.ends_with("+g");
            if !thorough && *g == 5 && !uses_g(a) {
                continue;
            }
            let s = Stmt { distinct: false, items: vec![a], group_by: *g, filter: *f, having: *h };
            if well_formed(&s) {
                out.push(s);
            }
            for bq in 0..n {
                if a == bq {
                    continue;
                }
                if !thorough && *g == 5 && ![0usize, 1, 2, 3].contains(&bq) {
                    continue;
                }
                // the wrapped counts (items 29, 30) are paired with a reduced partner set in the quick tier
                if !thorough && (a >= 29 || bq >= 29) && ![0usize, 1, 3, 7, 13].contains(&a.min(bq)) && !(a >= 31 && bq >= 31 && a < 34 && bq < 34) {
                    continue;
                }
                // quick tier: under the HAVING variants other than COUNT(*) > 1 the second item comes from a reduced set
                if !thorough && *h >= 2 && ![0usize, 3, 7, 10, 13, 23].contains(&bq) {
                    continue;
                }
                let s = Stmt { distinct: false, items: vec![a, bq], group_by: *g, filter: *f, having: *h };
                if well_formed(&s) {
                    out.push(s);
                }
            }
        }
    }
    // DISTINCT: select lists without the key (different groups produce equal rows), with and without HAVING
    for h in [0usize, 1, 3, 5, 6] {
        for g in [1usize, 2, 4] {
            for a in [3usize, 4, 7, 10, 13, 16, 23] {
                let s = Stmt { distinct: true, items: vec![a], group_by: g, filter: 0, having: h };
                if well_formed(&s) {
                    out.push(s);
                }
                for bq in [3usize, 9, 23] {
                    if a != bq {
                        let s = Stmt { distinct: true, items: vec![a, bq], group_by: g, filter: 0, having: h };
                        if well_formed(&s) {
                            out.push(s);
                        }
                    }
                }
            }
        }
    }
    // a WHERE condition that is a bare / negated BOOLEAN column (NULL on some rows): single items, and pairs with the key
    for f in [3usize, 4] {
        for g in if thorough { vec![0usize, 1, 2, 4] } else { vec![0usize, 1] } {
            for a in 0..n {
                for items in [vec![a], vec![0, a]] {
                    if items.len() == 2 && a == 0 {
                        continue;
                    }
                    let s = Stmt { distinct: false, items, group_by: g, filter: f, having: 0 };
                    if well_formed(&s) {
                        out.push(s);
                    }
                }
            }
        }
    }
    // lists of three over a reduced item set
    let reduced: Vec<usize> = vec![0, 3, 4, 7, 10, 13, 22, 23, 25, 27];
    let gsets: Vec<usize> = if thorough { vec![0, 1, 2] } else { vec![1] };
    for g in gsets {
        for a in &reduced {
            for bq in &reduced {
                for c in &reduced {
                    if a == bq || bq == c || a == c {
                        continue;
                    }
                    let s = Stmt { distinct: false, items: vec![*a, *bq, *c], group_by: g, filter: 0, having: 0 };
                    if well_formed(&s) {
                        out.push(s);
                    }
                }
            }
        }
    }
    out
}

/// the batch executor over the same lines in one file and split over two files (the first without a final line break)
/// must print the same table
fn file_split_case(tables: &Tables, st: &Stmt, seq: &[u8]) -> Vec<Failure> {
    let al = lines();
    let text = text_of(st);
    let parsed = match sut::parse(&text) {
        Ok(p) => p,
        Err(_) => return vec![],
    };
    let ls: Vec<&str> = seq.iter().map(|i| al[*i as usize].0.as_str()).collect();
    let one = sut::files_from(&ls, &[ls.len()]);
    let base = match sut::run_files(tables, &parsed, &[one[0].as_slice()], sut::FileRunOpts::default()) {
        Outcome::Ok(fr) if fr.result.is_ok() => fr.printed.clone(),
        _ => return vec![],
    };
    let mut out = Vec::new();
    for cut in 1..ls.len() {
        let two = sut::files_from(&ls, &[cut, ls.len() - cut]);
        let first = &two[0][..two[0].len() - 1];
        let got = match sut::run_files(tables, &parsed, &[first, two[1].as_slice()], sut::FileRunOpts::default()) {
            Outcome::Ok(fr) if fr.result.is_ok() => Some(fr.printed.clone()),
            _ => None,
        };
        if got.as_ref() != Some(&base) {
            out.push(fail(
                "files:table-differs-when-input-is-split".into(),
                format!("`{}`: the lines {:?} in one file print {:?}; split after line {} into two files (the first without final line break) they print {:?}", text, seq, base, cut, got),
                json!({"distinct": st.distinct, "items": st.items, "group_by": st.group_by, "filter": st.filter, "having": st.having, "seq": seq, "statement": text, "driver": "files", "cut": cut}),
                json!(base),
                json!(got),
                seq.len() as u64,
            ));
            break;
        }
    }
    out
}

/// INT values beyond 2^53 (where a detour through f64 rounds): SUM / AVG / MIN / MAX / COUNT per group against exact
/// 128-bit arithmetic, in all 24 orders of the four groups' blocks and with the lines of the groups interleaved
fn big_int_layer(col: &Collector) -> Vec<Failure> {
    let tables = sut::make_tables(DEF).unwrap();
    let groups: Vec<(&str, Vec<i64>)> = vec![
        ("a", vec![9007199254740993]),
        ("b", vec![4611686018427387903, 4611686018427387903]),
        ("c", vec![3002399751580331, 3002399751580331, 3002399751580331]),
        ("d", vec![-9007199254740993, -1]),
        ("e", vec![9223372036854775806]),
        ("f", vec![-9223372036854775807, 9223372036854775806]),
    ];
    let mut all_lines: Vec<(usize, String)> = Vec::new();
    for (gi, (k, vs)) in groups.iter().enumerate() {
        for v in vs {
            all_lines.push((gi, format!("{{\"m\":\"m\",\"k\":\"{}\",\"v\":{}}}", k, v)));
        }
    }
    let orders: Vec<Vec<usize>> = {
        let n = all_lines.len();
        let fwd: Vec<usize> = (0..n).collect();
        let rev: Vec<usize> = (0..n).rev().collect();
        let inter: Vec<usize> = (0..n).filter(|i| i % 2 == 0).chain((0..n).filter(|i| i % 2 == 1)).collect();
        let inter3: Vec<usize> = (0..3).flat_map(|r| (0..n).filter(move |i| i % 3 == r)).collect();
        vec![fwd, rev, inter, inter3]
    };
    let mut out = Vec::new();
    let stmts = [
        "SELECT k, AVG(v) AS a, SUM(v) AS s, MIN(v) AS lo, MAX(v) AS hi, COUNT(v) AS n FROM t GROUP BY k",
        "SELECT k, AVG(v) + 1 AS a, SUM(v) AS s, MIN(v) AS lo, MAX(v) AS hi, COUNT(*) AS n FROM t GROUP BY k HAVING AVG(v) <= MAX(v) AND AVG(v) >= MIN(v)",
    ];
    for (si, text) in stmts.iter().enumerate() {
        for (oi, order) in orders.iter().enumerate() {
            let lines: Vec<&str> = order.iter().map(|i| all_lines[*i].1.as_str()).collect();
            let got = sut::run_batch(&tables, &sut::parse(text).unwrap(), &lines);
            let want: Vec<Vec<RVal>> = groups
                .iter()
                .map(|(k, vs)| {
                    let sum: i128 = vs.iter().map(|x| *x as i128).sum();
                    let avg = (sum / vs.len() as i128) as i64 + if si == 1 { 1 } else { 0 };
                    vec![RVal::Text(k.to_string()), RVal::Int(avg), RVal::Int(sum as i64), RVal::Int(*vs.iter().min().unwrap()), RVal::Int(*vs.iter().max().unwrap()), RVal::Int(vs.len() as i64)]
                })
                .collect();
            let ok = matches!(&got, Outcome::Ok(t) if format!("{:?}", rows_json(&t.rows)) == format!("{:?}", rows_json(&want)));
            if !ok {
                out.push(fail(
                    format!("aggregate:big-int:{}", if si == 0 { "plain" } else { "wrapper+having" }),
                    format!("`{}` over INT values beyond 2^53 (line order {}): got {}, expected {:?}", text, oi, match &got { Outcome::Ok(t) => format!("{:?}", rows_json(&t.rows)), Outcome::Err(e) => format!("error {}", e), Outcome::Panic(p) => format!("panic {}", p.msg) }, rows_json(&want)),
                    json!({"layer": "big-int", "statement": text, "order": oi}),
                    json!(rows_json(&want)),
                    sut::outcome_json(&got, |t| t.to_json()),
                    (si * 10 + oi) as u64,
                ));
            }
        }
    }
    col.eval((stmts.len() * orders.len()) as u64);
    col.layer("INT values beyond 2^53: SUM / AVG / MIN / MAX against 128-bit arithmetic", (stmts.len() * orders.len()) as u64, true, json!({"groups": groups.len(), "orders": orders.len()}));
    out
}

/// PERCENTILE over groups of 7 / 200 / 1000 values (INT and TEXT arguments) for fractions that are no whole percent:
/// the element at index floor(p * n) of the sorted values (n - 1 for p = 1)
fn percentile_layer(col: &Collector) -> Vec<Failure> {
    let tables = sut::make_tables(DEF).unwrap();
    let mut out = Vec::new();
    let mut n_cases = 0u64;
    for n in [7usize, 200, 1000] {
        // a fixed permutation of 0..n
        let vals: Vec<i64> = (0..n).map(|i| ((i * 7919 + 13) % n) as i64).collect();
        let mut seen = vals.clone();
        seen.sort();
        seen.dedup();
        assert_eq!(seen.len(), n);
        let lines: Vec<String> = vals.iter().map(|v| format!("{{\"m\":\"m\",\"k\":\"{}\",\"v\":{},\"s\":\"s{:04}\"}}", if v % 2 == 0 { "e" } else { "o" }, v, v)).collect();
        let lrefs: Vec<&str> = lines.iter().map(|s| s.as_str()).collect();
        for p in ["0.001", "0.005", "0.125", "0.3333", "0.5", "0.995", "0.999", "1.0", "0.0"] {
            let pf: f64 = p.parse().unwrap();
            let idx = |len: usize| -> usize { (((pf * len as f64).floor()) as usize).min(len - 1) };
            for (text, want) in [
                (format!("SELECT PERCENTILE(v, {}) FROM t", p), vec![vec![RVal::Int(idx(n) as i64)]]),
                (format!("SELECT PERCENTILE(s, {}) FROM t", p), vec![vec![RVal::Text(format!("s{:04}", idx(n)))]]),
                (format!("SELECT k, PERCENTILE(v, {}) FROM t GROUP BY k", p), {
                    let ev: Vec<i64> = (0..n as i64).filter(|v| v % 2 == 0).collect();
                    let od: Vec<i64> = (0..n as i64).filter(|v| v % 2 == 1).collect();
                    vec![vec![RVal::Text("e".into()), RVal::Int(ev[idx(ev.len())])], vec![RVal::Text("o".into()), RVal::Int(od[idx(od.len())])]]
                }),
                (format!("SELECT COUNT(*) FROM t HAVING PERCENTILE(v, {}) = {}", p, idx(n)), vec![vec![RVal::Int(n as i64)]]),
            ] {
                n_cases += 1;
                let got = sut::run_batch(&tables, &sut::parse(&text).unwrap(), &lrefs);
                let ok = matches!(&got, Outcome::Ok(t) if format!("{:?}", rows_json(&t.rows)) == format!("{:?}", rows_json(&want)));
                if !ok {
                    out.push(fail(
                        format!("aggregate:percentile-large-group:{}", if text.contains("HAVING") { "having" } else if text.contains("(s,") { "text" } else { "int" }),
                        format!("`{}` over {} values (a permutation of 0..{}): got {}, expected {:?}", text, n, n, match &got { Outcome::Ok(t) => format!("{:?}", rows_json(&t.rows)), Outcome::Err(e) => format!("error {}", e), Outcome::Panic(p) => format!("panic {}", p.msg) }, rows_json(&want)),
                        json!({"layer": "percentile", "statement": text, "n": n}),
                        json!(rows_json(&want)),
                        sut::outcome_json(&got, |t| t.to_json()),
                        n_cases,
                    ));
                }
            }
        }
    }
    col.eval(n_cases);
    col.layer("PERCENTILE over groups of 7 / 200 / 1000 values, fractions that are no whole percent", n_cases, true, json!({"fractions": 9}));
    out
}

pub fn run(ctx: &Ctx) -> i32 {
    let col = Collector::new();
    for f in big_int_layer(&col) {
        col.fail(f);
    }
    for f in percentile_layer(&col) {
        col.fail(f);
    }
    let tables = sut::make_tables(DEF).unwrap();
    let stmts = statements(ctx.tier == Tier::Thorough);
    let maxlen = ctx.tier.pick(3, 4) as u32;
    let k = lines().len() as u64;
    let nseq = seq_count(k, maxlen);
    let nst = stmts.len() as u64;
    // the statement list is walked with a stride coprime to its length: when the wall-clock budget cuts the walk
    // short (a loaded machine) the part covered is spread over all statement shapes instead of being a prefix
    let stride = [7919u64, 7907, 104729, 1].into_iter().find(|p| nst % p != 0 && *p < nst.max(2)).unwrap_or(1);
    let (done, complete) = par_for_budget(ctx, nst, 1, |si| {
        let si = (si * stride) % nst;
        let st = &stmts[si as usize];
        for idx in 0..nseq {
            let seq = seq_decode(idx, k, maxlen);
            let (fs, nt, okey) = judge(&tables, st, &seq);
            col.eval(1);
            if st.items.len() == 1 && st.group_by == 1 && st.filter == 0 && st.having == 0 && !st.distinct && seq.len() >= 2 {
                col.eval(seq.len() as u64);
                for f in file_split_case(&tables, st, &seq) {
                    col.fail(f);
                }
            }
            if nt {
                col.nontrivial(h64(&(si, idx)));
            }
            col.outcome(okey);
            for f in fs {
                col.fail(f);
            }
        }
        if si % 997 == 3 {
            col.sample(json!({"statement": text_of(st), "lines": "all sequences up to the bound over the 6-line alphabet", "alphabet": lines().iter().map(|l| l.0.clone()).collect::<Vec<_>>()}));
        }
    });
    // aggregate statements through every driver
    {
        let al = lines();
        let input: Vec<String> = [0usize, 1, 3, 2, 4, 5, 1].iter().map(|i| al[*i].0.clone()).collect();
        let mut cases: Vec<(String, String, Vec<String>, bool)> = Vec::new();
        for (i, st) in stmts.iter().enumerate().filter(|(_, s)| s.items.len() <= 2 && s.filter == 0 && (s.having == 0 || s.items.len() == 1)).step_by(if ctx.tier == Tier::Thorough { 7 } else { 41 }) {
            cases.push((DEF.to_string(), text_of(st), input.clone(), i % 3 == 0));
        }
        crate::drivers::run_layer(&col, &cases, &|_| "aggregate".to_string());
    }
    col.layer("statements x line sequences", done * nseq, complete, json!({"statements": nst, "line_sequences": nseq, "max_len": maxlen, "items": items().iter().map(|i| i.text).collect::<Vec<_>>()}));
    finish(
        ctx,
        &col,
        Finish {
            level: "exploration",
            rule: "all ordered select lists of 1-2 items (3 over a reduced item set) from 29 key/aggregate items x GROUP BY / WHERE / HAVING variants (well-formed only) x all line sequences up to the bound over a 6-line alphabet (all-NULL groups, NULL key, single-row groups, non-extreme first values); oracle: reference group-by from the full row list per key (group set and order, every cell, HAVING selection). Non-trivial: >= 2 groups or >= 2 rows and at least one non-NULL aggregate cell.".into(),
            exhaustive: true,
            assumptions: vec!["AVG of INT truncates, STDDEV/VARIANCE are population formulas (adopted from README/tests)".into(), "REAL cells compared with relative tolerance 1e-9".into(), "ARRAY_AGG of a group whose first value is NULL is open".into()],
            bounds: json!({"max_lines": maxlen, "statements": nst}),
        },
    )
}

pub fn replay(case: &J) -> Vec<Failure> {
    if case["layer"].as_str() == Some("percentile") {
        return percentile_layer(&Collector::new()).into_iter().filter(|f| f.case == *case).collect();
    }
    if case["layer"].as_str() == Some("big-int") {
        return big_int_layer(&Collector::new()).into_iter().filter(|f| f.case == *case).collect();
    }
    let tables = sut::make_tables(DEF).unwrap();
    let st = Stmt { distinct: case["distinct"].as_bool().unwrap_or(false), items: case["items"].as_array().unwrap().iter().map(|x| x.as_u64().unwrap() as usize).collect(), group_by: case["group_by"].as_u64().unwrap() as usize, filter: case["filter"].as_u64().unwrap() as usize, having: case["having"].as_u64().unwrap() as usize };
    let seq: Vec<u8> = case["seq"].as_array().unwrap().iter().map(|x| x.as_u64().unwrap() as u8).collect();
    if case["driver"].as_str() == Some("files") {
        return file_split_case(&tables, &st, &seq);
    }
    judge(&tables, &st, &seq).0
}
