//! C07 — LIMIT n outputs exactly the first n rows of the unlimited result, consumes no more input than needed.
//!
//! State machine view: events = lines delivered by FileExecutor across files. Explored: statements x all line
//! sequences up to a bound x every split into 1..3 files (empty files included) x n in 0..rows+2.
//! Oracle (metamorphic, same build): printed(LIMIT n) == first n printed records of the unlimited run over the same
//! files; lines consumed == position of the line that produced the n-th row (non-aggregate), all lines (aggregate).

use serde_json::{json, Value as J};

use sqlgrep::data_model::Tables;

use crate::checks::fail;
use crate::core::*;
use crate::gen::*;
use crate::sut::{self, FileRunOpts, Outcome};

struct World {
    tables: Tables,
    joined_path: String,
    stmts: Vec<(String, &'static str)>,
    _tmp: sut::TempFiles,
}

fn world() -> World {
    let tables = sut::make_tables(&format!("{}\n{}", JDEF, JDEF_U)).expect("defs");
    let joined = "{\"k\":\"a\",\"y\":1,\"w\":\"p\"}\n{\"k\":\"a\",\"y\":2,\"w\":\"p\"}\nnoise\n{\"k\":\"b\",\"y\":3,\"w\":\"q\"}\n{\"k\":\"a\",\"y\":4,\"w\":\"q\"}\n{\"y\":9}\n";
    let tmp = sut::TempFiles::new(&[joined.as_bytes()]);
    let jp = tmp.paths[0].clone();
    let mut stmts: Vec<(String, &'static str)> = Vec::new();
    for s in select_corpus() {
        let kind = if s.contains("DISTINCT") { "distinct" } else if s.contains("SELECT u ") { "nullrows" } else { "select" };
        stmts.push((s.to_string(), kind));
    }
    stmts.push((format!("SELECT t.k, v, y FROM t INNER JOIN u::'{}' ON t.k = u.k", jp), "join"));
    stmts.push((format!("SELECT DISTINCT t.k, y FROM t INNER JOIN u::'{}' ON t.k = u.k", jp), "join"));
    stmts.push((format!("SELECT t.k, y FROM t OUTER JOIN u::'{}' ON t.k = u.k WHERE v > 1", jp), "join"));
    stmts.push((format!("SELECT t.k, y FROM t INNER JOIN u::'{}' ON t.k = u.k WHERE y > 1", jp), "join"));
    stmts.push((format!("SELECT DISTINCT t.k, v FROM t INNER JOIN u::'{}' ON t.k = u.k", jp), "join"));
    stmts.push((format!("SELECT DISTINCT w FROM t INNER JOIN u::'{}' ON t.k = u.k WHERE y != 2", jp), "join"));
    for s in ["SELECT k, SUM(v) FROM t GROUP BY k HAVING COUNT(*) > 1", "SELECT k, COUNT(*) FROM t GROUP BY k HAVING MAX(v) < 3", "SELECT DISTINCT COUNT(*) FROM t GROUP BY k", "SELECT DISTINCT MAX(v) FROM t GROUP BY k HAVING k IS NOT NULL", "SELECT k, COUNT(*) FROM t GROUP BY k", "SELECT COUNT(*), SUM(v) FROM t", "SELECT k, SUM(v) FROM t GROUP BY k HAVING COUNT(*) > 0", "SELECT v, COUNT(*) FROM t GROUP BY v"] {
        stmts.push((s.to_string(), "aggregate"));
    }
    stmts.push((format!("SELECT t.k, COUNT(*), SUM(y) FROM t INNER JOIN u::'{}' ON t.k = u.k GROUP BY t.k", jp), "aggregate"));
    World { tables, joined_path: jp, stmts, _tmp: tmp }
}

fn strip_blank(v: &[String]) -> Vec<String> {
    v.iter().filter(|l| !l.is_empty()).cloned().collect()
}

/// one (statement, lines, split): all n. Returns failures + number of nontrivial n values
fn run_group(w: &World, si: usize, seq: &[u8], parts: &[usize], only_n: Option<usize>) -> (Vec<Failure>, u64, u64) {
    let alpha = jlines();
    let lines: Vec<&str> = seq.iter().map(|i| alpha[*i as usize]).collect();
    let (stmt_text, kind) = &w.stmts[si];
    let files = sut::files_from(&lines, parts);
    let frefs: Vec<&[u8]> = files.iter().map(|f| f.as_slice()).collect();
    let base_stmt = sut::parse(stmt_text).expect(stmt_text);
    let is_agg = base_stmt.is_aggregate();
    let mut out = Vec::new();
    let mut evals = 1u64;
    let mut nontrivial = 0u64;
    let unlimited = sut::run_files(&w.tables, &base_stmt, &frefs, FileRunOpts::default());
    let unl = match &unlimited {
        Outcome::Ok(fr) if fr.result.is_ok() => fr.clone(),
        _ => return (out, evals, 0), // the unlimited run itself failing is C03/C09's business
    };
    let full = strip_blank(&unl.printed);
    let per_line = if is_agg { None } else { sut::rows_per_line(&w.tables, &base_stmt, &lines).ok().cloned() };
    let ns: Vec<usize> = match only_n {
        Some(n) => vec![n],
        None => (0..=full.len() + 2).collect(),
    };
    for n in ns {
        evals += 1;
        let text = format!("{} LIMIT {}", stmt_text, n);
        let st = sut::parse(&text).expect(&text);
        let lim = sut::run_files(&w.tables, &st, &frefs, FileRunOpts::default());
        let expected_rows: Vec<String> = full.iter().take(n).cloned().collect();
        let expected_consumed: u64 = if is_agg {
            lines.len() as u64
        } else if n == 0 {
            0
        } else {
            let pl = per_line.as_ref().unwrap();
            let mut cum = 0;
            let mut p = lines.len();
            for (i, c) in pl.iter().enumerate() {
                cum += c;
                if cum >= n {
                    p = i + 1;
                    break;
                }
            }
            p as u64
        };
        let boundary_before_nth = parts.len() > 1 && expected_consumed as usize > parts[0];
        if (n > 0 && n < full.len()) || (n == 0 && !full.is_empty()) || (boundary_before_nth && n <= full.len()) {
            nontrivial += 1;
        }
        let case = json!({"stmt": si, "statement": text, "seq": seq, "lines": lines, "parts": parts, "n": n, "joined_file_content": "see c07.rs world()"});
        let mut dev: Option<(&str, String)> = None;
        match &lim {
            Outcome::Panic(p) => dev = Some(("panic", p.msg.clone())),
            Outcome::Ok(fr) => {
                let got = strip_blank(&fr.printed);
                if let Err(e) = &fr.result {
                    dev = Some(("error", e.clone()));
                } else if got != expected_rows {
                    let d = if got.len() > expected_rows.len() && got[..expected_rows.len()] == expected_rows[..] {
                        "extra-rows"
                    } else if got.len() < expected_rows.len() && expected_rows[..got.len()] == got[..] {
                        "missing-rows"
                    } else {
                        "wrong-rows"
                    };
                    dev = Some((d, format!("printed {} records, expected the first {} of {}", got.len(), expected_rows.len(), full.len())));
                } else if fr.total_lines > expected_consumed {
                    dev = Some(("over-consumed", format!("consumed {} lines, expected {}", fr.total_lines, expected_consumed)));
                } else if fr.total_lines < expected_consumed {
                    dev = Some(("under-consumed", format!("consumed {} lines, expected {}", fr.total_lines, expected_consumed)));
                }
            }
            Outcome::Err(e) => dev = Some(("error", e.clone())),
        }
        // the same run with printing switched off (DisplayOptions::print_result = false) consumes the same lines
        if dev.is_none() && parts.len() == 1 && !is_agg {
            evals += 1;
            if let Outcome::Ok(fr) = sut::run_files(&w.tables, &st, &frefs, FileRunOpts { print_result: false, ..Default::default() }) {
                if fr.result.is_ok() && fr.total_lines != expected_consumed {
                    dev = Some(("consumption-differs-without-printing", format!("with printing off {} lines are consumed, expected {}", fr.total_lines, expected_consumed)));
                }
            }
        }
        if let Some((d, msg)) = dev {
            // reducer: does the deviation need several files?
            let mut multifile = false;
            if parts.len() > 1 && only_n.is_none() {
                let (single, _, _) = run_group(w, si, seq, &[seq.len()], Some(n));
                multifile = single.is_empty();
            }
            let sig = format!("limit:{}:{}{}{}", kind, d, if n == 0 { ":n=0" } else { "" }, if multifile { ":multifile" } else { "" });
            out.push(fail(
                sig,
                format!("`{}` over {} file(s) {:?}: {}", text, parts.len(), parts, msg),
                case,
                json!({"printed": expected_rows, "total_lines": expected_consumed}),
                sut::outcome_json(&lim, |f| f.to_json()),
                (seq.len() * 1000 + parts.len() * 100 + n) as u64,
            ));
        }
    }
    (out, evals, nontrivial)
}

/// the same law in CSV and text format (one file): the limited output is the header (CSV) plus the first n records of
/// the unlimited output in that format
fn format_group(w: &World, si: usize, seq: &[u8]) -> (Vec<Failure>, u64) {
    use sqlgrep::executor::OutputFormat;
    let alpha = jlines();
    let lines: Vec<&str> = seq.iter().map(|i| alpha[*i as usize]).collect();
    let (stmt_text, kind) = &w.stmts[si];
    let files = sut::files_from(&lines, &[lines.len()]);
    let base_stmt = sut::parse(stmt_text).expect(stmt_text);
    let mut out = Vec::new();
    let mut evals = 0u64;
    for (fname, fmt) in [("csv", OutputFormat::CSV(";".into())), ("text", OutputFormat::Text)] {
        let unl = match sut::run_files(&w.tables, &base_stmt, &[files[0].as_slice()], FileRunOpts { format: fmt.clone(), ..Default::default() }) {
            Outcome::Ok(fr) if fr.result.is_ok() => strip_blank(&fr.printed),
            _ => continue,
        };
        let header = if fname == "csv" && !unl.is_empty() { 1 } else { 0 };
        let records = &unl[header..];
        for n in 0..=records.len() + 1 {
            evals += 1;
            let text = format!("{} LIMIT {}", stmt_text, n);
            let st = sut::parse(&text).expect(&text);
            let got = match sut::run_files(&w.tables, &st, &[files[0].as_slice()], FileRunOpts { format: fmt.clone(), ..Default::default() }) {
                Outcome::Ok(fr) if fr.result.is_ok() => Some(strip_blank(&fr.printed)),
                _ => None,
            };
            let want: Vec<String> = records.iter().take(n).cloned().collect();
            let ok = match &got {
                Some(g) if g.is_empty() => want.is_empty(),
                Some(g) => g.len() >= header && g[..header] == unl[..header] && g[header..] == want[..],
                None => false,
            };
            if !ok {
                out.push(fail(
                    format!("limit:{}:format-{}:{}", kind, fname, if n == 0 { "n=0" } else { "records-differ" }),
                    format!("`{}` in {} format over {:?}: printed {:?}, expected the first {} records {:?}", text, fname, seq, got, n, want),
                    json!({"stmt": si, "statement": text, "seq": seq, "lines": lines, "parts": [seq.len()], "n": n, "format": fname}),
                    json!(want),
                    json!(got),
                    (seq.len() * 1000 + n) as u64,
                ));
                break;
            }
        }
    }
    (out, evals)
}

const HUGE_LIMITS: [&str; 6] = ["2147483648", "4294967295", "4294967296", "1000000000000", "9223372036854775806", "9223372036854775807"];

/// LIMIT values far beyond any input, in child processes with a memory limit: the output is the unlimited output
fn huge_limit_layer(w: &World, col: &Collector) {
    let lines: Vec<&str> = jlines();
    let input = format!("{}\n", lines.join("\n"));
    let defs = format!("{}\n{}", JDEF, JDEF_U);
    let mut n = 0u64;
    for (si, (stmt_text, kind)) in w.stmts.iter().enumerate() {
        let base_stmt = sut::parse(stmt_text).expect(stmt_text);
        let unl = match sut::run_files(&w.tables, &base_stmt, &[input.as_bytes()], FileRunOpts::default()) {
            Outcome::Ok(fr) if fr.result.is_ok() => strip_blank(&fr.printed),
            _ => continue,
        };
        for lim in HUGE_LIMITS {
            let text = format!("{} LIMIT {}", stmt_text, lim);
            n += 1;
            col.eval(1);
            col.nontrivial(h64(&("huge-limit", si, lim)));
            let r = sut::run_stmt_child(&defs, &text, "json", &[Some(input.as_bytes())], 30);
            let dev = match &r {
                sut::ChildOut::Done(j) if j["outcome"] == "ok" && j["run"]["result"] == "ok" => {
                    let got: Vec<String> = j["run"]["printed"].as_array().map(|a| a.iter().filter_map(|x| x.as_str()).filter(|l| !l.is_empty()).map(|l| l.to_string()).collect()).unwrap_or_default();
                    if got == unl { None } else { Some("output-differs".to_string()) }
                }
                sut::ChildOut::Done(j) if j["outcome"] == "panic" => Some(format!("panic:{}", j["signature"].as_str().unwrap_or(""))),
                sut::ChildOut::Done(j) => Some(format!("{}", j["outcome"].as_str().unwrap_or("error"))),
                sut::ChildOut::Signal(_) => Some("killed-by-signal (allocation failure / abort)".to_string()),
                sut::ChildOut::Timeout => Some("no result within 30 s".to_string()),
                sut::ChildOut::Other(e) => {
                    col.machinery(format!("statement child: {}", e));
                    None
                }
            };
            if let Some(d) = dev {
                col.fail(fail(
                    format!("limit:{}:huge-n:{}", kind, d),
                    format!("`{}`: {} (the unlimited statement prints {} records)", text, d, unl.len()),
                    json!({"layer": "huge-limit", "stmt": si, "statement": text, "limit": lim}),
                    json!(unl),
                    json!(format!("{:?}", r)),
                    si as u64,
                ));
            }
        }
    }
    col.layer("LIMIT far beyond the input (child processes, 6 GiB address space)", n, true, json!({"limits": HUGE_LIMITS}));
}

/// a pipe whose writer stays open: only the lines up to the one that produces the n-th row are written; the executor
/// must end without waiting for more input. Returns (finished in time, printed records)
fn pipe_case(w: &World, text: &str, lines: &[&str], upto: usize) -> (bool, Option<Vec<String>>) {
    use std::io::Write;
    use std::os::fd::FromRawFd;
    let st = match sut::parse(text) {
        Ok(s) => s,
        Err(_) => return (true, None),
    };
    let mut fds = [0i32; 2];
    if unsafe { libc::pipe(fds.as_mut_ptr()) } != 0 {
        return (true, None);
    }
    let reader = unsafe { std::fs::File::from_raw_fd(fds[0]) };
    let mut writer = unsafe { std::fs::File::from_raw_fd(fds[1]) };
    let data: String = lines[..upto].iter().map(|l| format!("{}\n", l)).collect();
    let _ = writer.write_all(data.as_bytes());
    let (tx, rx) = std::sync::mpsc::channel();
    let result = std::thread::scope(|s| {
        s.spawn(|| {
            let r = sut::run_opened_files(&w.tables, &st, vec![reader], FileRunOpts::default());
            let _ = tx.send(match r {
                Outcome::Ok(fr) if fr.result.is_ok() => Some(strip_blank(&fr.printed)),
                _ => None,
            });
        });
        let first = rx.recv_timeout(std::time::Duration::from_secs(5));
        // let the executor end in any case: close the pipe
        drop(writer);
        match first {
            Ok(r) => (true, r),
            Err(_) => (false, rx.recv_timeout(std::time::Duration::from_secs(30)).ok().flatten()),
        }
    });
    result
}

/// the command line program reading standard input (`--stdin`) from a pipe whose writer stays: `LIMIT n` prints its n rows
/// and ends although no end of input ever comes; synchronised on the pipe being drained / the process ending, 10 s bound
fn cli_stdin_limit_case(n: usize, lines: usize) -> Result<Option<(Vec<String>, bool)>, String> {
    use std::io::{Read, Write};
    let bin = format!("{}/target/cli/release/sqlgrep", verif_dir());
    if !std::path::Path::new(&bin).exists() {
        return Ok(None);
    }
    static CNT: std::sync::atomic::AtomicU64 = std::sync::atomic::AtomicU64::new(0);
    let defp = format!("{}/c07_cli_def_{}_{}.txt", sut::tmp_dir(), std::process::id(), CNT.fetch_add(1, std::sync::atomic::Ordering::Relaxed));
    std::fs::write(&defp, "CREATE TABLE t('k=([a-z]+)' => k TEXT, 'v=([0-9]+)' => v INT);").map_err(|e| e.to_string())?;
    let stmt = format!("SELECT v FROM t LIMIT {}", n);
    let mut child = std::process::Command::new(&bin).args(["-d", &defp, "--stdin", "--format", "json", "-c", &stmt]).stdin(std::process::Stdio::piped()).stdout(std::process::Stdio::piped()).stderr(std::process::Stdio::null()).spawn().map_err(|e| e.to_string())?;
    let mut stdin = child.stdin.take().unwrap();
    let data: String = (1..=lines).map(|i| format!("k=a v={}\n", i)).collect();
    stdin.write_all(data.as_bytes()).map_err(|e| e.to_string())?;
    let _ = stdin.flush();
    // the writer stays: the program has to end by itself
    let t0 = std::time::Instant::now();
    let mut ended = false;
    while t0.elapsed().as_secs() < 10 {
        if let Ok(Some(_)) = child.try_wait() {
            ended = true;
            break;
        }
        std::thread::sleep(std::time::Duration::from_millis(5));
    }
    if !ended {
        let _ = child.kill();
    }
    drop(stdin);
    let mut out = String::new();
    if let Some(mut so) = child.stdout.take() {
        let _ = so.read_to_string(&mut out);
    }
    let _ = child.wait();
    std::fs::remove_file(&defp).ok();
    Ok(Some((out.lines().filter(|l| !l.is_empty()).map(|l| l.replace(' ', "")).collect(), ended)))
}

fn cli_stdin_limit_layer(col: &Collector) -> Vec<Failure> {
    let cases: Vec<(usize, usize)> = vec![(0, 4), (1, 4), (3, 4), (4, 4), (2, 40)];
    let results: std::sync::Mutex<Vec<Failure>> = std::sync::Mutex::new(Vec::new());
    let missing = std::sync::atomic::AtomicBool::new(false);
    par_for(cases.len() as u64, |i| {
        let (n, lines) = cases[i as usize];
        col.eval(1);
        col.nontrivial(h64(&("cli-stdin-limit", n, lines)));
        match cli_stdin_limit_case(n, lines) {
            Ok(None) => missing.store(true, std::sync::atomic::Ordering::Relaxed),
            Err(e) => col.machinery(format!("cli --stdin LIMIT case: {}", e)),
            Ok(Some((printed, ended))) => {
                let want: Vec<String> = (1..=n.min(lines)).map(|i| format!("{{\"v\":{}}}", i)).collect();
                if !ended || printed != want {
                    results.lock().unwrap().push(fail(
                        format!("limit:cli-stdin:{}", if !ended { "waits-for-input-after-the-nth-row" } else { "rows-differ" }),
                        format!("sqlgrep --stdin `SELECT v FROM t LIMIT {}` fed {} lines on a pipe that stays open: ended by itself = {}, printed {:?}, expected {:?}", n, lines, ended, printed, want),
                        json!({"layer": "cli-stdin-limit", "n": n, "lines": lines}),
                        json!({"ended": true, "printed": want}),
                        json!({"ended": ended, "printed": printed}),
                        n as u64,
                    ));
                }
            }
        }
    });
    if !missing.load(std::sync::atomic::Ordering::Relaxed) {
        col.layer("command line program: --stdin with LIMIT n on a pipe whose writer stays", cases.len() as u64, true, json!({"cases": cases}));
    }
    results.into_inner().unwrap()
}

fn pipe_layer(w: &World, col: &Collector) {
    let jl = jlines();
    let input: Vec<&str> = [0usize, 1, 5, 2, 3, 4, 0, 1].iter().map(|i| jl[*i]).collect();
    let n_cases = std::sync::atomic::AtomicU64::new(0);
    par_for(w.stmts.len() as u64, |si| {
        let si = si as usize;
        let (stmt_text, kind) = &w.stmts[si];
        let base = match sut::parse(stmt_text) {
            Ok(s) => s,
            Err(_) => return,
        };
        if base.is_aggregate() {
            return;
        }
        let per_line = match sut::rows_per_line(&w.tables, &base, &input) {
            Outcome::Ok(p) => p,
            _ => return,
        };
        let full: Vec<String> = match sut::run_files(&w.tables, &base, &[format!("{}\n", input.join("\n")).as_bytes()], FileRunOpts::default()) {
            Outcome::Ok(fr) if fr.result.is_ok() => strip_blank(&fr.printed),
            _ => return,
        };
        for n in [1usize, 2, 3] {
            // the line that produces the n-th row
            let mut cum = 0;
            let mut producing = None;
            for (i, c) in per_line.iter().enumerate() {
                cum += c;
                if cum >= n {
                    producing = Some(i + 1);
                    break;
                }
            }
            let upto = match producing {
                Some(p) if p < input.len() => p,
                _ => continue,
            };
            let text = format!("{} LIMIT {}", stmt_text, n);
            n_cases.fetch_add(1, std::sync::atomic::Ordering::Relaxed);
            col.eval(1);
            col.nontrivial(h64(&("pipe", si, n)));
            let (in_time, got) = pipe_case(w, &text, &input, upto);
            let want: Vec<String> = full.iter().take(n).cloned().collect();
            if !in_time || got.as_ref() != Some(&want) {
                col.fail(fail(
                    format!("limit:{}:pipe:{}", kind, if !in_time { "waits-for-input-after-the-nth-row" } else { "records-differ" }),
                    format!("`{}` reading a pipe that holds the first {} lines and stays open: {}; printed {:?}, expected {:?}", text, upto, if in_time { "ended" } else { "did not end within 5 s (it ended once the pipe was closed)" }, got, want),
                    json!({"layer": "pipe", "stmt": si, "statement": text, "n": n, "lines_written": upto}),
                    json!(want),
                    json!(got),
                    (si * 10 + n) as u64,
                ));
            }
        }
    });
    col.layer("LIMIT over a pipe that stays open after the line of the n-th row", n_cases.load(std::sync::atomic::Ordering::Relaxed), true, json!({"n": [1, 2, 3]}));
}

/// the LIMIT clause written in other layouts (own line, after an empty / non-empty comment, CRLF, lower case)
fn limit_layout_layer(w: &World, col: &Collector) {
    let jl = jlines();
    let input = format!("{}\n", [0usize, 1, 5, 2, 3, 4, 0].iter().map(|i| jl[*i]).collect::<Vec<_>>().join("\n"));
    let mut n_cases = 0u64;
    for (si, (stmt_text, kind)) in w.stmts.iter().enumerate() {
        for n in [0usize, 1, 2] {
            let base_text = format!("{} LIMIT {}", stmt_text, n);
            let base = match sut::parse(&base_text).ok().map(|st| sut::run_files(&w.tables, &st, &[input.as_bytes()], FileRunOpts::default())) {
                Some(Outcome::Ok(fr)) if fr.result.is_ok() => strip_blank(&fr.printed),
                _ => continue,
            };
            for (lname, text) in [
                ("own-line", format!("{}\nLIMIT {}", stmt_text, n)),
                ("after-empty-comment", format!("{}\n--\nLIMIT {}", stmt_text, n)),
                ("after-comment", format!("{} -- first rows only\nLIMIT {}", stmt_text, n)),
                ("crlf", format!("{}\r\nLIMIT {}\r\n", stmt_text, n)),
                ("lower-case", format!("{} limit {}", stmt_text, n)),
                ("semicolon", format!("{} LIMIT {};", stmt_text, n)),
                ("tab", format!("{}\tLIMIT\t{}", stmt_text, n)),
            ] {
                n_cases += 1;
                col.eval(1);
                col.nontrivial(h64(&("limit-layout", si, n, lname)));
                let got = match sut::parse(&text).ok().map(|st| sut::run_files(&w.tables, &st, &[input.as_bytes()], FileRunOpts::default())) {
                    Some(Outcome::Ok(fr)) if fr.result.is_ok() => Some(strip_blank(&fr.printed)),
                    _ => None,
                };
                if got.as_ref() != Some(&base) {
                    col.fail(fail(
                        format!("limit:{}:layout:{}", kind, lname),
                        format!("{:?} prints {:?}; {:?} prints {:?}", text, got, base_text, base),
                        json!({"layer": "limit-layout", "stmt": si, "statement": text, "n": n}),
                        json!(base),
                        json!(got),
                        (si * 10 + n) as u64,
                    ));
                }
            }
        }
    }
    col.layer("LIMIT clause in other layouts", n_cases, true, json!({"layouts": ["own line", "after an empty comment", "after a comment", "CRLF", "lower case", "semicolon", "tab"]}));
}

pub fn run(ctx: &Ctx) -> i32 {
    let col = Collector::new();
    let w = world();
    let maxlen = ctx.tier.pick(3, 5) as u32;
    let k = jlines().len() as u64;
    let nseq = seq_count(k, maxlen);
    let nst = w.stmts.len() as u64;
    let total = nseq * nst;
    let (done, complete) = par_for_budget(ctx, total, 8, |idx| {
        let si = (idx % nst) as usize;
        let seq = seq_decode(idx / nst, k, maxlen);
        {
            let (fs, evals) = format_group(&w, si, &seq);
            col.eval(evals);
            for f in fs {
                col.fail(f);
            }
        }
        for parts in splits(seq.len(), 3, true) {
            let (fs, evals, nt) = run_group(&w, si, &seq, &parts, None);
            col.eval(evals);
            col.transitions.fetch_add(evals * seq.len() as u64, std::sync::atomic::Ordering::Relaxed);
            col.states.fetch_add(evals, std::sync::atomic::Ordering::Relaxed);
            col.traces_validated.fetch_add(evals, std::sync::atomic::Ordering::Relaxed);
            for i in 0..nt {
                col.nontrivial(h64(&(si, &seq, &parts, i)));
            }
            col.outcome(h64(&(fs.len(), nt, seq.len())));
            if idx % 4099 == 7 && parts.len() == 2 {
                col.sample(json!({"statement": w.stmts[si].0, "lines": seq, "file_split": parts, "n": "0..rows+2"}));
            }
            for f in fs {
                col.fail(f);
            }
        }
    });
    // LIMIT statements through every driver
    {
        let defs = format!("{}\n{}", JDEF, JDEF_U);
        let jl = jlines();
        let input: Vec<String> = [0usize, 1, 5, 2, 3, 4, 0].iter().map(|i| jl[*i].to_string()).collect();
        let mut cases: Vec<(String, String, Vec<String>, bool)> = Vec::new();
        for (i, (text, _)) in w.stmts.iter().enumerate() {
            for n in [0usize, 1, 2, 5] {
                cases.push((defs.clone(), format!("{} LIMIT {}", text, n), input.clone(), (i + n) % 3 == 0));
            }
        }
        crate::drivers::run_layer(&col, &cases, &|_| "limit".to_string());
    }
    huge_limit_layer(&w, &col);
    pipe_layer(&w, &col);
    for f in cli_stdin_limit_layer(&col) {
        col.fail(f);
    }
    limit_layout_layer(&w, &col);
    col.layer("limit x files", done, complete, json!({"statements": nst, "line_sequences": nseq, "max_len": maxlen, "max_files": 3}));
    // an aggregate result requested again from the same engine (update-only lines, result, more lines, result) keeps the first n groups
    {
        use sqlgrep::execution::execution_engine::{ExecutionConfig, ExecutionEngine};
        let al = jlines();
        let mut nr = 0u64;
        for text in ["SELECT k, COUNT(*) FROM t GROUP BY k", "SELECT v, SUM(v) FROM t GROUP BY v", "SELECT k, COUNT(*) FROM t GROUP BY k HAVING COUNT(*) > 0"] {
            for n in 0..=3usize {
                for idx in 0..seq_count(k, 3) {
                    let seq = seq_decode(idx, k, 3);
                    for cut in 0..=seq.len() {
                        let limited = sut::parse(&format!("{} LIMIT {}", text, n)).unwrap();
                        let plain = sut::parse(text).unwrap();
                        let run = |st: &sqlgrep::model::Statement| -> Option<Vec<Vec<Vec<sut::RVal>>>> {
                            let r = catch(|| {
                                let mut e = ExecutionEngine::new(&w.tables, st);
                                let mut outs = Vec::new();
                                for (i, li) in seq.iter().enumerate() {
                                    if i == cut {
                                        outs.push(e.execute(String::new(), &ExecutionConfig::aggregate_result()).ok()?.result_row.map(|r| r.data.iter().map(|x| x.columns.iter().map(sut::from_value).collect::<Vec<_>>()).collect::<Vec<_>>()).unwrap_or_default());
                                    }
                                    e.execute(al[*li as usize].to_string(), &ExecutionConfig::aggregate_update()).ok()?;
                                }
                                outs.push(e.execute(String::new(), &ExecutionConfig::aggregate_result()).ok()?.result_row.map(|r| r.data.iter().map(|x| x.columns.iter().map(sut::from_value).collect::<Vec<_>>()).collect::<Vec<_>>()).unwrap_or_default());
                                Some(outs)
                            });
                            r.ok().flatten()
                        };
                        let (a, bq) = (run(&limited), run(&plain));
                        nr += 1;
                        col.eval(2);
                        if let (Some(a), Some(bq)) = (a, bq) {
                            let ok = a.len() == bq.len() && a.iter().zip(&bq).all(|(x, y)| sut::rows_same(x, &y.iter().take(n).cloned().collect::<Vec<_>>()));
                            if cut < seq.len() && n > 0 {
                                col.nontrivial(h64(&("again", text, n, idx, cut)));
                            }
                            if !ok {
                                col.fail(fail(
                                    "limit:aggregate:repeated-result".into(),
                                    format!("`{} LIMIT {}` lines {:?}, result requested after {} lines and at the end: not the first {} groups of the unlimited results", text, n, seq, cut, n),
                                    json!({"layer": "again", "statement": text, "n": n, "seq": seq, "cut": cut}),
                                    json!(format!("{:?}", bq)),
                                    json!(format!("{:?}", a)),
                                    (seq.len() * 10 + n) as u64,
                                ));
                            }
                        }
                    }
                }
            }
        }
        col.layer("aggregate result requested twice from one engine", nr, true, json!({}));
    }
    // follow mode (the real FollowFileExecutor in child processes): LIMIT n delivers the first n rows and then ends by itself
    {
        let mut nf = 0u64;
        let lines = ["a", "b", "c"];
        for n in 0..=4usize {
            for (stmt_t, sel) in [("SELECT input FROM t LIMIT {}", 0usize), ("SELECT input FROM t WHERE x != 'b' LIMIT {}", 1), ("SELECT DISTINCT input FROM t LIMIT {}", 2)] {
                for chunking in 0..3 {
                    let content = "a\nb\nc\na\n";
                    let chunks: Vec<Vec<u8>> = match chunking {
                        0 => vec![content.as_bytes().to_vec()],
                        1 => content.split_inclusive('\n').map(|l| l.as_bytes().to_vec()).collect(),
                        _ => content.as_bytes().iter().map(|b| vec![*b]).collect(),
                    };
                    let stmt = stmt_t.replace("{}", &n.to_string());
                    let (delivered, end, ok) = crate::checks::c10::follow_child(true, b"", &chunks, &stmt, -1);
                    let all: Vec<&str> = match sel {
                        0 => vec!["a", "b", "c", "a"],
                        1 => vec!["a", "c", "a"],
                        _ => vec!["a", "b", "c"],
                    };
                    let expected: Vec<String> = all.iter().take(n).map(|l| format!("{{\"input\":\"{}\"}}", l)).collect();
                    nf += 1;
                    col.eval(1);
                    col.states.fetch_add(1, std::sync::atomic::Ordering::Relaxed);
                    col.traces_validated.fetch_add(1, std::sync::atomic::Ordering::Relaxed);
                    if n > 0 && n < all.len() {
                        col.nontrivial(h64(&("follow", n, sel, chunking)));
                    }
                    // consumption: with one line per append, nothing is appended (i.e. polled for) beyond the line that produced the n-th row
                    let appended = crate::checks::c10::LAST_APPENDED.with(|a| *a.borrow());
                    let producing: usize = if n == 0 {
                        0
                    } else {
                        // index (1-based) of the line producing the n-th row, or all 4 lines when there are fewer rows
                        let mut seen = std::collections::BTreeSet::new();
                        let mut cnt = 0;
                        let mut at = 4;
                        for (i, l) in ["a", "b", "c", "a"].iter().enumerate() {
                            let emits = match sel { 0 => true, 1 => *l != "b", _ => seen.insert(*l) };
                            if emits {
                                cnt += 1;
                                if cnt == n {
                                    at = i + 1;
                                    break;
                                }
                            }
                        }
                        at
                    };
                    if chunking == 1 && delivered == expected && end == "ok" && appended > producing && producing < 4 {
                        col.fail(fail(
                            format!("limit:follow:over-consumed{}", if n == 0 { ":n=0" } else { "" }),
                            format!("follow mode `{}`: the reader polled for / consumed {} appended lines, the n-th row was produced by line {}", stmt, appended, producing),
                            json!({"layer": "follow", "statement": stmt, "chunking": chunking, "n": n}),
                            json!({"appended_at_most": producing}),
                            json!({"appended": appended}),
                            n as u64,
                        ));
                    }
                    if delivered != expected || end != "ok" || !ok {
                        col.fail(fail(
                            format!("limit:follow:{}{}", if delivered.len() > expected.len() { "extra-rows" } else if delivered.len() < expected.len() { "missing-rows" } else if end != "ok" { "ended-with-error" } else { "wrong-rows" }, if n == 0 { ":n=0" } else { "" }),
                            format!("follow mode `{}` over {:?} (chunking {}): delivered {:?}, expected {:?}, end={}", stmt, lines, chunking, delivered, expected, end),
                            json!({"layer": "follow", "statement": stmt, "chunking": chunking, "n": n}),
                            json!(expected),
                            json!({"delivered": delivered, "end": end}),
                            n as u64,
                        ));
                    }
                }
            }
        }
        col.layer("follow-mode LIMIT (FollowFileExecutor in child processes)", nf, true, json!({"n": "0..=4", "statements": 3, "chunkings": 3}));
    }
    let _ = &w.joined_path;
    finish(
        ctx,
        &col,
        Finish {
            level: "model_checking",
            rule: "operation sequences: every line sequence up to the bound over a 6-line alphabet x every split into 1..3 files (empty files included) x every n in 0..rows+2 x statement corpus (plain, WHERE, DISTINCT, NULL-only rows, joins with fan-out 0/1/3, aggregates); states = executions (each LIMIT run is one complete execution of the executor state machine, compared with the unlimited run of the same build); non-trivial: 0<n<rows, or n=0 with rows>0, or a file boundary lies before the n-th row".into(),
            exhaustive: true,
            assumptions: vec!["oracle is metamorphic: unlimited run of the same build over the same files".into()],
            bounds: json!({"max_lines": maxlen, "max_files": 3, "alphabet": jlines()}),
        },
    )
}

pub fn replay(case: &J) -> Vec<Failure> {
    if case["layer"].as_str() == Some("cli-stdin-limit") {
        return cli_stdin_limit_layer(&Collector::new()).into_iter().filter(|f| f.case == *case).collect();
    }
    let w = world();
    if matches!(case["layer"].as_str(), Some("pipe") | Some("limit-layout")) {
        let col = Collector::new();
        if case["layer"].as_str() == Some("pipe") {
            pipe_layer(&w, &col);
        } else {
            limit_layout_layer(&w, &col);
        }
        let f = col.failures.lock().unwrap();
        return f.values().flat_map(|v| v.iter().cloned()).filter(|f| f.case["statement"] == case["statement"]).collect();
    }
    if case["layer"].as_str() == Some("huge-limit") {
        let col = Collector::new();
        huge_limit_layer(&w, &col);
        let f = col.failures.lock().unwrap();
        return f.values().flat_map(|v| v.iter().cloned()).filter(|f| f.case["statement"] == case["statement"]).collect();
    }
    if let Some(fmt) = case["format"].as_str() {
        let seq: Vec<u8> = case["seq"].as_array().unwrap().iter().map(|x| x.as_u64().unwrap() as u8).collect();
        return format_group(&w, case["stmt"].as_u64().unwrap() as usize, &seq).0.into_iter().filter(|f| f.case["format"].as_str() == Some(fmt)).collect();
    }
    let seq: Vec<u8> = case["seq"].as_array().unwrap().iter().map(|x| x.as_u64().unwrap() as u8).collect();
    let parts: Vec<usize> = case["parts"].as_array().unwrap().iter().map(|x| x.as_u64().unwrap() as usize).collect();
    run_group(&w, case["stmt"].as_u64().unwrap() as usize, &seq, &parts, Some(case["n"].as_u64().unwrap() as usize)).0
}
