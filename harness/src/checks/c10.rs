//! C10 — follow mode delivers every completed line exactly once, in order.
//!
//! Schedule exploration on the real `FollowFileIterator` through the `FollowRetry` hook (fires exactly when the reader
//! saw end-of-file without a complete line): the harness plays the writer. Enumerated: all UTF-8 contents up to a
//! character/byte bound over {a, LF, CR, é, €, 😀} x all 2^(bytes-1) cuts of the byte string into appends x reader buffer
//! capacities x (first chunk present before the reader starts | appended at the first poll) x at most one stutter poll
//! at every retry point. See DESIGN.md §5 C10 for why this covers all placements of polls between appends.

use std::cell::RefCell;
use std::fs::{File, OpenOptions};
use std::io::{BufReader, Write};
use std::rc::Rc;
use std::sync::Arc;

use serde_json::{json, Value as J};

use sqlgrep::helpers::FollowFileIterator;
use sqlgrep::verif_hooks::{self, Action, Point};

use crate::checks::fail;
use crate::core::*;
use crate::gen::{hex, unhex};
use crate::sut;

const UNITS: [&str; 6] = ["a", "\n", "\r", "é", "€", "😀"];
const CAPS: [usize; 5] = [1, 2, 3, 5, 8192];

#[derive(Debug, Clone, PartialEq)]
pub struct Obs {
    delivered: Vec<Vec<u8>>,
    ended_by_itself: bool,
    polls: usize,
    polls_inside_line: usize,
    polls_inside_char: usize,
    states: u64,
}

struct Writer {
    file: File,
    chunks: Vec<Vec<u8>>,
    next: usize,
    appended: Vec<u8>,
    stutter_at: Option<usize>,
    poll_no: usize,
    stopped: bool,
    polls_inside_line: usize,
    polls_inside_char: usize,
    delivered_bytes: Rc<RefCell<usize>>,
}

const STALL: usize = 1000;
const STALL_POLLS: usize = 40;
const STALL_MS: u64 = 15;

fn run_schedule(content: &[u8], chunk_lens: &[usize], cap: usize, pre: usize, stutter_at: Option<usize>) -> Result<Obs, PanicRec> {
    let tmp = sut::TempFiles::new(&[b""]);
    let path = tmp.paths[0].clone();
    let mut chunks = Vec::new();
    let mut pos = 0;
    for l in chunk_lens {
        chunks.push(content[pos..pos + l].to_vec());
        pos += l;
    }
    let mut file = OpenOptions::new().append(true).open(&path).unwrap();
    let mut appended = Vec::new();
    let pre = pre.min(chunks.len());
    for c in &chunks[..pre] {
        file.write_all(c).unwrap();
        appended.extend_from_slice(c);
    }
    let delivered_bytes = Rc::new(RefCell::new(0usize));
    let w = Rc::new(RefCell::new(Writer { file, chunks, next: pre, appended, stutter_at, poll_no: 0, stopped: false, polls_inside_line: 0, polls_inside_char: 0, delivered_bytes: delivered_bytes.clone() }));
    let w2 = w.clone();
    verif_hooks::set(Box::new(move |p| {
        if p != Point::FollowRetry {
            return Action::Continue;
        }
        let mut w = w2.borrow_mut();
        let n = w.poll_no;
        w.poll_no += 1;
        let pending = w.appended.len().saturating_sub(*w.delivered_bytes.borrow());
        if pending > 0 {
            w.polls_inside_line += 1;
        }
        if let Err(e) = std::str::from_utf8(&w.appended) {
            if e.error_len().is_none() {
                w.polls_inside_char += 1;
            }
        }
        if w.stutter_at == Some(n) {
            return Action::Continue;
        }
        // stutter_at = STALL + n: the writer stalls at poll n for STALL_POLLS further polls and STALL_POLLS * STALL_MS
        // milliseconds (the reader keeps polling meanwhile)
        if let Some(v) = w.stutter_at {
            if v >= STALL && n >= v - STALL && n < v - STALL + STALL_POLLS {
                std::thread::sleep(std::time::Duration::from_millis(STALL_MS));
                return Action::Continue;
            }
        }
        if w.next < w.chunks.len() {
            let c = w.chunks[w.next].clone();
            w.file.write_all(&c).unwrap();
            w.appended.extend_from_slice(&c);
            w.next += 1;
            Action::Continue
        } else {
            w.stopped = true;
            Action::Stop
        }
    }));
    let res = catch(|| {
        let reader = BufReader::with_capacity(cap, File::open(&path).unwrap());
        let mut it = FollowFileIterator::new(reader);
        let mut delivered = Vec::new();
        let mut guard = 0;
        loop {
            guard += 1;
            if guard > 10_000 {
                break;
            }
            match it.next() {
                Some(line) => {
                    *delivered_bytes.borrow_mut() += line.len() + 1;
                    delivered.push(line.into_bytes());
                }
                None => break,
            }
        }
        delivered
    });
    verif_hooks::clear();
    let w = w.borrow();
    res.map(|delivered| Obs { delivered, ended_by_itself: !w.stopped, polls: w.poll_no, polls_inside_line: w.polls_inside_line, polls_inside_char: w.polls_inside_char, states: (w.poll_no + w.next) as u64 })
}

fn expected_lines(content: &[u8]) -> Vec<Vec<u8>> {
    let mut out = Vec::new();
    let mut cur = Vec::new();
    for b in content {
        if *b == b'\n' {
            out.push(std::mem::take(&mut cur));
        } else {
            cur.push(*b);
        }
    }
    out
}

fn line_eq(got: &[u8], exp: &[u8]) -> bool {
    // "character for character (without the newline)": a CR before the LF belongs to the delivered line
    got == exp
}

fn judge(content: &[u8], chunk_lens: &[usize], cap: usize, pre: usize, stutter_at: Option<usize>) -> (Vec<Failure>, Option<Obs>) {
    let case = json!({"content_hex": hex(content), "content": String::from_utf8_lossy(content), "chunks": chunk_lens, "capacity": cap, "pre": pre, "stutter_at": stutter_at});
    let exp = expected_lines(content);
    let rank = content.len() as u64 * 100 + chunk_lens.len() as u64;
    match run_schedule(content, chunk_lens, cap, pre, stutter_at) {
        Err(p) => (vec![fail(panic_signature(&p), format!("panic in follow iterator: {}", p.msg), case, json!("no panic"), json!(p.msg), rank)], None),
        Ok(obs) => {
            let mut out = Vec::new();
            let same = obs.delivered.len() == exp.len() && obs.delivered.iter().zip(&exp).all(|(g, e)| line_eq(g, e));
            if obs.ended_by_itself || !same {
                // does an append boundary fall inside a multi-byte character?
                let mut multibyte_cut = obs.polls_inside_char > 0;
                let mut pos = 0;
                for l in chunk_lens {
                    pos += l;
                    if pos < content.len() && (content[pos] & 0xC0) == 0x80 {
                        multibyte_cut = true;
                    }
                }
                let dev = if obs.ended_by_itself {
                    "iterator-ended-by-itself"
                } else if obs.delivered.len() < exp.len() {
                    "line-lost"
                } else if obs.delivered.len() > exp.len() {
                    "extra-delivery"
                } else {
                    "line-content-differs"
                };
                out.push(fail(
                    format!("follow:{}:{}", dev, if multibyte_cut { "append-boundary-inside-multibyte-char" } else if obs.polls_inside_line > 0 { "poll-inside-line" } else { "poll-at-line-boundary" }),
                    format!("follow of {:?} cut {:?} (capacity {}): delivered {:?}, expected {:?}, ended_by_itself={}", String::from_utf8_lossy(content), chunk_lens, cap, obs.delivered.iter().map(|l| String::from_utf8_lossy(l).to_string()).collect::<Vec<_>>(), exp.iter().map(|l| String::from_utf8_lossy(l).to_string()).collect::<Vec<_>>(), obs.ended_by_itself),
                    case,
                    json!(exp.iter().map(|l| hex(l)).collect::<Vec<_>>()),
                    json!({"delivered": obs.delivered.iter().map(|l| hex(l)).collect::<Vec<_>>(), "ended_by_itself": obs.ended_by_itself}),
                    rank,
                ));
            }
            (out, Some(obs))
        }
    }
}

/// chunk-length vectors for all 2^(n-1) cuts of n bytes
fn cut_from_mask(n: usize, mask: u64) -> Vec<usize> {
    let mut out = Vec::new();
    let mut len = 1;
    for i in 0..n.saturating_sub(1) {
        if mask & (1 << i) != 0 {
            out.push(len);
            len = 1;
        } else {
            len += 1;
        }
    }
    if n > 0 {
        out.push(len);
    }
    out
}

pub fn run(ctx: &Ctx) -> i32 {
    let col = Collector::new();
    let (maxchars, maxbytes) = ctx.tier.pick((3u32, 9usize), (4u32, 11usize));
    let k = UNITS.len() as u64;
    let contents: Vec<Vec<u8>> = (0..seq_count(k, maxchars)).map(|i| seq_decode(i, k, maxchars).iter().map(|u| UNITS[*u as usize]).collect::<String>().into_bytes()).filter(|c| c.len() <= maxbytes).collect();
    // work items: (content index, cut mask)
    let mut items: Vec<(u32, u64)> = Vec::new();
    for (ci, c) in contents.iter().enumerate() {
        let n = c.len();
        let masks = if n == 0 { 1 } else { 1u64 << (n - 1) };
        for m in 0..masks {
            items.push((ci as u32, m));
        }
    }
    let total = items.len() as u64;
    let describe = |idx: u64| {
        let (ci, mask) = items[idx as usize];
        json!({"hang": true, "content_hex": hex(&contents[ci as usize]), "chunks": cut_from_mask(contents[ci as usize].len(), mask), "note": "one of the capacity / stutter variants of this schedule did not return"})
    };
    let (done, complete) = par_for_watch(ctx, total, 32, &describe, |idx| {
        let (ci, mask) = items[idx as usize];
        let content = &contents[ci as usize];
        let chunks = cut_from_mask(content.len(), mask);
        for cap in CAPS {
            for pre in [0usize, 1] {
                let retry_points = chunks.len() + 2;
                let stutters: Vec<Option<usize>> = std::iter::once(None).chain((0..retry_points).map(Some)).collect();
                for st in stutters {
                    if st.is_some() && cap != 3 && cap != 8192 {
                        continue; // stutter polls explored for two capacities only
                    }
                    let (fs, obs) = judge(content, &chunks, cap, pre, st);
                    col.eval(1);
                    col.traces_validated.fetch_add(1, std::sync::atomic::Ordering::Relaxed);
                    if let Some(o) = &obs {
                        col.states.fetch_add(o.states + o.delivered.len() as u64, std::sync::atomic::Ordering::Relaxed);
                        col.transitions.fetch_add(o.polls as u64, std::sync::atomic::Ordering::Relaxed);
                        if o.polls_inside_line > 0 {
                            col.nontrivial(h64(&(ci, mask, cap, pre, st, o.polls_inside_char > 0)));
                        }
                        col.outcome(h64(&(&o.delivered, o.ended_by_itself)));
                    }
                    // determinism: replay every 997th schedule and every failing one
                    if !fs.is_empty() || (idx + cap as u64) % 997 == 0 {
                        let (_, again) = judge(content, &chunks, cap, pre, st);
                        if again != obs {
                            col.machinery(format!("schedule replay diverged for content {} cut {:?}", hex(content), chunks));
                        }
                    }
                    if idx % 4001 == 13 && cap == 3 && st.is_none() && pre == 0 {
                        col.sample(json!({"content": String::from_utf8_lossy(content), "content_hex": hex(content), "appends": chunks, "capacity": cap}));
                    }
                    for f in fs {
                        col.fail(f);
                    }
                }
            }
        }
    });
    // control characters: all contents of <= 4 units over {NUL, TAB, a, LF} x all cuts (a line is delivered byte for byte,
    // whatever it starts or ends with)
    {
        let cunits: [&[u8]; 4] = [b"\0", b"\t", b"a", b"\n"];
        let kc = cunits.len() as u64;
        let citems: Vec<Vec<u8>> = (0..seq_count(kc, 4)).map(|i| seq_decode(i, kc, 4).iter().flat_map(|u| cunits[*u as usize].iter().copied()).collect::<Vec<u8>>()).filter(|c: &Vec<u8>| c.contains(&0) || c.contains(&b'\t')).collect();
        let cdesc = |idx: u64| json!({"hang": true, "content_hex": hex(&citems[idx as usize])});
        let (cdone, ccomplete) = par_for_watch(ctx, citems.len() as u64, 8, &cdesc, |idx| {
            let content = &citems[idx as usize];
            let n = content.len();
            for mask in 0..(if n == 0 { 1 } else { 1u64 << (n - 1) }) {
                let chunks = cut_from_mask(n, mask);
                for cap in [3usize, 8192] {
                    for pre in [0usize, 1] {
                        let (fs, obs) = judge(content, &chunks, cap, pre, None);
                        col.eval(1);
                        col.traces_validated.fetch_add(1, std::sync::atomic::Ordering::Relaxed);
                        if let Some(o) = &obs {
                            col.transitions.fetch_add(o.polls as u64, std::sync::atomic::Ordering::Relaxed);
                            if o.polls_inside_line > 0 {
                                col.nontrivial(h64(&("ctl", idx, mask, cap, pre)));
                            }
                        }
                        for f in fs {
                            col.fail(f);
                        }
                    }
                }
            }
        });
        col.layer("control characters (NUL, TAB) x all cuts", cdone, ccomplete, json!({"units": ["NUL", "TAB", "a", "LF"], "max_units": 4}));
    }
    // a writer that stalls (40 polls, 600 ms) at every retry point: all cuts of two contents
    {
        let stall_contents: Vec<&[u8]> = ctx.tier.pick(vec![&b"ab\ncd\n"[..]], vec![&b"ab\ncd\n"[..], "\u{e9}x\ny\n".as_bytes(), &b"a\r\nbc"[..]]);
        let mut sitems: Vec<(usize, u64, usize)> = Vec::new();
        for (ci, c) in stall_contents.iter().enumerate() {
            for m in 0..(1u64 << (c.len() - 1)) {
                let nchunks = cut_from_mask(c.len(), m).len();
                for at in 0..nchunks.min(ctx.tier.pick(3, 6)) {
                    sitems.push((ci, m, at));
                }
            }
        }
        let sdesc = |idx: u64| { let (ci, m, at) = sitems[idx as usize]; json!({"hang": true, "content_hex": hex(stall_contents[ci]), "chunks": cut_from_mask(stall_contents[ci].len(), m), "stall_at": at}) };
        let (sdone, scomplete) = par_for_watch(ctx, sitems.len() as u64, 1, &sdesc, |idx| {
            let (ci, m, at) = sitems[idx as usize];
            let content = stall_contents[ci];
            let chunks = cut_from_mask(content.len(), m);
            let (fs, obs) = judge(content, &chunks, 8192, 0, Some(STALL + at));
            col.eval(1);
            col.traces_validated.fetch_add(1, std::sync::atomic::Ordering::Relaxed);
            if let Some(o) = &obs {
                col.transitions.fetch_add(o.polls as u64, std::sync::atomic::Ordering::Relaxed);
                if o.polls_inside_line > 0 {
                    col.nontrivial(h64(&("stall", ci, m, at)));
                }
            }
            for f in fs {
                col.fail(f);
            }
        });
        col.layer("writer stalls for 40 polls / 600 ms at a retry point (all cuts)", sdone, scomplete, json!({"contents": stall_contents.iter().map(|c| String::from_utf8_lossy(c).to_string()).collect::<Vec<_>>(), "stall_polls": STALL_POLLS, "stall_ms": STALL_MS}));
    }
    // long contents: line ends and append boundaries around multiples of the reader's buffer size
    {
        let mut nlong = 0u64;
        for line_len in [7usize, 8, 9, 64, 4096] {
            let mut content: Vec<u8> = Vec::new();
            let mut i = 0usize;
            while content.len() < 3 * 8192 + 100 {
                let body: String = format!("{:0width$}", i, width = line_len - 1);
                content.extend_from_slice(body.as_bytes());
                content.push(b'\n');
                i += 1;
            }
            content.extend_from_slice(b"tail-without-newline");
            let marks = [4095usize, 4096, 8191, 8192, 8193, 16384, 20000];
            for subset in 0u32..(1 << marks.len()) {
                if subset.count_ones() > 3 {
                    continue;
                }
                let mut cuts: Vec<usize> = marks.iter().enumerate().filter(|(k, _)| subset & (1 << k) != 0).map(|(_, m)| *m).collect();
                cuts.push(content.len());
                let mut lens = Vec::new();
                let mut prev = 0;
                for c in cuts {
                    lens.push(c - prev);
                    prev = c;
                }
                for cap in [4096usize, 8192] {
                    let (fs, obs) = judge(&content, &lens, cap, (subset % 2) as usize, None);
                    nlong += 1;
                    col.eval(1);
                    col.traces_validated.fetch_add(1, std::sync::atomic::Ordering::Relaxed);
                    if let Some(o) = &obs {
                        col.transitions.fetch_add(o.polls as u64, std::sync::atomic::Ordering::Relaxed);
                        col.states.fetch_add(o.states, std::sync::atomic::Ordering::Relaxed);
                        if o.polls_inside_line > 0 {
                            col.nontrivial(h64(&("long", line_len, subset, cap)));
                        }
                    }
                    for mut f in fs {
                        f.case = json!({"layer": "long", "line_len": line_len, "chunks": lens, "capacity": cap, "pre": subset % 2});
                        f.signature = format!("{}:long-content", f.signature);
                        f.what = f.what.chars().take(300).collect();
                        col.fail(f);
                    }
                }
            }
        }
        col.layer("long contents around buffer-size multiples", nlong, true, json!({"content_bytes": 24696, "line_lengths": [7, 8, 9, 64, 4096], "append boundaries": [4095, 4096, 8191, 8192, 8193, 16384, 20000], "capacities": [4096, 8192]}));
    }
    // one very long line (no bound on the length of a line is stated): lengths around powers of two up to 1 MiB (thorough: 16 MiB)
    {
        let mut nhuge = 0u64;
        let mut lens_tried = Vec::new();
        let tops: Vec<usize> = if ctx.tier == Tier::Thorough { vec![1 << 15, 1 << 16, 1 << 17, 1 << 20, 1 << 24] } else { vec![1 << 15, 1 << 16, 1 << 17, 1 << 20] };
        for top in tops {
            for line_len in [top - 1, top, top + 1] {
                lens_tried.push(line_len);
                let content = huge_content(line_len);
                let total = content.len();
                for lens in [vec![total], vec![line_len / 2, total - line_len / 2], vec![65536.min(line_len - 1), total - 65536.min(line_len - 1)], vec![line_len, total - line_len], vec![line_len - 1, 2, total - line_len - 1]] {
                    let (fs, obs) = judge(&content, &lens, 8192, 0, None);
                    nhuge += 1;
                    col.eval(1);
                    col.traces_validated.fetch_add(1, std::sync::atomic::Ordering::Relaxed);
                    if let Some(o) = &obs {
                        col.transitions.fetch_add(o.polls as u64, std::sync::atomic::Ordering::Relaxed);
                        if o.polls_inside_line > 0 {
                            col.nontrivial(h64(&("huge", line_len, &lens)));
                        }
                    }
                    for mut f in fs {
                        f.case = json!({"layer": "huge", "line_len": line_len, "chunks": lens, "capacity": 8192});
                        f.signature = format!("{}:huge-line", f.signature);
                        f.what = f.what.chars().take(300).collect();
                        f.expected = json!("the line, whole");
                        f.actual = json!("see what");
                        col.fail(f);
                    }
                }
            }
        }
        col.layer("one very long line", nhuge, true, json!({"line_lengths": lens_tried, "append_patterns": ["at once", "half + rest", "64 KiB + rest", "line + rest", "line minus last byte, 2 bytes, rest"]}));
    }
    executor_layer(ctx, &col);
    // appended between the creation of the executor and its start: belongs to what is followed (with and without --head)
    {
        let mut npre = 0u64;
        for head in [false, true] {
            for prefix in [&b""[..], &b"old\n"[..], &b"old"[..]] {
                for chunks in [vec![b"n1\n".to_vec()], vec![b"n1\nn2\n".to_vec(), b"n3\n".to_vec()], vec![b"n".to_vec(), b"1\n".to_vec()]] {
                    npre += 1;
                    col.eval(1);
                    col.nontrivial(h64(&("pre-execute", head, prefix, &chunks)));
                    let (delivered, end, ok) = follow_child_def(head, prefix, &chunks, "SELECT input FROM t", -3, None);
                    let mut all: Vec<u8> = if head { prefix.to_vec() } else { Vec::new() };
                    // (without --head only what is appended after the creation counts, also when the old content ends inside a line)
                    for c in &chunks {
                        all.extend_from_slice(c);
                    }
                    let want: Vec<String> = String::from_utf8_lossy(&all).lines().map(|l| format!("{{\"input\":{}}}", serde_json::to_string(l).unwrap())).collect();
                    let got: Vec<String> = delivered.iter().filter(|l| l.starts_with('{')).cloned().collect();
                    if got != want || end != "ok" || !ok {
                        col.fail(fail(
                            format!("follow-executor:{}:appended-before-start:{}", if head { "head" } else { "tail-start" }, if got.len() < want.len() { "line-lost" } else if got.len() > want.len() { "extra-delivery" } else { "line-content-differs" }),
                            format!("FollowFileExecutor (head={}) created on a file holding {:?}; {:?} appended before execute(), the rest afterwards: delivered {:?}, expected {:?} (end={})", head, String::from_utf8_lossy(prefix), chunks.first().map(|c| String::from_utf8_lossy(c).to_string()), got, want, end),
                            json!({"layer": "pre-execute", "head": head, "prefix_hex": hex(prefix), "chunks": chunks.iter().map(|c| hex(c)).collect::<Vec<_>>()}),
                            json!(want),
                            json!(got),
                            npre,
                        ));
                    }
                }
            }
        }
        col.layer("appended between creation and start of the FollowFileExecutor", npre, true, json!({}));
    }
    cli_follow_layer(&col);
    col.layer("iterator schedules", done, complete, json!({"contents": contents.len(), "max_chars": maxchars, "max_bytes": maxbytes, "cut_items": total, "capacities": CAPS}));
    finish(
        ctx,
        &col,
        Finish {
            level: "model_checking",
            rule: "schedules of writer appends vs reader polls on the real FollowFileIterator via the FollowRetry hook: all contents up to the bound x all byte-level cuts x buffer capacities x initial-content flag x <=1 stutter poll at every retry point; oracle: delivered == newline-terminated lines of the content, once, in order, byte-exact; the iterator ends only when the harness says Stop. states = (poll, appended-chunk, delivered) steps, transitions = polls. Non-trivial: at least one poll observed EOF inside a line (counted separately when inside a multi-byte character).".into(),
            exhaustive: true,
            assumptions: vec!["appends are atomic at the granularity of one write() (the writer is another process using append writes)".into(), "a CR before the newline is part of the delivered line (character for character)".into()],
            bounds: json!({"max_chars": maxchars, "max_bytes": maxbytes, "capacities": CAPS}),
        },
    )
}

// ---------------------------------------------------------------------------------------------
// executor level (child processes): the real FollowFileExecutor, which prints to stdout; start-up position (--head vs tail)

static APPENDED: std::sync::atomic::AtomicUsize = std::sync::atomic::AtomicUsize::new(0);

/// child: vcheck --child follow <head 0|1> <prefix hex> <chunk hex>,<chunk hex>,...
pub fn child(args: &[String]) -> i32 {
    use sqlgrep::execution::execution_engine::ExecutionEngine;
    use sqlgrep::executor::{DisplayOptions, FollowFileExecutor, OutputFormat};
    use std::sync::atomic::AtomicBool;
    use std::sync::Arc;
    let head = args[1] == "1";
    let prefix = unhex(&args[2]);
    let chunks: Vec<Vec<u8>> = args.get(3).map(|s| s.split(',').filter(|x| !x.is_empty() || true).map(unhex).collect()).unwrap_or_default();
    let tmp = sut::TempFiles::new(&[prefix.as_slice()]);
    let path = tmp.paths[0].clone();
    let def_text = args.get(6).map(|h| String::from_utf8_lossy(&unhex(h)).to_string()).unwrap_or_else(|| "CREATE TABLE t(line = '(?s)^(.*)$', line[1] => x TEXT);".to_string());
    let tables = sut::make_tables(&def_text).unwrap();
    let stmt_text = args.get(4).map(|h| String::from_utf8_lossy(&unhex(h)).to_string()).unwrap_or_else(|| "SELECT input FROM t".to_string());
    let interrupt_at: i64 = args.get(5).and_then(|x| x.parse().ok()).unwrap_or(-1);
    let st = sut::parse(&stmt_text).unwrap();
    let running = Arc::new(AtomicBool::new(true));
    let running2 = running.clone();
    let mut follow_lines = 0i64;
    let mut appender = OpenOptions::new().append(true).open(&path).unwrap();
    // interrupt_at == -3: the first chunk is appended after the executor has been created and before it is started
    let pre_chunk: Option<Vec<u8>> = if interrupt_at == -3 { chunks.first().cloned() } else { None };
    let mut next = if pre_chunk.is_some() { 1usize } else { 0usize };
    verif_hooks::set(Box::new(move |p| {
        if p == Point::FollowLine {
            // the executor is about to load the running flag for the next delivered line
            if follow_lines == interrupt_at {
                running2.store(false, std::sync::atomic::Ordering::SeqCst);
            }
            follow_lines += 1;
            return Action::Continue;
        }
        if p != Point::FollowRetry {
            return Action::Continue;
        }
        if next < chunks.len() {
            appender.write_all(&chunks[next]).unwrap();
            next += 1;
            APPENDED.store(next, std::sync::atomic::Ordering::SeqCst);
            Action::Continue
        } else if interrupt_at == -2 {
            // the writer has nothing more to append and stays: the reader keeps polling (with a short pause) until
            // the program ends by itself or the parent's time limit strikes
            std::thread::sleep(std::time::Duration::from_millis(1));
            Action::Continue
        } else {
            Action::Stop
        }
    }));
    let display = DisplayOptions { output_format: OutputFormat::Json, single_result: false, print_result: true };
    let mut ex = match FollowFileExecutor::new(running, File::open(&path).unwrap(), head, display, ExecutionEngine::new(&tables, &st)) {
        Ok(e) => e,
        Err(e) => {
            println!("FOLLOW-ERROR {}", e);
            return 0;
        }
    };
    if let Some(c) = &pre_chunk {
        OpenOptions::new().append(true).open(&path).unwrap().write_all(c).unwrap();
    }
    let r = catch(|| ex.execute());
    verif_hooks::clear();
    println!("\nFOLLOW-APPENDED {}", APPENDED.load(std::sync::atomic::Ordering::SeqCst));
    match r {
        Ok(Ok(())) => println!("FOLLOW-END ok"),
        Ok(Err(e)) => println!("FOLLOW-END error {}", e),
        Err(p) => println!("FOLLOW-END panic {}", p.msg),
    }
    0
}

thread_local! {
    /// number of chunks the writer had appended when the last follow child ended
    pub static LAST_APPENDED: RefCell<usize> = RefCell::new(0);
}

/// run the real FollowFileExecutor in a child process; returns (delivered `input` values, end marker, child ok)
pub fn follow_child(head: bool, prefix: &[u8], chunks: &[Vec<u8>], stmt: &str, interrupt_at: i64) -> (Vec<String>, String, bool) {
    follow_child_def(head, prefix, chunks, stmt, interrupt_at, None)
}

/// like follow_child, with a table definition of the caller's choice
pub fn follow_child_def(head: bool, prefix: &[u8], chunks: &[Vec<u8>], stmt: &str, interrupt_at: i64, def: Option<&str>) -> (Vec<String>, String, bool) {
    let exe = std::env::current_exe().unwrap();
    let ch: Vec<String> = chunks.iter().map(|c| hex(c)).collect();
    let mut args: Vec<String> = vec!["--child".into(), "follow".into(), if head { "1".into() } else { "0".into() }, hex(prefix), ch.join(","), hex(stmt.as_bytes()), interrupt_at.to_string()];
    if let Some(d) = def {
        args.push(hex(d.as_bytes()));
    }
    // the child is killed when it has not ended after 30 s (end marker "timeout")
    let mut child = std::process::Command::new(exe).args(&args).stdout(std::process::Stdio::piped()).stderr(std::process::Stdio::null()).spawn().expect("spawn follow child");
    let start = std::time::Instant::now();
    let mut timed_out = false;
    // drain stdout in a thread so that a talkative child cannot block on a full pipe
    let so = child.stdout.take().unwrap();
    let drain = std::thread::spawn(move || {
        use std::io::Read;
        let mut buf = Vec::new();
        let mut so = so;
        let _ = so.read_to_end(&mut buf);
        buf
    });
    loop {
        match child.try_wait() {
            Ok(Some(_)) => break,
            Ok(None) if start.elapsed().as_secs() >= 30 => {
                let _ = child.kill();
                timed_out = true;
                break;
            }
            Ok(None) => std::thread::sleep(std::time::Duration::from_millis(2)),
            Err(_) => break,
        }
    }
    let status = child.wait().ok();
    let stdout = String::from_utf8_lossy(&drain.join().unwrap_or_default()).to_string();
    let mut delivered = Vec::new();
    let mut end = String::new();
    for l in stdout.lines() {
        if let Some(rest) = l.strip_prefix("FOLLOW-END ") {
            end = rest.to_string();
        } else if l.starts_with("FOLLOW-ERROR") {
            end = l.to_string();
        } else if let Some(n) = l.strip_prefix("FOLLOW-APPENDED ") {
            LAST_APPENDED.with(|a| *a.borrow_mut() = n.parse().unwrap_or(usize::MAX));
        } else if !l.is_empty() {
            delivered.push(l.to_string());
        }
    }
    if timed_out {
        end = "timeout".to_string();
    }
    (delivered, end, !timed_out && status.map(|s| s.success()).unwrap_or(false))
}

fn executor_case(head: bool, prefix: &[u8], content: &[u8], chunk_lens: &[usize]) -> Vec<Failure> {
    let mut chunks = Vec::new();
    let mut pos = 0;
    for l in chunk_lens {
        chunks.push(hex(&content[pos..pos + l]));
        pos += l;
    }
    let exe = std::env::current_exe().unwrap();
    let out = std::process::Command::new(exe).args(["--child", "follow", if head { "1" } else { "0" }, &hex(prefix), &chunks.join(",")]).output().expect("spawn follow child");
    let stdout = String::from_utf8_lossy(&out.stdout).to_string();
    let mut delivered: Vec<Vec<u8>> = Vec::new();
    let mut end = String::new();
    for l in stdout.lines() {
        if let Some(rest) = l.strip_prefix("FOLLOW-END ") {
            end = rest.to_string();
        } else if l.starts_with("FOLLOW-ERROR") {
            end = l.to_string();
        } else if l.starts_with("FOLLOW-APPENDED") {
        } else if let Ok(j) = serde_json::from_str::<J>(l) {
            if let Some(s) = j["input"].as_str() {
                delivered.push(s.as_bytes().to_vec());
            }
        }
    }
    // expected: with --head everything from the first byte of the file, otherwise only what is appended after start-up
    let visible: Vec<u8> = if head { prefix.iter().chain(content.iter()).cloned().collect() } else { content.to_vec() };
    let exp = expected_lines(&visible);
    let same = delivered.len() == exp.len() && delivered.iter().zip(&exp).all(|(g, e)| line_eq(g, e));
    if !same || end != "ok" || !out.status.success() {
        let dev = if !out.status.success() { "child-died" } else if end != "ok" { "ended-with-error" } else if delivered.len() > exp.len() { "extra-delivery" } else if delivered.len() < exp.len() { "line-lost" } else { "line-content-differs" };
        return vec![fail(
            format!("follow-executor:{}:{}:{}", if head { "head" } else { "tail-start" }, dev, if prefix.is_empty() { "empty-file" } else if prefix.ends_with(b"\n") { "file-ends-with-newline" } else { "file-ends-mid-line" }),
            format!("FollowFileExecutor (head={}) on a file holding {:?}, then appends {:?} cut {:?}: delivered {:?}, expected {:?}, end={}", head, String::from_utf8_lossy(prefix), String::from_utf8_lossy(content), chunk_lens, delivered.iter().map(|d| String::from_utf8_lossy(d).to_string()).collect::<Vec<_>>(), exp.iter().map(|d| String::from_utf8_lossy(d).to_string()).collect::<Vec<_>>(), end),
            json!({"layer": "executor", "head": head, "prefix_hex": hex(prefix), "content_hex": hex(content), "chunks": chunk_lens}),
            json!(exp.iter().map(|l| hex(l)).collect::<Vec<_>>()),
            json!({"delivered": delivered.iter().map(|l| hex(l)).collect::<Vec<_>>(), "end": end}),
            (prefix.len() + content.len()) as u64,
        )];
    }
    vec![]
}

fn executor_layer(ctx: &Ctx, col: &Collector) {
    let prefixes: [&[u8]; 5] = [b"", b"x\n", b"x", b"x\ny", "é\nz".as_bytes()];
    let maxchars = ctx.tier.pick(2u32, 3u32);
    let units = ["a", "\n", "é"];
    let k = units.len() as u64;
    let mut items: Vec<(bool, usize, Vec<u8>, Vec<usize>)> = Vec::new();
    for idx in 0..seq_count(k, maxchars) {
        let content: Vec<u8> = seq_decode(idx, k, maxchars).iter().map(|u| units[*u as usize]).collect::<String>().into_bytes();
        let n = content.len();
        let masks = if n == 0 { 1 } else { 1u64 << (n - 1) };
        for m in 0..masks {
            for (pi, _) in prefixes.iter().enumerate() {
                for head in [false, true] {
                    items.push((head, pi, content.clone(), cut_from_mask(n, m)));
                }
            }
        }
    }
    let total = items.len() as u64;
    let (done, complete) = par_for_budget(ctx, total, 4, |i| {
        let (head, pi, content, cuts) = &items[i as usize];
        let fs = executor_case(*head, prefixes[*pi], content, cuts);
        col.eval(1);
        col.traces_validated.fetch_add(1, std::sync::atomic::Ordering::Relaxed);
        if !prefixes[*pi].is_empty() && content.contains(&b'\n') {
            col.nontrivial(h64(&("exec", i)));
        }
        if i % 401 == 7 {
            col.sample(json!({"layer": "executor", "head": head, "file_at_start": String::from_utf8_lossy(prefixes[*pi]), "appends": String::from_utf8_lossy(content), "cut": cuts}));
        }
        for f in fs {
            col.fail(f);
        }
    });
    col.layer("FollowFileExecutor start-up position (child processes)", done, complete, json!({"prefixes": prefixes.len(), "max_chars": maxchars, "cases": total}));
}

/// a line of `line_len` bytes made of 'x' and two-byte 'é' (so that any cut position can fall inside a character), a
/// short second line and an unterminated tail
fn huge_content(line_len: usize) -> Vec<u8> {
    let mut content: Vec<u8> = Vec::with_capacity(line_len + 32);
    while content.len() + 3 <= line_len {
        content.push(b'x');
        content.extend_from_slice("é".as_bytes());
    }
    while content.len() < line_len {
        content.push(b'y');
    }
    content.extend_from_slice(b"\nsecond line\n\ntail");
    content
}

/// position of the child's open file descriptions on `path` (from /proc/<pid>/fdinfo)
fn child_positions(pid: u32, path: &str) -> Vec<u64> {
    let mut out = Vec::new();
    if let Ok(rd) = std::fs::read_dir(format!("/proc/{}/fd", pid)) {
        for e in rd.flatten() {
            if std::fs::read_link(e.path()).map(|l| l.to_string_lossy() == path).unwrap_or(false) {
                if let Ok(info) = std::fs::read_to_string(format!("/proc/{}/fdinfo/{}", pid, e.file_name().to_string_lossy())) {
                    if let Some(p) = info.lines().find_map(|l| l.strip_prefix("pos:").map(|v| v.trim().parse::<u64>().unwrap_or(u64::MAX))) {
                        out.push(p);
                    }
                }
            }
        }
    }
    out
}

fn wait_until<F: Fn() -> bool>(secs: u64, f: F) -> bool {
    let start = std::time::Instant::now();
    while start.elapsed().as_secs() < secs {
        if f() {
            return true;
        }
        std::thread::sleep(std::time::Duration::from_millis(2));
    }
    f()
}

/// the command line program in follow mode (`-f`, with and without `--head`, on a named file and on `--stdin < file`):
/// started on a file with `old` content, then `appended` chunk by chunk. The harness waits until the program's own file
/// position shows that it has reached the end of the file before it appends (no sleeps decide the verdict), appends a
/// sentinel line at the end and stops the program once the sentinel's record has been printed.
/// Ok(delivered lines) or Err(machinery problem)
fn cli_follow_case(stdin_mode: bool, head: bool, old: &[u8], appended: &[Vec<u8>]) -> Result<Option<Vec<String>>, String> {
    let raw = cli_follow_raw(stdin_mode, head, old, appended, "CREATE TABLE t(line = '(?s)^(.*)$', line[1] => x TEXT);", "SELECT input FROM t", "json", "__end__", "__end__")?;
    Ok(raw.map(|lines| lines.iter().filter(|l| !l.is_empty()).map(|l| serde_json::from_str::<J>(l).ok().and_then(|j| j["input"].as_str().map(|s| s.to_string())).unwrap_or_else(|| format!("<{}>", l))).collect()))
}

/// the raw standard output lines of the program before the record of the sentinel line (which is appended last and
/// whose record contains `mark`); when the sentinel's record does not appear within 15 s a last pseudo line says so
pub fn cli_follow_raw(stdin_mode: bool, head: bool, old: &[u8], appended: &[Vec<u8>], def: &str, stmt: &str, format: &str, sentinel: &str, mark: &str) -> Result<Option<Vec<String>>, String> {
    use std::io::{BufRead, Write};
    let bin = format!("{}/target/cli/release/sqlgrep", verif_dir());
    if !std::path::Path::new(&bin).exists() {
        return Ok(None);
    }
    let dir = sut::tmp_dir();
    static CNT: std::sync::atomic::AtomicU64 = std::sync::atomic::AtomicU64::new(0);
    let id = CNT.fetch_add(1, std::sync::atomic::Ordering::Relaxed);
    let defp = format!("{}/c10_cli_def_{}_{}.txt", dir, std::process::id(), id);
    let datap = format!("{}/c10_cli_data_{}_{}.log", dir, std::process::id(), id);
    std::fs::write(&defp, def).map_err(|e| e.to_string())?;
    std::fs::write(&datap, old).map_err(|e| e.to_string())?;
    let mut cmd = std::process::Command::new(&bin);
    cmd.args(["-d", &defp]);
    if stdin_mode {
        cmd.arg("--stdin").stdin(std::fs::File::open(&datap).map_err(|e| e.to_string())?);
    } else {
        cmd.arg(&datap).stdin(std::process::Stdio::null());
    }
    cmd.arg("-f");
    if head {
        cmd.arg("--head");
    }
    cmd.args(["--format", format, "-c", stmt]).stdout(std::process::Stdio::piped()).stderr(std::process::Stdio::null());
    let mut child = cmd.spawn().map_err(|e| e.to_string())?;
    let pid = child.id();
    let lines: Arc<std::sync::Mutex<Vec<String>>> = Arc::new(std::sync::Mutex::new(Vec::new()));
    let l2 = lines.clone();
    let stdout = child.stdout.take().unwrap();
    let reader = std::thread::spawn(move || {
        for l in std::io::BufReader::new(stdout).lines().flatten() {
            l2.lock().unwrap().push(l);
        }
    });
    let cleanup = |child: &mut std::process::Child| {
        let _ = child.kill();
        let _ = child.wait();
        std::fs::remove_file(&defp).ok();
        std::fs::remove_file(&datap).ok();
    };
    // start-up: some descriptor of the program on the data file stands at the end of the old content
    let mut size = old.len() as u64;
    let at_end = |size: u64| child_positions(pid, &datap).iter().any(|p| *p == size);
    if !wait_until(20, || at_end(size)) {
        cleanup(&mut child);
        let _ = reader.join();
        return Err(format!("the program did not reach the end of the file within 20 s (stdin_mode={}, head={})", stdin_mode, head));
    }
    let mut f = std::fs::OpenOptions::new().append(true).open(&datap).map_err(|e| e.to_string())?;
    for c in appended {
        f.write_all(c).map_err(|e| e.to_string())?;
        size += c.len() as u64;
        wait_until(10, || at_end(size));
    }
    f.write_all(format!("{}\n", sentinel).as_bytes()).map_err(|e| e.to_string())?;
    let seen = wait_until(15, || lines.lock().unwrap().iter().any(|l| l.contains(mark)));
    cleanup(&mut child);
    let _ = reader.join();
    let got: Vec<String> = lines.lock().unwrap().clone();
    if !seen {
        let mut g = got;
        g.push("<the sentinel line appended last was not delivered within 15 s>".into());
        return Ok(Some(g));
    }
    Ok(Some(got.into_iter().take_while(|l| !l.contains(mark)).collect()))
}

fn cli_follow_layer(col: &Collector) {
    let olds: [&[u8]; 3] = [b"", b"o1\no2\n", b"x\n"];
    let appends: Vec<Vec<Vec<u8>>> = vec![vec![b"n1\n".to_vec()], vec![b"n1\nn2\n".to_vec()], vec![b"n".to_vec(), b"1\n".to_vec()]];
    let mut cases = Vec::new();
    for stdin_mode in [false, true] {
        for head in [false, true] {
            for (oi, o) in olds.iter().enumerate() {
                // without --head the start-up seek to the end of an empty file cannot be observed from outside (the
                // position is 0 before and after it), so an append could overtake it: that combination is left to
                // the hook-driven executor layer
                if o.is_empty() && !head {
                    continue;
                }
                for (ai, _) in appends.iter().enumerate() {
                    cases.push((stdin_mode, head, oi, ai));
                }
            }
        }
    }
    let missing = std::sync::atomic::AtomicBool::new(false);
    par_for(cases.len() as u64, |i| {
        let (stdin_mode, head, oi, ai) = cases[i as usize];
        let r = cli_follow_case(stdin_mode, head, olds[oi], &appends[ai]);
        col.eval(1);
        match r {
            Ok(None) => missing.store(true, std::sync::atomic::Ordering::Relaxed),
            Err(e) => col.note(format!("command-line follow case skipped: {}", e)),
            Ok(Some(got)) => {
                col.nontrivial(h64(&("cli-follow", stdin_mode, head, oi, ai)));
                let mut all: Vec<u8> = if head { olds[oi].to_vec() } else { Vec::new() };
                for c in &appends[ai] {
                    all.extend_from_slice(c);
                }
                let want: Vec<String> = String::from_utf8_lossy(&all).lines().map(|l| l.to_string()).collect();
                if got != want {
                    col.fail(fail(
                        format!("follow-cli:{}:{}:{}", if stdin_mode { "stdin" } else { "file" }, if head { "head" } else { "tail-start" }, if got.len() > want.len() { "extra-delivery" } else if got.len() < want.len() { "line-lost" } else { "line-content-differs" }),
                        format!("sqlgrep {} -f{} on a file holding {:?}, then appended {:?}: delivered {:?}, expected {:?}", if stdin_mode { "--stdin <" } else { "" }, if head { " --head" } else { "" }, String::from_utf8_lossy(olds[oi]), appends[ai].iter().map(|c| String::from_utf8_lossy(c).to_string()).collect::<Vec<_>>(), got, want),
                        json!({"layer": "cli-follow", "stdin": stdin_mode, "head": head, "old": oi, "append": ai}),
                        json!(want),
                        json!(got),
                        (oi * 10 + ai) as u64,
                    ));
                }
            }
        }
    });
    if missing.load(std::sync::atomic::Ordering::Relaxed) {
        col.note("CLI binary not built: command-line follow layer skipped".into());
    } else {
        col.layer("command line program in follow mode (file / --stdin, with / without --head; synchronised on the program's file position)", cases.len() as u64, true, json!({"old_contents": ["(empty, --head only)", "o1 LF o2 LF", "x LF"], "appends": ["n1 LF", "n1 LF n2 LF", "n | 1 LF"]}));
    }
}

pub fn replay(case: &J) -> Vec<Failure> {
    if case["layer"].as_str() == Some("pre-execute") {
        println!("note: pre-execute cases are replayed by re-running `./check C10 quick`");
        return vec![];
    }
    if case["layer"].as_str() == Some("cli-follow") {
        let col = Collector::new();
        cli_follow_layer(&col);
        let f = col.failures.lock().unwrap();
        return f.values().flat_map(|v| v.iter().cloned()).filter(|f| f.case == *case).collect();
    }
    if case["layer"].as_str() == Some("huge") {
        let content = huge_content(case["line_len"].as_u64().unwrap() as usize);
        let chunks: Vec<usize> = case["chunks"].as_array().unwrap().iter().map(|x| x.as_u64().unwrap() as usize).collect();
        return judge(&content, &chunks, case["capacity"].as_u64().unwrap() as usize, 0, None).0;
    }
    if case["layer"].as_str() == Some("long") {
        let line_len = case["line_len"].as_u64().unwrap() as usize;
        let mut content: Vec<u8> = Vec::new();
        let mut i = 0usize;
        while content.len() < 3 * 8192 + 100 {
            content.extend_from_slice(format!("{:0width$}", i, width = line_len - 1).as_bytes());
            content.push(b'\n');
            i += 1;
        }
        content.extend_from_slice(b"tail-without-newline");
        let chunks: Vec<usize> = case["chunks"].as_array().unwrap().iter().map(|x| x.as_u64().unwrap() as usize).collect();
        return judge(&content, &chunks, case["capacity"].as_u64().unwrap() as usize, case["pre"].as_u64().unwrap_or(0) as usize, None).0;
    }
    if case["layer"].as_str() == Some("executor") {
        let chunks: Vec<usize> = case["chunks"].as_array().unwrap().iter().map(|x| x.as_u64().unwrap() as usize).collect();
        return executor_case(case["head"].as_bool().unwrap(), &unhex(case["prefix_hex"].as_str().unwrap()), &unhex(case["content_hex"].as_str().unwrap()), &chunks);
    }
    let content = unhex(case["content_hex"].as_str().unwrap());
    let chunks: Vec<usize> = case["chunks"].as_array().unwrap().iter().map(|x| x.as_u64().unwrap() as usize).collect();
    judge(&content, &chunks, case["capacity"].as_u64().unwrap() as usize, case["pre"].as_u64().unwrap_or(0) as usize, case["stutter_at"].as_u64().map(|x| x as usize)).0
}
