//! C11 — incremental (tail -f) results equal a batch run over the same prefix.
//!
//! stateright BFS: State = history of line indexes (<= depth) over a 6-line alphabet, Action = next line. For every state
//! the invariant feeds the history one line at a time to one engine (ExecutionConfig::default, as follow mode does) and
//! compares with fresh batch engines over the same prefix.

use std::sync::Arc;

use serde_json::{json, Value as J};

use sqlgrep::data_model::Tables;

use crate::checks::fail;
use crate::core::*;
use crate::gen::*;
use crate::sut::{self, rows_json, rows_same, Outcome};

fn statements() -> Vec<String> {
    let mut v: Vec<String> = select_corpus().into_iter().map(|s| s.to_string()).collect();
    v.extend(aggregate_corpus(&agg_items(), true));
    v
}

/// second world: a regex table with a DEFAULT column (lines that match no pattern are still rows) and joins
const RDEF: &str = "CREATE TABLE d(line = '^([a-z]+) ([0-9]+)?$', line[1] => k TEXT, line[2] => v INT DEFAULT 7);";

/// third world: a TEXT column whose value can be the empty string (not NULL)
const EDEF: &str = "CREATE TABLE e(line = '^([a-z]+)=([a-z]*)$', line[1] => k TEXT, line[2] => s TEXT);";

fn elines() -> Vec<&'static str> {
    vec!["a=", "a=x", "b=", "a=y", "b=z", "nomatch 1"]
}

fn statements3() -> Vec<String> {
    vec![
        "SELECT k, STRING_AGG(s, ',') FROM e GROUP BY k".into(),
        "SELECT STRING_AGG(s, '-'), COUNT(s) FROM e".into(),
        "SELECT k, COUNT(*) FROM e GROUP BY k HAVING STRING_AGG(s, ',') = ',x'".into(),
        "SELECT k, MIN(s), MAX(s), COUNT(DISTINCT s), ARRAY_AGG(s) FROM e GROUP BY k".into(),
        "SELECT DISTINCT s FROM e".into(),
    ]
}

fn rlines() -> Vec<&'static str> {
    vec!["a 1", "b 2", "a ", "ZZZ", "", "b 5"]
}

fn statements2(joined: &str) -> Vec<String> {
    vec![
        "SELECT k, COUNT(*), SUM(v) FROM d GROUP BY k".into(),
        "SELECT COUNT(*), MIN(v), COUNT(k) FROM d".into(),
        "SELECT DISTINCT v FROM d".into(),
        "SELECT k, v FROM d WHERE v = 7".into(),
        format!("SELECT t.k, COUNT(*), SUM(y) FROM t INNER JOIN u::'{}' ON t.k = u.k GROUP BY t.k", joined),
        format!("SELECT t.k, COUNT(*), SUM(y), COUNT(y) FROM t OUTER JOIN u::'{}' ON t.k = u.k GROUP BY t.k", joined),
        format!("SELECT COUNT(*), MAX(v) FROM t OUTER JOIN u::'{}' ON u.k = t.k", joined),
        format!("SELECT t.k, v, y FROM t OUTER JOIN u::'{}' ON t.k = u.k", joined),
        format!("SELECT DISTINCT y FROM t INNER JOIN u::'{}' ON t.k = u.k WHERE v > 1", joined),
        // WHERE over a joined column: of the two partners of key a the first / the last one is rejected
        format!("SELECT t.k, COUNT(*), SUM(y) FROM t INNER JOIN u::'{}' ON t.k = u.k WHERE y < 2 GROUP BY t.k", joined),
        format!("SELECT t.k, COUNT(*), MAX(v) FROM t INNER JOIN u::'{}' ON t.k = u.k WHERE y > 1 GROUP BY t.k", joined),
        format!("SELECT COUNT(*), SUM(y) FROM t OUTER JOIN u::'{}' ON t.k = u.k WHERE y IS NULL OR y < 2", joined),
    ]
}

fn check_history(tables: &Tables, stmt_text: &str, si: usize, hist: &[u8]) -> (Vec<Failure>, bool, u64) {
    let al = if stmt_text.contains(" FROM d") { rlines() } else if stmt_text.contains(" FROM e") { elines() } else { jlines() };
    let lines: Vec<&str> = hist.iter().map(|i| al[*i as usize]).collect();
    let st = sut::parse(stmt_text).expect(stmt_text);
    let mut out = Vec::new();
    let k = lines.len();
    let case = json!({"stmt": si, "statement": stmt_text, "history": hist, "lines": lines});
    let inc = sut::run_incremental(tables, &st, &lines);
    let batch_k = sut::run_batch(tables, &st, &lines);
    let kind = if st.is_aggregate() { "aggregate" } else { "select" };
    let feature = format!("{}{}{}", kind, if stmt_text.contains("DISTINCT") { "+distinct" } else { "" }, if stmt_text.contains("HAVING") { "+having" } else { "" });
    let (inc_steps, bk) = match (&inc, &batch_k) {
        (Outcome::Ok(i), Outcome::Ok(b)) => (i, b),
        (Outcome::Err(_), Outcome::Err(_)) => return (out, false, h64(&"err")),
        (a, b) => {
            // one driver reports an error / panics and the other does not
            if a.kind() != b.kind() {
                out.push(fail(
                    format!("incremental-vs-batch:{}:outcome {} vs {}", feature, a.kind(), b.kind()),
                    format!("`{}`: incremental run ends with {} but batch run with {}", stmt_text, a.kind(), b.kind()),
                    case,
                    json!(b.kind()),
                    json!(a.kind()),
                    k as u64,
                ));
            }
            return (out, false, h64(&"mixed"));
        }
    };
    let mut changes = 0;
    if st.is_aggregate() {
        let shown = inc_steps.iter().rev().find_map(|s| s.table.as_ref());
        changes = inc_steps.iter().filter(|s| s.table.is_some()).count();
        let shown_rows = shown.map(|t| t.rows.clone()).unwrap_or_default();
        if !rows_same(&shown_rows, &bk.rows) {
            out.push(fail(
                format!("incremental-vs-batch:{}:table-differs", feature),
                format!("`{}`: table shown after line {} differs from a batch run over the first {} lines", stmt_text, k, k),
                case,
                rows_json(&bk.rows),
                rows_json(&shown_rows),
                k as u64,
            ));
        }
    } else if k > 0 {
        let batch_prev = sut::run_batch(tables, &st, &lines[..k - 1]);
        if let Outcome::Ok(bp) = &batch_prev {
            let emitted = inc_steps[k - 1].table.as_ref().map(|t| t.rows.clone()).unwrap_or_default();
            changes = inc_steps.iter().filter(|s| s.table.is_some()).count();
            let mut expect = bp.rows.clone();
            expect.extend(emitted.iter().cloned());
            if !rows_same(&expect, &bk.rows) {
                out.push(fail(
                    format!("incremental-vs-batch:{}:emitted-rows-differ", feature),
                    format!("`{}`: rows emitted for line {} are not the extension batch({}) - batch({})", stmt_text, k, k, k - 1),
                    case,
                    json!({"batch_k": rows_json(&bk.rows), "batch_k_minus_1": rows_json(&bp.rows)}),
                    rows_json(&emitted),
                    k as u64,
                ));
            }
        }
    }
    // the batch side of the comparison through the real batch executor: the prefix as one file and split into two files
    // (the first without a final line break) prints the same
    if k >= 2 && k <= 3 && st.join_clause().is_none() {
        let one = sut::files_from(&lines, &[k]);
        if let Outcome::Ok(base) = sut::run_files(tables, &st, &[one[0].as_slice()], sut::FileRunOpts::default()) {
            for cut in 1..k {
                let two = sut::files_from(&lines, &[cut, k - cut]);
                // (an empty last line needs its terminator to be a line at all)
                let first = if lines[cut - 1].is_empty() { &two[0][..] } else { &two[0][..two[0].len() - 1] };
                let got = sut::run_files(tables, &st, &[first, two[1].as_slice()], sut::FileRunOpts::default());
                let same = matches!(&got, Outcome::Ok(g) if g.printed == base.printed && g.result.is_ok() == base.result.is_ok());
                if !same {
                    out.push(fail(
                        format!("batch-files:{}:differs-when-split", feature),
                        format!("`{}`: the batch executor over the first {} lines prints something else when they are split into two files after line {}", stmt_text, k, cut),
                        json!({"stmt": si, "statement": stmt_text, "history": hist, "lines": lines, "cut": cut}),
                        json!(base.printed),
                        sut::outcome_json(&got, |f| f.to_json()),
                        k as u64,
                    ));
                    break;
                }
            }
        }
    }
    (out, changes >= 2, h64(&format!("{:?}", bk.rows)))
}

pub fn run(ctx: &Ctx) -> i32 {
    let col = Arc::new(Collector::new());
    let tables = Arc::new(sut::make_tables(&format!("{}\n{}\n{}\n{}", JDEF, JDEF_U, RDEF, EDEF)).unwrap());
    let joined_tmp = sut::TempFiles::new(&[b"{\"k\":\"a\",\"y\":1}\nnoise\n{\"k\":\"a\",\"y\":2}\n{\"k\":\"c\",\"y\":3}\n{\"y\":4}\n"]);
    let mut stmts = statements();
    stmts.extend(statements2(&joined_tmp.paths[0]));
    stmts.extend(statements3());
    let depth = ctx.tier.pick(4, 7);
    let k = jlines().len() as u8;
    let mut complete = true;
    let mut done_stmts = 0;
    // the statements are walked with a stride coprime to their number, so that a wall-clock budget that runs out on a
    // loaded machine leaves a spread over all statement kinds instead of cutting off the last ones
    let nst_all = stmts.len();
    let stride = [37usize, 41, 43, 1].into_iter().find(|p| nst_all % p != 0).unwrap_or(1);
    for step in 0..nst_all {
        let si = (step * stride) % nst_all;
        let s = &stmts[si];
        if ctx.over_budget() {
            complete = false;
            break;
        }
        let (c, t, s2) = (col.clone(), tables.clone(), s.clone());
        let stats = run_hist(k, depth, 16, move |hist| {
            let (fs, nt, oh) = check_history(&t, &s2, si, hist);
            c.eval(3);
            c.traces_validated.fetch_add(1, std::sync::atomic::Ordering::Relaxed);
            if nt {
                c.nontrivial(h64(&(si, hist)));
            }
            c.outcome(oh);
            if hist.len() == 3 && hist[0] == 0 && hist[1] == 2 && hist[2] == 1 && si % 9 == 0 {
                c.sample(json!({"statement": s2, "history": hist}));
            }
            for f in fs {
                c.fail(f);
            }
        });
        let expect = seq_count(k as u64, depth as u32);
        if stats.unique_states != expect {
            col.machinery(format!("stateright explored {} states, expected {} for statement {}", stats.unique_states, expect, si));
        }
        col.states.fetch_add(stats.unique_states, std::sync::atomic::Ordering::Relaxed);
        col.transitions.fetch_add(stats.unique_states - 1, std::sync::atomic::Ordering::Relaxed);
        done_stmts += 1;
    }
    col.layer("stateright-bfs per statement", done_stmts, complete, json!({"statements": stmts.len(), "depth": depth, "alphabet": jlines(), "states_per_statement": seq_count(k as u64, depth as u32)}));
    // the real FollowFileExecutor (child processes): the sequence of tables it draws for an aggregate statement (each
    // preceded by the clear-screen sequence) must be the sequence of tables of the engine-level incremental run, and the
    // last one the batch result
    {
        let jstmts: Vec<&str> = vec!["SELECT k, COUNT(*), SUM(v) FROM t GROUP BY k", "SELECT COUNT(*), MAX(s) FROM t", "SELECT k, COUNT(*) FROM t GROUP BY k HAVING MAX(v) < 3", "SELECT DISTINCT COUNT(*) FROM t GROUP BY k", "SELECT k, v FROM t WHERE v > 1"];
        // a regex table whose pattern is anchored at the end of the line (lines ending in a blank, empty lines)
        let rstmts: Vec<&str> = vec!["SELECT k, COUNT(*), SUM(v) FROM d GROUP BY k", "SELECT k, v FROM d", "SELECT DISTINCT v, length(input) FROM d"];
        let mut nf = 0u64;
        for (def, al, fstmts) in [(JDEF, jlines(), jstmts), (RDEF, rlines(), rstmts)] {
        let kq = al.len() as u64;
        for idx in 0..seq_count(kq, 3) {
            let hist = seq_decode(idx, kq, 3);
            if hist.is_empty() {
                continue;
            }
            let lines: Vec<&str> = hist.iter().map(|i| al[*i as usize]).collect();
            // every other history is appended in three fragments per line (the reader polls between the appends)
            let chunks: Vec<Vec<u8>> = if idx % 2 == 0 {
                lines.iter().map(|l| format!("{}\n", l).into_bytes()).collect()
            } else {
                let mut v = Vec::new();
                for l in &lines {
                    let b = format!("{}\n", l).into_bytes();
                    if b.len() >= 3 {
                        let (p, q) = (b.len() / 3, 2 * b.len() / 3);
                        v.push(b[..p].to_vec());
                        v.push(b[p..q].to_vec());
                        v.push(b[q..].to_vec());
                    } else {
                        v.push(b);
                    }
                }
                v
            };
            for text in fstmts.iter().copied() {
                let st = sut::parse(text).unwrap();
                let expected: Vec<Vec<String>> = match sut::run_incremental(&tables, &st, &lines) {
                    Outcome::Ok(steps) => steps.iter().filter_map(|s| s.table.as_ref()).map(|t| {
                        t.rows.iter().map(|r| {
                            let m: serde_json::Map<String, J> = t.columns.iter().cloned().zip(r.iter().map(|v| match v { sut::RVal::Null => J::Null, sut::RVal::Int(i) => json!(i), sut::RVal::Real(x) => json!(x), sut::RVal::Bool(b) => json!(b), sut::RVal::Text(s) => json!(s), other => json!(format!("{:?}", other)) })).collect();
                            serde_json::to_string(&m).unwrap()
                        }).collect()
                    }).collect(),
                    _ => continue,
                };
                let (delivered, end, ok) = crate::checks::c10::follow_child_def(true, b"", &chunks, text, -1, Some(def));
                // split the printed lines into tables at the clear-screen sequence (aggregates); non-aggregates: one table per row batch
                let mut got: Vec<Vec<String>> = Vec::new();
                if st.is_aggregate() {
                    for part in delivered.join("\n").split("\u{1b}[2J\u{1b}[1;1H") {
                        got.push(part.lines().filter(|l| !l.is_empty()).map(|l| l.to_string()).collect());
                    }
                } else {
                    for l in &delivered {
                        got.push(vec![l.clone()]);
                    }
                }
                // an empty table is drawn as a bare clear-screen sequence (no line at all): align by dropping empty expected tables
                let exp_nonempty: Vec<Vec<String>> = expected.iter().filter(|t| !t.is_empty()).cloned().collect();
                let got_cmp: Vec<Vec<String>> = got.iter().map(|t| t.iter().filter(|l| !l.is_empty()).cloned().collect::<Vec<_>>()).filter(|t: &Vec<String>| !t.is_empty()).collect();
                nf += 1;
                col.eval(1);
                col.traces_validated.fetch_add(1, std::sync::atomic::Ordering::Relaxed);
                if exp_nonempty.len() >= 2 {
                    col.nontrivial(h64(&("follow-agg", text, &hist)));
                }
                // timestamps are printed in their text form: compare only statements without timestamp columns (the corpus above has none)
                if got_cmp != exp_nonempty || end != "ok" || !ok {
                    col.fail(fail(
                        format!("follow-executor:tables-differ:{}", if st.is_aggregate() { "aggregate" } else { "select" }),
                        format!("FollowFileExecutor `{}` over {:?}: drew {:?}, the engine shows {:?} (end={})", text, hist, got_cmp, exp_nonempty, end),
                        json!({"layer": "follow-executor", "statement": text, "history": hist}),
                        json!(exp_nonempty),
                        json!(got_cmp),
                        hist.len() as u64,
                    ));
                }
            }
        }
        }
        col.layer("FollowFileExecutor tables (child processes)", nf, true, json!({"statements": 8, "tables": ["JSON t", "regex d (end-anchored pattern, lines ending in a blank, empty lines)"], "max_history": 3}));
    }
    // every driver (batch over files, pipe, command line, follow mode) delivers the same for inputs whose first line
    // starts with a byte order mark / that contain blank and CR-terminated lines
    {
        let defs = format!("{}\n{}", JDEF, RDEF);
        let jl = jlines();
        let jin: Vec<String> = vec![format!("{}{}", '\u{feff}', jl[0]), jl[1].to_string(), jl[2].to_string(), "".to_string(), jl[0].to_string()];
        let rin: Vec<String> = vec!["\u{feff}a 1".to_string(), "b 2".to_string(), "a ".to_string(), "".to_string(), "a 3".to_string()];
        let mut cases: Vec<(String, String, Vec<String>, bool)> = Vec::new();
        for s in ["SELECT k, COUNT(*), SUM(v) FROM t GROUP BY k", "SELECT k, v FROM t", "SELECT COUNT(*) FROM t", "SELECT DISTINCT k FROM t"] {
            cases.push((defs.clone(), s.to_string(), jin.clone(), true));
        }
        for s in ["SELECT k, COUNT(*), SUM(v) FROM d GROUP BY k", "SELECT k, v FROM d", "SELECT input FROM d", "SELECT COUNT(*), MIN(v) FROM d"] {
            cases.push((defs.clone(), s.to_string(), rin.clone(), true));
        }
        crate::drivers::run_layer(&col, &cases, &|s| if s.contains("COUNT(") { "aggregate".to_string() } else { "select".to_string() });
    }
    finish(
        ctx,
        &col,
        Finish {
            level: "model_checking",
            rule: "stateright BFS over input histories (state = history, action = next line of a 6-line alphabet incl. noise / NULL-key / all-NULL-argument lines), one model per statement without LIMIT; invariant on every state: incremental driver vs fresh batch driver of the real engine over the same prefix. Non-trivial: the shown output changed at >= 2 prefixes of the history.".into(),
            exhaustive: true,
            assumptions: vec!["differential between two drivers of the same build".into()],
            bounds: json!({"depth": depth, "statements": stmts.len()}),
        },
    )
}

pub fn replay(case: &J) -> Vec<Failure> {
    let tables = sut::make_tables(&format!("{}\n{}\n{}\n{}", JDEF, JDEF_U, RDEF, EDEF)).unwrap();
    if case["layer"].as_str() == Some("follow-executor") {
        println!("note: follow-executor cases are replayed by re-running `./check C11 quick`");
        return vec![];
    }
    let hist: Vec<u8> = case["history"].as_array().unwrap().iter().map(|x| x.as_u64().unwrap() as u8).collect();
    check_history(&tables, case["statement"].as_str().unwrap(), case["stmt"].as_u64().unwrap() as usize, &hist).0
}
