//! C08 — DISTINCT emits each distinct output tuple once, at its first occurrence.
//!
//! Layer seq: all line sequences up to a bound over a tuple alphabet (one-column differences, NULLs, -0.0/0.0, 1 vs 1.0)
//!            x DISTINCT statements; oracle = first-occurrence filter (reference tuple equality) over the rows of the
//!            same statement without DISTINCT (same build).
//! Layer gap: a tuple recurring after g distinct filler tuples, g up to 1000 (hash-set growth / rehash).
//! Layer agg: aggregate DISTINCT, with and without HAVING, fed incrementally (result table refreshed after every line).

use serde_json::{json, Value as J};

use sqlgrep::data_model::Tables;

use crate::checks::fail;
use crate::core::*;
use crate::refmodel::{distinct_rows, tuple_eq};
use crate::sut::{self, rows_json, rows_same, Outcome, RVal};

const DEF: &str = "CREATE TABLE t({ .m } => m TEXT, { .a } => a REAL, { .b } => b TEXT, { .i } => i INT, { .j } => j INT);";

fn alpha() -> Vec<&'static str> {
    vec![
        r#"{"m":"m","a":1,"b":"a","i":1}"#,
        r#"{"m":"m","a":1.0,"b":"b","i":1}"#,
        r#"{"m":"m","a":2,"b":"a","i":2}"#,
        r#"{"m":"m","b":"a","i":1}"#,
        r#"{"m":"m"}"#,
        r#"{"m":"m","a":0.0,"b":"a","i":0}"#,
        r#"{"m":"m","a":-0.0,"b":"a","i":0}"#,
        r#"{"m":"m","a":1,"b":"a"}"#,
        r#"{"m":"m","i":1,"j":2,"b":"c"}"#,
        r#"{"m":"m","i":2,"j":1,"b":"c"}"#,
        r#"{"m":"m","j":1,"b":"d"}"#,
        "noise",
        // the same columns as the first line, another text
        r#"{"m":"m","a":1,"b":"a","i":1,"z":0}"#,
        // integers that are neighbours beyond 2^53 (equal once rounded to a double)
        r#"{"m":"m","b":"a","i":9007199254740993}"#,
        r#"{"m":"m","b":"a","i":9007199254740992}"#,
    ]
}

fn stmts() -> Vec<&'static str> {
    vec![
        "SELECT DISTINCT a FROM t",
        "SELECT DISTINCT a, b FROM t",
        "SELECT DISTINCT b, a FROM t",
        "SELECT DISTINCT i FROM t",
        "SELECT DISTINCT b FROM t",
        "SELECT DISTINCT a, b, i FROM t WHERE m = 'm'",
        "SELECT DISTINCT a + 1.0, b FROM t",
        "SELECT DISTINCT * FROM t",
        "SELECT DISTINCT i, a FROM t WHERE b = 'a'",
        "SELECT DISTINCT i, j FROM t",
        "SELECT DISTINCT j, i, b FROM t",
        "SELECT DISTINCT b, input FROM t",
        "SELECT DISTINCT a, b FROM t WHERE regexp_matches(input, 'z')",
    ]
}

fn no_distinct(s: &str) -> String {
    s.replacen("SELECT DISTINCT ", "SELECT ", 1)
}

fn has_dup(rows: &[Vec<RVal>]) -> bool {
    (0..rows.len()).any(|i| (0..i).any(|j| tuple_eq(&rows[i], &rows[j])))
}

fn dup_kind(rows: &[Vec<RVal>]) -> String {
    // what kind of duplicate is involved: used in the signature
    let mut kinds = std::collections::BTreeSet::new();
    for i in 0..rows.len() {
        for j in 0..i {
            if tuple_eq(&rows[i], &rows[j]) {
                let mut k = "plain";
                for (x, y) in rows[i].iter().zip(&rows[j]) {
                    match (x, y) {
                        (RVal::Real(p), RVal::Real(q)) if p.to_bits() != q.to_bits() => k = "signed-zero",
                        (RVal::Null, RVal::Null) if k == "plain" => k = "null",
                        _ => {}
                    }
                }
                kinds.insert(k);
            }
        }
    }
    kinds.into_iter().collect::<Vec<_>>().join("+")
}

fn seq_case(tables: &Tables, si: usize, lines: &[&str], case: J, rank: u64, layer: &str) -> (Vec<Failure>, bool) {
    seq_case_text(tables, stmts()[si], lines, case, rank, layer)
}

const NAN_DEF: &str = "CREATE TABLE r(line = '^k=([a-z]+) x=([^ ]+)$', line[1] => k TEXT, line[2] => x REAL);";
const NAN_LINES: [&str; 7] = ["k=a x=NaN", "k=a x=nan", "k=b x=NaN", "k=a x=1.5", "k=a x=inf", "k=b x=-inf", "k=a x=-NaN"];
const NAN_STMTS: [&str; 6] = ["SELECT DISTINCT x FROM r", "SELECT DISTINCT k, x FROM r", "SELECT DISTINCT x - x FROM r", "SELECT DISTINCT x, k FROM r WHERE k = 'a'", "SELECT DISTINCT MAX(x) FROM r GROUP BY k", "SELECT DISTINCT MIN(x), COUNT(*) FROM r GROUP BY k"];

/// REAL values that are not numbers (regex table: NaN in three spellings, infinities; `inf - inf`): all line sequences
fn nan_case(si: usize, seq: &[u8]) -> (Vec<Failure>, bool) {
    let tables = sut::make_tables(NAN_DEF).unwrap();
    let lines: Vec<&str> = seq.iter().map(|i| NAN_LINES[*i as usize]).collect();
    seq_case_text(&tables, NAN_STMTS[si], &lines, json!({"layer": "nan", "stmt": si, "statement": NAN_STMTS[si], "seq": seq, "lines": lines}), seq.len() as u64, "nan")
}

fn seq_case_text(tables: &Tables, d: &str, lines: &[&str], case: J, rank: u64, layer: &str) -> (Vec<Failure>, bool) {
    let dst = sut::parse(d).unwrap();
    let pst = sut::parse(&no_distinct(d)).unwrap();
    let plain = sut::run_batch(tables, &pst, lines);
    let dist = sut::run_batch(tables, &dst, lines);
    let mut out = Vec::new();
    let plain_rows = match &plain {
        Outcome::Ok(t) => t.rows.clone(),
        _ => return (out, false),
    };
    let expected = distinct_rows(&plain_rows);
    let good = matches!(&dist, Outcome::Ok(t) if rows_same(&t.rows, &expected));
    if !good {
        let dev = match &dist {
            Outcome::Ok(t) if t.rows.len() > expected.len() => "duplicate-emitted",
            Outcome::Ok(t) if t.rows.len() < expected.len() => "row-lost",
            Outcome::Ok(_) => "rows-changed",
            Outcome::Err(_) => "error",
            Outcome::Panic(_) => "panic",
        };
        out.push(fail(
            format!("distinct:{}:{}:{}", layer, dev, dup_kind(&plain_rows)),
            format!("`{}`: DISTINCT output differs from the first-occurrence filter of the non-DISTINCT output", d),
            case,
            rows_json(&expected),
            sut::outcome_json(&dist, |t| t.to_json()),
            rank,
        ));
    }
    (out, has_dup(&plain_rows))
}

fn gap_lines(kind: usize, g: usize) -> Vec<String> {
    let (first, last) = match kind {
        0 => (r#"{"m":"m","a":0.0}"#.to_string(), r#"{"m":"m","a":-0.0}"#.to_string()),
        1 => (r#"{"m":"m","a":1}"#.to_string(), r#"{"m":"m","a":1.0}"#.to_string()),
        2 => (r#"{"m":"m"}"#.to_string(), r#"{"m":"m"}"#.to_string()),
        _ => (r#"{"m":"m","a":-0.0}"#.to_string(), r#"{"m":"m","a":0.0}"#.to_string()),
    };
    let mut v = vec![first];
    for f in 0..g {
        v.push(format!(r#"{{"m":"m","a":{}.5}}"#, f + 10));
    }
    v.push(last);
    v
}

const AGG_STMTS: [&str; 16] = [
    "SELECT DISTINCT COUNT(*) FROM t GROUP BY b HAVING b != 'a'",
    "SELECT DISTINCT COUNT(*), MAX(i) FROM t GROUP BY b HAVING COUNT(*) < 2",
    "SELECT DISTINCT MAX(i), MIN(j) FROM t GROUP BY b",
    "SELECT DISTINCT MIN(j), MAX(i) FROM t GROUP BY a HAVING MAX(i) > 0",
    "SELECT DISTINCT COUNT(*) FROM t GROUP BY b",
    "SELECT DISTINCT COUNT(*) FROM t GROUP BY b HAVING COUNT(*) > 0",
    "SELECT DISTINCT MAX(i), COUNT(*) FROM t GROUP BY b",
    "SELECT DISTINCT MAX(i) FROM t GROUP BY b HAVING MAX(i) > 0",
    "SELECT DISTINCT b, COUNT(*) FROM t GROUP BY b HAVING COUNT(*) > 0",
    "SELECT DISTINCT SUM(a) FROM t GROUP BY i",
    "SELECT DISTINCT b, COUNT(*) FROM t GROUP BY b, i",
    "SELECT DISTINCT i, MAX(j) FROM t GROUP BY i, b HAVING COUNT(*) > 0",
    "SELECT DISTINCT i, b FROM t GROUP BY i, b, j",
    "SELECT DISTINCT COUNT(*) > 1 FROM t GROUP BY b",
    "SELECT DISTINCT MAX(i) / 10, COUNT(*) > 0 FROM t GROUP BY b",
    "SELECT DISTINCT MAX(i) IS NULL FROM t GROUP BY a HAVING COUNT(*) > 0",
];

fn agg_case(tables: &Tables, si: usize, seq: &[u8]) -> (Vec<Failure>, bool) {
    let al = alpha();
    let lines: Vec<&str> = seq.iter().map(|i| al[*i as usize]).collect();
    let d = AGG_STMTS[si];
    let dst = sut::parse(d).unwrap();
    let pst = sut::parse(&no_distinct(d)).unwrap();
    let mut out = Vec::new();
    let mut nontrivial = false;
    // batch (one result at the end) and incremental (result after every line)
    let pb = sut::run_batch(tables, &pst, &lines);
    let db = sut::run_batch(tables, &dst, &lines);
    if let Outcome::Ok(p) = &pb {
        let expected = distinct_rows(&p.rows);
        nontrivial |= has_dup(&p.rows);
        if !matches!(&db, Outcome::Ok(t) if rows_same(&t.rows, &expected)) {
            out.push(fail(
                format!("distinct:agg-batch:{}", if d.contains("HAVING") { "having" } else { "no-having" }),
                format!("`{}` (batch): result table is not the duplicate-free form of the non-DISTINCT table", d),
                json!({"layer": "agg", "stmt": si, "statement": d, "seq": seq, "lines": lines, "mode": "batch"}),
                rows_json(&expected),
                sut::outcome_json(&db, |t| t.to_json()),
                seq.len() as u64 * 10,
            ));
        }
    }
    let pi = sut::run_incremental(tables, &pst, &lines);
    let di = sut::run_incremental(tables, &dst, &lines);
    if let (Outcome::Ok(p), Outcome::Ok(dd)) = (&pi, &di) {
        for (k, (ps, ds)) in p.iter().zip(dd.iter()).enumerate() {
            let expected = ps.table.as_ref().map(|t| distinct_rows(&t.rows));
            let got = ds.table.as_ref().map(|t| t.rows.clone());
            let same = match (&expected, &got) {
                (Some(e), Some(g)) => rows_same(e, g),
                (None, None) => true,
                _ => false,
            };
            if !same {
                out.push(fail(
                    format!("distinct:agg-refresh:{}:{}", if d.contains("HAVING") { "having" } else { "no-having" }, if k == 0 { "first" } else { "later" }),
                    format!("`{}` (refresh after line {}): shown table is not the duplicate-free form of the non-DISTINCT table", d, k + 1),
                    json!({"layer": "agg", "stmt": si, "statement": d, "seq": seq, "lines": lines, "mode": "incremental", "k": k + 1}),
                    expected.map(|e| rows_json(&e)).unwrap_or(J::Null),
                    got.map(|e| rows_json(&e)).unwrap_or(J::Null),
                    seq.len() as u64 * 10 + k as u64,
                ));
                break;
            }
        }
    } else if !matches!((&pi, &di), (Outcome::Err(_), Outcome::Err(_))) {
        out.push(fail(
            "distinct:agg-refresh:outcome-differs".into(),
            format!("`{}` incremental: DISTINCT and non-DISTINCT runs end differently ({} vs {})", d, di.kind(), pi.kind()),
            json!({"layer": "agg", "stmt": si, "statement": d, "seq": seq, "lines": lines, "mode": "incremental"}),
            json!(pi.kind()),
            json!(di.kind()),
            seq.len() as u64 * 10,
        ));
    }
    (out, nontrivial)
}

const JOIN_DEF: &str = "CREATE TABLE u({ .b } => b TEXT, { .y } => y INT);";
const JOINED: &str = "{\"b\":\"a\",\"y\":1}\n{\"b\":\"a\",\"y\":1}\n{\"b\":\"a\",\"y\":2}\n{\"b\":\"c\",\"y\":1}\n{\"b\":\"c\",\"y\":1}\n";
const JOIN_STMTS: [&str; 8] = [
    "SELECT DISTINCT input, y FROM t INNER JOIN u::'@' ON t.b = u.b",
    "SELECT DISTINCT y, input FROM t OUTER JOIN u::'@' ON t.b = u.b",
    "SELECT DISTINCT t.b, input, y FROM t INNER JOIN u::'@' ON t.b = u.b WHERE y > 0",
    "SELECT DISTINCT t.b, y FROM t INNER JOIN u::'@' ON t.b = u.b",
    "SELECT DISTINCT y FROM t OUTER JOIN u::'@' ON t.b = u.b",
    "SELECT DISTINCT t.b, COUNT(*) FROM t INNER JOIN u::'@' ON t.b = u.b GROUP BY t.b",
    "SELECT DISTINCT COUNT(*), SUM(y) FROM t INNER JOIN u::'@' ON t.b = u.b GROUP BY t.b",
    "SELECT DISTINCT i, MAX(y), COUNT(y) FROM t OUTER JOIN u::'@' ON t.b = u.b GROUP BY i",
];

/// DISTINCT over a join whose joined file repeats rows: the DISTINCT output is the duplicate-free form of the plain output
fn join_case(tables: &Tables, si: usize, seq: &[u8], path: &str) -> (Vec<Failure>, bool) {
    let al = alpha();
    let lines: Vec<&str> = seq.iter().map(|i| al[*i as usize]).collect();
    let d = JOIN_STMTS[si].replace('@', path);
    let dst = sut::parse(&d).unwrap();
    let pst = sut::parse(&no_distinct(&d)).unwrap();
    let mut out = Vec::new();
    let (p, dd) = (sut::run_batch(tables, &pst, &lines), sut::run_batch(tables, &dst, &lines));
    let mut nontrivial = false;
    if let Outcome::Ok(pt) = &p {
        let expected = distinct_rows(&pt.rows);
        nontrivial = has_dup(&pt.rows);
        if !matches!(&dd, Outcome::Ok(t) if rows_same(&t.rows, &expected)) {
            out.push(fail(
                format!("distinct:join:{}", if dst.is_aggregate() { "aggregate" } else { "select" }),
                format!("`{}`: result is not the duplicate-free form of the non-DISTINCT result", JOIN_STMTS[si]),
                json!({"layer": "join", "stmt": si, "statement": JOIN_STMTS[si], "seq": seq, "lines": lines, "joined_file": JOINED}),
                rows_json(&expected),
                sut::outcome_json(&dd, |t| t.to_json()),
                seq.len() as u64 * 10,
            ));
        }
    }
    (out, nontrivial)
}

pub fn run(ctx: &Ctx) -> i32 {
    let col = Collector::new();
    let tables = sut::make_tables(DEF).unwrap();
    let al = alpha();
    let k = al.len() as u64;
    let maxlen = ctx.tier.pick(4, 6) as u32;
    let nseq = seq_count(k, maxlen);
    let nst = stmts().len() as u64;
    let (done, complete) = par_for_budget(ctx, nseq * nst, 64, |idx| {
        let si = (idx % nst) as usize;
        let seq = seq_decode(idx / nst, k, maxlen);
        let lines: Vec<&str> = seq.iter().map(|i| al[*i as usize]).collect();
        let case = json!({"layer": "seq", "stmt": si, "statement": stmts()[si], "seq": seq, "lines": lines});
        let (fs, nt) = seq_case(&tables, si, &lines, case, seq.len() as u64 * 100, "seq");
        col.eval(2);
        col.states.fetch_add(1, std::sync::atomic::Ordering::Relaxed);
        col.transitions.fetch_add(seq.len() as u64, std::sync::atomic::Ordering::Relaxed);
        col.traces_validated.fetch_add(1, std::sync::atomic::Ordering::Relaxed);
        if nt {
            col.nontrivial(h64(&("seq", si, &seq)));
        }
        col.outcome(h64(&(fs.len(), nt, seq.iter().map(|x| *x as u64).sum::<u64>() % 64)));
        if idx % 50021 == 11 {
            col.sample(json!({"layer": "seq", "statement": stmts()[si], "lines": lines}));
        }
        for f in fs {
            col.fail(f);
        }
    });
    col.layer("seq", done, complete, json!({"max_len": maxlen, "alphabet": al, "statements": stmts()}));

    // gaps
    let gaps = [0usize, 1, 2, 50, 130, 300, 1000, 5000];
    let mut ngap = 0;
    for kind in 0..4 {
        for g in gaps {
            let lines = gap_lines(kind, g);
            let lrefs: Vec<&str> = lines.iter().map(|s| s.as_str()).collect();
            let case = json!({"layer": "gap", "kind": kind, "gap": g});
            let (fs, nt) = seq_case(&tables, 0, &lrefs, case, g as u64, "gap");
            col.eval(2);
            ngap += 1;
            if nt {
                col.nontrivial(h64(&("gap", kind, g)));
            }
            for f in fs {
                col.fail(f);
            }
        }
    }
    col.layer("gap", ngap, true, json!({"gaps": gaps}));
    col.sample(json!({"layer": "gap", "first": r#"{"m":"m","a":0.0}"#, "fillers": 130, "last": r#"{"m":"m","a":-0.0}"#}));

    // aggregate DISTINCT
    let amax = ctx.tier.pick(3, 5) as u32;
    let na = seq_count(k, amax);
    let nas = AGG_STMTS.len() as u64;
    let (done, complete) = par_for_budget(ctx, na * nas, 64, |idx| {
        let si = (idx % nas) as usize;
        let seq = seq_decode(idx / nas, k, amax);
        let (fs, nt) = agg_case(&tables, si, &seq);
        col.eval(4);
        col.states.fetch_add(seq.len() as u64 + 1, std::sync::atomic::Ordering::Relaxed);
        col.transitions.fetch_add(seq.len() as u64, std::sync::atomic::Ordering::Relaxed);
        col.traces_validated.fetch_add(2, std::sync::atomic::Ordering::Relaxed);
        if nt {
            col.nontrivial(h64(&("agg", si, &seq)));
        }
        if idx % 5003 == 3 {
            col.sample(json!({"layer": "agg", "statement": AGG_STMTS[si], "lines": seq}));
        }
        for f in fs {
            col.fail(f);
        }
    });
    col.layer("agg", done, complete, json!({"max_len": amax, "statements": AGG_STMTS}));

    {
        let jt = sut::make_tables(&format!("{}\n{}", DEF, JOIN_DEF)).unwrap();
        let tmp = sut::TempFiles::new(&[JOINED.as_bytes()]);
        let jmax = 3u32;
        let nj = seq_count(k, jmax) * JOIN_STMTS.len() as u64;
        let (done, complete) = par_for_budget(ctx, nj, 64, |idx| {
            let si = (idx % JOIN_STMTS.len() as u64) as usize;
            let seq = seq_decode(idx / JOIN_STMTS.len() as u64, k, jmax);
            let (fs, nt) = join_case(&jt, si, &seq, &tmp.paths[0]);
            col.eval(2);
            if nt {
                col.nontrivial(h64(&("join", si, &seq)));
            }
            for f in fs {
                col.fail(f);
            }
        });
        col.layer("DISTINCT over joins (joined file with repeated rows)", done, complete, json!({"statements": JOIN_STMTS, "max_len": jmax}));
    }
    // NaN / infinities
    {
        let k = NAN_LINES.len() as u64;
        let ml = ctx.tier.pick(4u32, 5u32);
        let total = seq_count(k, ml) * NAN_STMTS.len() as u64;
        let (done, complete) = par_for_budget(ctx, total, 64, |idx| {
            let si = (idx % NAN_STMTS.len() as u64) as usize;
            let seq = seq_decode(idx / NAN_STMTS.len() as u64, k, ml);
            let (fs, nt) = nan_case(si, &seq);
            col.eval(1);
            if nt {
                col.nontrivial(h64(&("nan", si, &seq)));
            }
            for f in fs {
                col.fail(f);
            }
        });
        col.layer("REAL values that are not numbers (NaN spellings, infinities, inf - inf)", done, complete, json!({"lines": NAN_LINES, "statements": NAN_STMTS, "max_len": ml}));
    }
    // many distinct rows: 12 000 different values, then every one of them again (nothing a bounded memory may forget)
    {
        let n = 12_000usize;
        let mut lines: Vec<String> = (0..n).map(|i| format!(r#"{{"m":"m","i":{},"b":"v{}"}}"#, i, i % 7)).collect();
        lines.extend((0..n).map(|i| format!(r#"{{"m":"m","i":{},"b":"v{}"}}"#, i, i % 7)));
        let lrefs: Vec<&str> = lines.iter().map(|s| s.as_str()).collect();
        for (text, want) in [("SELECT DISTINCT i FROM t", n), ("SELECT DISTINCT i, b FROM t", n), ("SELECT DISTINCT b FROM t", 7), ("SELECT DISTINCT COUNT(*) FROM t GROUP BY i", 1)] {
            col.eval(1);
            col.nontrivial(h64(&("many", text)));
            let got = match sut::run_batch(&tables, &sut::parse(text).unwrap(), &lrefs) {
                Outcome::Ok(t) => Some(t.rows.len()),
                _ => None,
            };
            if got != Some(want) {
                col.fail(fail(
                    "distinct:many-rows".into(),
                    format!("`{}` over {} different values, each twice: {:?} rows, expected {}", text, n, got, want),
                    json!({"layer": "many", "statement": text}),
                    json!(want),
                    json!(got),
                    1,
                ));
            }
        }
        col.layer("many distinct rows (12 000 values, each twice)", 4, true, json!({}));
    }
    // DISTINCT statements through every driver
    {
        let input: Vec<String> = [0usize, 1, 12, 2, 0, 5, 6, 3, 11, 4, 4].iter().map(|i| al[*i].to_string()).collect();
        let mut cases: Vec<(String, String, Vec<String>, bool)> = Vec::new();
        for (i, s) in stmts().iter().enumerate() {
            cases.push((DEF.to_string(), s.to_string(), input.clone(), i % 2 == 0));
        }
        for (i, s) in AGG_STMTS.iter().enumerate() {
            cases.push((DEF.to_string(), s.to_string(), input.clone(), i % 2 == 1));
        }
        crate::drivers::run_layer(&col, &cases, &|s| if s.contains("GROUP BY") { "distinct+aggregate".to_string() } else { "distinct".to_string() });
    }
    finish(
        ctx,
        &col,
        Finish {
            level: "model_checking",
            rule: "operation sequences against a reference: every line sequence up to the bound over a 9-line tuple alphabet x DISTINCT statements; DISTINCT output must equal the first-occurrence filter (reference tuple equality: NULL=NULL, numbers by value, -0.0=0.0) of the non-DISTINCT output of the same build; long-gap scenarios up to 5000 fillers; aggregate DISTINCT in batch and after every incremental refresh. states = histories, transitions = lines fed. Non-trivial: the non-DISTINCT output contains a duplicate tuple.".into(),
            exhaustive: true,
            assumptions: vec!["reference tuple equality as stated in C08 (NULL equal to NULL, numbers by value)".into()],
            bounds: json!({"max_len": maxlen, "agg_max_len": amax}),
        },
    )
}

pub fn replay(case: &J) -> Vec<Failure> {
    if case["layer"].as_str() == Some("nan") {
        let seq: Vec<u8> = case["seq"].as_array().unwrap().iter().map(|x| x.as_u64().unwrap() as u8).collect();
        return nan_case(case["stmt"].as_u64().unwrap() as usize, &seq).0;
    }
    let tables = sut::make_tables(DEF).unwrap();
    let al = alpha();
    match case["layer"].as_str() {
        Some("seq") => {
            let seq: Vec<u8> = case["seq"].as_array().unwrap().iter().map(|x| x.as_u64().unwrap() as u8).collect();
            let lines: Vec<&str> = seq.iter().map(|i| al[*i as usize]).collect();
            seq_case(&tables, case["stmt"].as_u64().unwrap() as usize, &lines, case.clone(), 0, "seq").0
        }
        Some("many") => {
            println!("note: the many-rows cases are replayed by re-running `./check C08 quick`");
            vec![]
        }
        Some("join") => {
            let jt = sut::make_tables(&format!("{}\n{}", DEF, JOIN_DEF)).unwrap();
            let tmp = sut::TempFiles::new(&[JOINED.as_bytes()]);
            let seq: Vec<u8> = case["seq"].as_array().unwrap().iter().map(|x| x.as_u64().unwrap() as u8).collect();
            join_case(&jt, case["stmt"].as_u64().unwrap() as usize, &seq, &tmp.paths[0]).0
        }
        Some("gap") => {
            let lines = gap_lines(case["kind"].as_u64().unwrap() as usize, case["gap"].as_u64().unwrap() as usize);
            let lrefs: Vec<&str> = lines.iter().map(|s| s.as_str()).collect();
            seq_case(&tables, 0, &lrefs, case.clone(), 0, "gap").0
        }
        Some("agg") => {
            let seq: Vec<u8> = case["seq"].as_array().unwrap().iter().map(|x| x.as_u64().unwrap() as u8).collect();
            let mode = case["mode"].as_str().unwrap_or("").to_string();
            agg_case(&tables, case["stmt"].as_u64().unwrap() as usize, &seq).0.into_iter().filter(|f| f.case["mode"].as_str() == Some(&mode)).collect()
        }
        _ => vec![],
    }
}
