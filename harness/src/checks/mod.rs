//! one driver per property

use serde_json::Value as J;

use crate::core::{replay_report, Ctx, Failure};

pub mod c01;
pub mod c02;
pub mod c03;
pub mod c04;
pub mod c05;
pub mod c06;
pub mod c07;
pub mod c08;
pub mod c09;
pub mod c10;
pub mod c11;
pub mod c12;
pub mod c13;
pub mod c14;
pub mod c15;
pub mod c16;
pub mod c17;
pub mod c18;
pub mod c19;
pub mod c20;

pub fn run(ctx: &Ctx) -> i32 {
    crate::core::install_watchdog(ctx.prop);
    match ctx.prop {
        "C01" => c01::run(ctx),
        "C02" => c02::run(ctx),
        "C03" => c03::run(ctx),
        "C04" => c04::run(ctx),
        "C05" => c05::run(ctx),
        "C06" => c06::run(ctx),
        "C07" => c07::run(ctx),
        "C08" => c08::run(ctx),
        "C09" => c09::run(ctx),
        "C10" => c10::run(ctx),
        "C11" => c11::run(ctx),
        "C12" => c12::run(ctx),
        "C13" => c13::run(ctx),
        "C14" => c14::run(ctx),
        "C15" => c15::run(ctx),
        "C16" => c16::run(ctx),
        "C17" => c17::run(ctx),
        "C18" => c18::run(ctx),
        "C19" => c19::run(ctx),
        "C20" => c20::run(ctx),
        _ => {
            println!("MACHINERY-ERROR: unknown property {}", ctx.prop);
            2
        }
    }
}

pub fn replay(prop: &'static str, path: &str) -> i32 {
    let f: Box<dyn Fn(&J) -> Vec<Failure>> = match prop {
        "C01" => Box::new(c01::replay),
        "C02" => Box::new(c02::replay),
        "C03" => Box::new(c03::replay),
        "C04" => Box::new(c04::replay),
        "C05" => Box::new(c05::replay),
        "C06" => Box::new(c06::replay),
        "C07" => Box::new(c07::replay),
        "C08" => Box::new(c08::replay),
        "C09" => Box::new(c09::replay),
        "C10" => Box::new(c10::replay),
        "C11" => Box::new(c11::replay),
        "C12" => Box::new(c12::replay),
        "C13" => Box::new(c13::replay),
        "C14" => Box::new(c14::replay),
        "C15" => Box::new(c15::replay),
        "C16" => Box::new(c16::replay),
        "C17" => Box::new(c17::replay),
        "C18" => Box::new(c18::replay),
        "C19" => Box::new(c19::replay),
        "C20" => Box::new(c20::replay),
        _ => {
            println!("MACHINERY-ERROR: unknown property {}", prop);
            return 2;
        }
    };
    // cases of the shared cross-driver layer are replayed by that layer
    let g = move |c: &J| crate::drivers::replay_any(c).unwrap_or_else(|| f(c));
    replay_report(prop, path, &g)
}

pub fn child_main(args: &[String]) -> i32 {
    match args.get(0).map(|s| s.as_str()) {
        Some("parse") => c14::child(args),
        Some("parsebatch") => c14::child_batch(args),
        Some("seeds") => c18::child(args),
        Some("tz") => c09::child(args),
        Some("follow") => c10::child(args),
        Some("stmt") => crate::sut::child_stmt(args),
        _ => 2,
    }
}

pub fn fail(signature: String, what: String, case: J, expected: J, actual: J, rank: u64) -> Failure {
    Failure { signature, what, case, expected, actual, rank }
}
