//! C18 — output is deterministic and independent of hash seeds.
//!
//! Every source of nondeterminism in the library is a RandomState key (std HashMap/HashSet). An LD_PRELOAD shim
//! (shim/seedshim.c) makes those keys a harness choice: each replica runs in a fresh thread whose hash keys are a
//! function of (process, seed) only. Enumerated: statement corpus x inputs x table-definition contexts x seeds x fresh
//! processes (lazy statics re-seeded). Oracle: byte-identical printed output. A canary HashMap built in every replica
//! proves that the seeds really permute iteration orders.

use std::collections::{BTreeMap, BTreeSet, HashMap};

use serde_json::{json, Value as J};

use sqlgrep::executor::OutputFormat;

use crate::checks::fail;
use crate::core::*;
use crate::gen::*;
use crate::sut::{self, FileRunOpts, Outcome};

const MAIN_INPUT: &str = "{\"k\":\"a\",\"v\":1,\"r\":1.5,\"s\":\"zz\",\"b\":true,\"ts\":\"2021-01-01 00:00:03\"}\n{\"k\":\"c\",\"v\":7,\"s\":\"q\"}\n{\"k\":\"a\",\"v\":3,\"r\":0.5,\"s\":\"aa\",\"b\":false}\nnoise\n{\"k\":\"b\",\"v\":2,\"r\":2.0,\"s\":\"mm\",\"b\":true}\n{\"k\":\"b\"}\n{\"v\":3,\"r\":-1.0,\"s\":\"b\",\"b\":false}\n{\"k\":\"d\",\"v\":3}\n{\"k\":\"e\",\"v\":4,\"s\":\"e\"}\n{\"k\":\"c\",\"v\":1}\n";
const JOINED_INPUT: &str = "{\"k\":\"a\",\"y\":1,\"w\":\"p\"}\n{\"k\":\"b\",\"y\":3,\"w\":\"q\"}\n{\"k\":\"a\",\"y\":2,\"w\":\"p\"}\n{\"k\":\"c\",\"y\":5}\n{\"k\":\"a\",\"y\":4,\"w\":\"r\"}\n{\"k\":\"e\",\"y\":6}\n{\"k\":\"c\",\"y\":0,\"w\":\"s\"}\n";

fn statements(joined: &str) -> Vec<String> {
    let mut v: Vec<String> = vec![
        "SELECT * FROM t".into(),
        "SELECT DISTINCT k, b FROM t".into(),
        "SELECT k, COUNT(*), SUM(v), MIN(s), MAX(r), COUNT(DISTINCT v), AVG(v) FROM t GROUP BY k".into(),
        "SELECT k, b, COUNT(*), STRING_AGG(s, ','), ARRAY_AGG(v) FROM t WHERE v IS NOT NULL GROUP BY k, b".into(),
        "SELECT k, COUNT(*) FROM t GROUP BY k HAVING COUNT(*) > 0 AND SUM(v) > 0 AND MAX(v) < 100 AND MIN(v) > 0".into(),
        "SELECT v, COUNT(DISTINCT k), BOOL_OR(b), PERCENTILE(v, 0.5) FROM t GROUP BY v".into(),
        "SELECT k FROM t GROUP BY k HAVING COUNT(*) = 2 AND SUM(v) = 4".into(),
        "SELECT k, COUNT(*) FROM t GROUP BY k HAVING MAX(v) = 7 AND MIN(v) = 1 AND COUNT(v) = 2 AND SUM(v) = 8".into(),
        "SELECT k FROM t GROUP BY k HAVING SUM(v) > COUNT(*) AND MIN(v) < MAX(v)".into(),
        "SELECT k FROM t WHERE v IN (1, 2, 'three', 3, 7) OR k NOT IN ('zz', 4, 'yy')".into(),
        "SELECT DISTINCT COUNT(*), MAX(v) FROM t GROUP BY k".into(),
        "SELECT DISTINCT COUNT(v) FROM t GROUP BY k LIMIT 2".into(),
        "SELECT DISTINCT b, COUNT(*) FROM t GROUP BY k, b HAVING COUNT(*) > 0 LIMIT 3".into(),
        "SELECT * FROM tt".into(),
        "SELECT k, COUNT(*) FROM Tt GROUP BY k".into(),
        "SELECT COUNT(*), COUNT(DISTINCT k), COUNT(DISTINCT s), STDDEV(v) FROM t".into(),
        "SELECT array_unique(ARRAY[v, 3, 1, v]), upper(k) FROM t".into(),
    ];
    v.push(format!("SELECT * FROM t INNER JOIN u::'{}' ON t.k = u.k", joined));
    v.push(format!("SELECT * FROM t OUTER JOIN u::'{}' ON u.k = t.k WHERE v > 0", joined));
    v.push(format!("SELECT t.k, COUNT(*), SUM(y), STRING_AGG(w, '+') FROM t INNER JOIN u::'{}' ON t.k = u.k GROUP BY t.k", joined));
    v.push(format!("SELECT DISTINCT w, t.k FROM t INNER JOIN u::'{}' ON t.k = u.k", joined));
    v
}

const EXTRA1: &str = "CREATE TABLE aaa({ .k } => k INT, { .zz } => zz TEXT);";
const EXTRA2: &str = "CREATE TABLE zzz(line = '(x)(y)', line[1] => k TEXT, line[2] => v TEXT);";

fn def_contexts() -> Vec<String> {
    vec![
        format!("{}\n{}", JDEF, JDEF_U),
        format!("{}\n{}\n{}", EXTRA1, JDEF, JDEF_U),
        format!("{}\n{}\n{}\n{}", JDEF_U, EXTRA2, JDEF, EXTRA1),
        // tables whose names differ only in letter case (a query naming none of them exactly must behave the same in every run)
        format!("{}\n{}\n{}\n{}", JDEF.replace("TABLE t(", "TABLE TT("), JDEF, JDEF.replace("TABLE t(", "TABLE tT(").replace("{ .v } => v INT", "{ .s } => v TEXT"), JDEF_U),
        // the joined table defined differently under the same name (a process that ran the other contexts before must
        // print what a process that starts here prints: odd-numbered child processes walk the contexts in reverse order)
        format!("{}\n{}", JDEF, "CREATE TABLE u({ .k } => k TEXT, { .y } => y INT, { .k } => w TEXT);"),
    ]
}

extern "C" {
    fn getrandom(buf: *mut core::ffi::c_void, buflen: usize, flags: u32) -> isize;
}

/// returns true when the shim answered the magic call
fn set_thread_seed(seed: u64) -> bool {
    let mut s = seed;
    let r = unsafe { getrandom(&mut s as *mut u64 as *mut core::ffi::c_void, 8, 0x5EED5EED) };
    r == 0x5EED
}

fn canary() -> String {
    let mut m: HashMap<u32, u32> = HashMap::new();
    for i in 0..4 {
        m.insert(i, i);
    }
    m.keys().map(|k| k.to_string()).collect::<Vec<_>>().join("")
}

/// child: for every case run all seeds in fresh threads; print one JSON line per case
pub fn child(args: &[String]) -> i32 {
    let proc_index: u64 = args[1].parse().unwrap();
    let nseeds: u64 = args[2].parse().unwrap();
    let shim_expected = args.get(3).map(|s| s == "shim").unwrap_or(true);
    let tmp = sut::TempFiles::new(&[JOINED_INPUT.as_bytes()]);
    let joined = tmp.paths[0].clone();
    let stmts = statements(&joined);
    let defs = def_contexts();
    let mut order: Vec<usize> = (0..defs.len()).collect();
    if proc_index % 2 == 1 {
        order.reverse();
    }
    for di in order {
        let d = &defs[di];
        for (si, s) in stmts.iter().enumerate() {
            for (fi, fmt) in ["text", "json"].into_iter().enumerate() {
                let case_no = (di * stmts.len() + si) * 2 + fi;
                let mut outputs: BTreeMap<String, Vec<u64>> = BTreeMap::new();
                let mut canaries: BTreeSet<String> = BTreeSet::new();
                let mut first: Vec<String> = vec![];
                let mut shim_ok = true;
                for seed in 0..nseeds {
                    let (d2, s2, fmt2) = (d.clone(), s.clone(), fmt.to_string());
                    let h = std::thread::spawn(move || {
                        let ok = set_thread_seed(proc_index * 1_000_003 + seed * 7919 + 1);
                        let can = canary();
                        let tables = sut::make_tables(&d2).expect("defs");
                        let st = sut::parse(&s2).expect("stmt");
                        let format = if fmt2 == "json" { OutputFormat::Json } else { OutputFormat::Text };
                        // the input is given as two files (cut after the fifth line)
                        let cut = MAIN_INPUT.match_indices('\n').nth(4).map(|(i, _)| i + 1).unwrap();
                        let r = sut::run_files(&tables, &st, &[MAIN_INPUT[..cut].as_bytes(), MAIN_INPUT[cut..].as_bytes()], FileRunOpts { format, ..Default::default() });
                        let lines = match r {
                            Outcome::Ok(fr) => {
                                let mut l = fr.printed.clone();
                                l.push(format!("result={:?}", fr.result));
                                l
                            }
                            Outcome::Err(e) => vec![format!("error {}", e)],
                            Outcome::Panic(p) => vec![format!("panic {}", p.msg)],
                        };
                        (ok, can, lines)
                    });
                    let (ok, can, lines) = h.join().unwrap();
                    shim_ok &= ok;
                    canaries.insert(can);
                    let key = format!("{:016x}", h64(&lines));
                    if first.is_empty() {
                        first = lines.clone();
                    }
                    outputs.entry(key).or_default().push(seed);
                }
                println!("{}", json!({"case": case_no, "defs": di, "stmt": si, "statement": s.replace(&joined, "<joined>"), "format": fmt, "outputs": outputs, "canaries": canaries, "first": first, "shim": shim_ok || !shim_expected}));
            }
        }
    }
    // REAL values whose equality classes have several bit patterns (NaN / -NaN, 0.0 / -0.0) in hashed containers: a
    // seed-dependent split of such a class shows for few seeds only, so these statements get 40 x the seeds
    {
        let ndef = "CREATE TABLE n(line = '^(\\\\S+) (\\\\S+)$', line[1] => k TEXT, line[2] => x REAL);\nCREATE TABLE m(line = '^(\\\\S+) (\\\\S+)$', line[1] => j TEXT, line[2] => x REAL);\nCREATE TABLE big(line = '^(\\\\S+) (\\\\S+)$', line[1] => k TEXT, line[2] => v INT);";
        let ninput = "a NaN\nb -NaN\nc 1.5\nd NaN\ne -0.0\nf 0.0\ng -NaN\n";
        let jtmp = sut::TempFiles::new(&[b"p -NaN\nq 0.0\nr NaN\n"]);
        let nst = vec![
            "SELECT COUNT(DISTINCT x), COUNT(*) FROM n".to_string(),
            "SELECT x, COUNT(*) FROM n GROUP BY x".to_string(),
            "SELECT DISTINCT x FROM n".to_string(),
            format!("SELECT k, j FROM n INNER JOIN m::'{}' ON n.x = m.x", jtmp.paths[0]),
            "SELECT array_unique(ARRAY_AGG(x)) FROM n".to_string(),
            "SELECT array_unique(ARRAY_AGG(k)), COUNT(DISTINCT k) FROM big".to_string(),
            "SELECT v, array_unique(ARRAY_AGG(k)) FROM big GROUP BY v".to_string(),
        ];
        // 150 lines with 100 different keys for the statements over table big
        let big_input: String = (0..150).map(|i| format!("key{} {}\n", (i * 37) % 100, i % 3)).collect();
        for (si, s) in nst.iter().enumerate() {
            let mut outputs: BTreeMap<String, Vec<u64>> = BTreeMap::new();
            let mut canaries: BTreeSet<String> = BTreeSet::new();
            let mut first: Vec<String> = vec![];
            let mut shim_ok = true;
            for seed in 0..nseeds * 40 {
                let s2 = s.clone();
                let big2 = big_input.clone();
                let h = std::thread::spawn(move || {
                    let ok = set_thread_seed(proc_index * 7_000_003 + seed * 104_729 + 11);
                    let can = canary();
                    let tables = sut::make_tables(ndef).expect("defs");
                    let st = sut::parse(&s2).expect("stmt");
                    let input: &str = if s2.contains(" big") { &big2 } else { ninput };
                    let r = sut::run_files(&tables, &st, &[input.as_bytes()], FileRunOpts { format: OutputFormat::Json, ..Default::default() });
                    let lines = match r {
                        Outcome::Ok(fr) => {
                            let mut l = fr.printed.clone();
                            l.push(format!("result={:?}", fr.result));
                            l
                        }
                        Outcome::Err(e) => vec![format!("error {}", e)],
                        Outcome::Panic(p) => vec![format!("panic {}", p.msg)],
                    };
                    (ok, can, lines)
                });
                let (ok, can, lines) = h.join().unwrap();
                shim_ok &= ok;
                canaries.insert(can);
                let key = format!("{:016x}", h64(&lines));
                if first.is_empty() {
                    first = lines.clone();
                }
                outputs.entry(key).or_default().push(seed);
            }
            // keep the report small: seeds of the majority output are not listed
            let outputs: BTreeMap<String, Vec<u64>> = outputs.into_iter().map(|(k, v)| (k, v.into_iter().take(8).collect())).collect();
            println!("{}", json!({"case": 100000 + si, "defs": 99, "stmt": si, "statement": s.replace(&jtmp.paths[0], "<joined>"), "format": "json", "outputs": outputs, "canaries": canaries, "first": first, "shim": shim_ok || !shim_expected}));
        }
    }
    0
}

pub fn run(ctx: &Ctx) -> i32 {
    let col = Collector::new();
    let nproc = ctx.tier.pick(4u64, 16u64);
    let nseeds = ctx.tier.pick(16u64, 256u64);
    sweep(&col, nproc, nseeds);
    // the same query over the same final content prints the same whichever way the content arrives: batch over split
    // files / a pipe, the command line program, follow mode with the lines appended at once, one by one and in three
    // fragments each (cuts fall inside multi-byte characters)
    {
        let def = "CREATE TABLE t(line = '^([^ ]+) (.*)$', line[1] => k TEXT, line[2] => s TEXT);";
        let input: Vec<String> = vec!["é café".into(), "b ünï".into(), "é 😀😀".into(), "c plain".into(), "b éé".into()];
        let mut cases: Vec<(String, String, Vec<String>, bool)> = Vec::new();
        for st in ["SELECT k, s FROM t", "SELECT input FROM t", "SELECT k, COUNT(*), STRING_AGG(s, '|') FROM t GROUP BY k", "SELECT DISTINCT k FROM t", "SELECT upper(s), length(s) FROM t WHERE k = 'é'"] {
            cases.push((def.to_string(), st.to_string(), input.clone(), true));
        }
        crate::drivers::run_layer(&col, &cases, &|_| "non-ascii".to_string());
        // statements that fail while running (pattern that does not compile, failing cast, unknown column, division by
        // zero) and statements around them: the same list forwards / backwards / twice in one thread
        let mut err_cases: Vec<(String, String, Vec<String>)> = Vec::new();
        for st in [
            "SELECT k FROM t WHERE regexp_matches(s, 'caf(')",
            "SELECT COUNT(*) FROM t WHERE NOT regexp_matches(s, '[a-')",
            "SELECT k FROM t WHERE regexp_matches(s, 'caf')",
            "SELECT k, regexp_matches(s, k) FROM t",
            "SELECT s::int FROM t",
            "SELECT nosuch FROM t",
            "SELECT length(s) / (length(k) - 1) FROM t",
            "SELECT k, COUNT(*) FROM t WHERE regexp_matches(s, '(') GROUP BY k",
            "SELECT k, s FROM t",
        ] {
            err_cases.push((def.to_string(), st.to_string(), input.clone()));
        }
        let (fs, evals) = crate::drivers::order_independent(&err_cases, "failing-statements");
        col.eval(evals);
        for f in fs {
            col.fail(f);
        }
        col.layer("statements that fail while running: forwards / backwards / twice in one thread", err_cases.len() as u64, true, json!({"statements": err_cases.iter().map(|c| c.1.clone()).collect::<Vec<_>>()}));
    }
    // a row does not depend on the lines before it: under time zones with daylight saving the row of timestamp B is the
    // same whether the file is [B] or [A, B], for all ordered pairs of instants around both change days (child processes)
    {
        let def = "CREATE TABLE z('ts=<([^>]*)>' => ts TIMESTAMP);";
        let q = "SELECT ts, EXTRACT(EPOCH FROM ts) AS e, EXTRACT(HOUR FROM ts) AS h, ts - ts AS d FROM z";
        let mut n = 0u64;
        for (tz, stamps) in [
            ("Europe/Stockholm", ["2021-03-28 01:30:00", "2021-03-28 04:00:00", "2021-03-27 12:00:00", "2021-10-31 01:30:00", "2021-10-31 04:00:00", "2021-06-15 12:00:00"]),
            ("EST5EDT,M3.2.0,M11.1.0", ["2021-03-14 01:30:00", "2021-03-14 04:00:00", "2021-03-13 12:00:00", "2021-11-07 00:30:00", "2021-11-07 04:00:00", "2021-06-15 12:00:00"]),
        ] {
            let run = |lines: &[&str]| -> Option<Vec<String>> {
                let data: String = lines.iter().map(|t| format!("ts=<{}>\n", t)).collect();
                match sut::run_stmt_child_env(def, q, "json", &[Some(data.as_bytes())], 30, &[("TZ", tz)]) {
                    crate::sut::ChildOut::Done(j) => j["run"]["printed"].as_array().map(|a| a.iter().filter_map(|x| x.as_str().map(|s| s.to_string())).filter(|l| !l.is_empty()).collect()),
                    _ => None,
                }
            };
            let singles: Vec<Option<Vec<String>>> = stamps.iter().map(|b| run(&[b])).collect();
            let pairs: Vec<(usize, usize)> = (0..stamps.len()).flat_map(|a| (0..stamps.len()).map(move |b| (a, b))).filter(|(a, b)| a != b).collect();
            let found: std::sync::Mutex<Vec<Failure>> = std::sync::Mutex::new(Vec::new());
            par_for(pairs.len() as u64, |i| {
                let (a, b) = pairs[i as usize];
                let both = run(&[stamps[a], stamps[b]]);
                col.eval(1);
                col.nontrivial(h64(&("tz-line-independence", tz, a, b)));
                let row_b = both.as_ref().and_then(|r| r.get(1).cloned());
                let alone = singles[b].as_ref().and_then(|r| r.get(0).cloned());
                if row_b.is_none() || row_b != alone {
                    found.lock().unwrap().push(fail(
                        "row-depends-on-earlier-lines:time-zone".into(),
                        format!("under TZ={} the row of <{}> is {:?} when the line stands alone and {:?} after the line <{}>", tz, stamps[b], alone, row_b, stamps[a]),
                        json!({"layer": "tz-line-independence", "tz": tz, "first": stamps[a], "second": stamps[b]}),
                        json!(alone),
                        json!(row_b),
                        i,
                    ));
                }
            });
            n += pairs.len() as u64;
            for f in found.into_inner().unwrap() {
                col.fail(f);
            }
        }
        col.layer("rows of timestamps do not depend on earlier lines (daylight-saving zones, child processes)", n, true, json!({"zones": 2, "instants": 6}));
    }
    finish(
        ctx,
        &col,
        Finish {
            level: "exploration",
            rule: "statement corpus (wildcards, joins with fan-out, multi-aggregate GROUP BY / HAVING with discriminating conditions, DISTINCT, COUNT(DISTINCT), string/array aggregation, tables whose names differ only in case) x 2 formats x 5 table-definition contexts (walked in opposite orders by even and odd child processes, one of them redefining the joined table) x controlled hash seeds (fresh thread per replica, keys set through the LD_PRELOAD getrandom shim) x fresh processes; oracle: byte-identical printed output. Exhaustive over the bounded seed set, not over the 2^128 key space. Non-trivial: within the case at least two different canary iteration orders were observed and the output is non-empty.".into(),
            exhaustive: true,
            assumptions: vec!["std's RandomState takes its keys from libc getrandom (verified at run time through the magic call and the canary map)".into(), "now() excluded; TZ=UTC".into()],
            bounds: json!({"processes": nproc, "seeds": nseeds}),
        },
    )
}

fn sweep(col: &Collector, nproc: u64, nseeds: u64) {
    let exe = std::env::current_exe().unwrap();
    let shim = format!("{}/target/seedshim.so", verif_dir());
    let shim_present = std::path::Path::new(&shim).exists();
    if !shim_present {
        col.machinery(format!("{} is missing (run ./setup.sh)", shim));
    }
    let handles: Vec<_> = (0..nproc)
        .map(|p| {
            let (exe, shim) = (exe.clone(), shim.clone());
            std::thread::spawn(move || std::process::Command::new(exe).args(["--child", "seeds", &p.to_string(), &nseeds.to_string(), "shim"]).env("LD_PRELOAD", shim).output().expect("spawn child"))
        })
        .collect();
    // per case: output hash -> (process, seeds)
    let mut per_case: BTreeMap<u64, BTreeMap<String, Vec<(u64, Vec<u64>)>>> = BTreeMap::new();
    let mut info: BTreeMap<u64, J> = BTreeMap::new();
    let mut canaries: BTreeSet<String> = BTreeSet::new();
    for (p, h) in handles.into_iter().enumerate() {
        let out = h.join().unwrap();
        if !out.status.success() {
            col.machinery(format!("seed child {} failed: {}", p, String::from_utf8_lossy(&out.stderr).lines().last().unwrap_or("")));
            continue;
        }
        for line in String::from_utf8_lossy(&out.stdout).lines() {
            let j: J = match serde_json::from_str(line) {
                Ok(j) => j,
                Err(_) => continue,
            };
            if j["shim"].as_bool() != Some(true) {
                col.machinery("the getrandom shim did not answer the magic call: hash seeds are not controlled".into());
            }
            let c = j["case"].as_u64().unwrap();
            for can in j["canaries"].as_array().unwrap() {
                canaries.insert(can.as_str().unwrap().to_string());
            }
            for (hash, seeds) in j["outputs"].as_object().unwrap() {
                per_case.entry(c).or_default().entry(hash.clone()).or_default().push((p as u64, seeds.as_array().unwrap().iter().map(|x| x.as_u64().unwrap()).collect()));
                col.eval(seeds.as_array().unwrap().len() as u64);
            }
            if j["canaries"].as_array().unwrap().len() >= 2 && j["first"].as_array().map(|a| a.len() > 1).unwrap_or(false) {
                col.nontrivial(h64(&(c, p)));
            }
            info.entry(c).or_insert(j.clone());
        }
    }
    for (c, outs) in &per_case {
        col.outcome(h64(&outs.keys().collect::<Vec<_>>()));
        if outs.len() > 1 {
            let j = &info[c];
            let kind = j["statement"].as_str().unwrap_or("").split(" FROM ").next().unwrap_or("").chars().take(40).collect::<String>();
            col.fail(fail(
                format!("seed-dependent-output:{}", kind),
                format!("`{}` ({} format, definition context {}) printed {} different outputs across hash seeds / processes", j["statement"].as_str().unwrap_or(""), j["format"].as_str().unwrap_or(""), j["defs"], outs.len()),
                json!({"case": c, "statement": j["statement"], "format": j["format"], "defs": j["defs"], "processes": nproc, "seeds": nseeds}),
                json!("one output"),
                json!(outs.iter().map(|(h, ps)| json!({"output_hash": h, "seen_in": ps.iter().map(|(p, s)| json!({"process": p, "seeds": s})).collect::<Vec<_>>()})).collect::<Vec<_>>()),
                *c,
            ));
        }
    }
    for (c, j) in info.iter().take(3) {
        col.sample(json!({"case": c, "statement": j["statement"], "format": j["format"], "definition_context": j["defs"], "output": j["first"]}));
    }
    col.note(format!("canary: {} of the 24 iteration orders of a 4-key std HashMap were observed across replicas", canaries.len()));
    if canaries.len() < 6 && shim_present {
        col.machinery(format!("only {} canary orders observed: the seeds do not permute hash-map iteration orders", canaries.len()));
    }
    col.layer("seeds x processes", per_case.len() as u64, true, json!({"processes": nproc, "seeds_per_process": nseeds, "cases": per_case.len(), "canary_orders_seen": canaries.len()}));
}

pub fn replay(case: &J) -> Vec<Failure> {
    // the quick sweep is cheap: re-run it and report the failures that concern the same statement / format / context
    let col = Collector::new();
    sweep(&col, 4, 16);
    let f = col.failures.lock().unwrap();
    f.values().flat_map(|v| v.iter().cloned()).filter(|x| x.case["statement"] == case["statement"] && x.case["format"] == case["format"] && x.case["defs"] == case["defs"]).collect()
}
