//! C17 — printed records faithfully carry the result rows in every output format.
//!
//! Enumerated: result rows of 1..3 columns over a printable value domain (every type, NULLs, text with quotes /
//! delimiters / control / non-ASCII characters, 64-bit extremes, REALs needing 17 digits, nested and long arrays) x
//! {Text, Json, CSV} x results of 0..3 rows x single_result flag x sequences of 1..3 results through one OutputPrinter.
//! Oracle: parse-back of every record (serde_json for JSON; field split for CSV/text) + record / header / blank-line accounting.

use chrono::TimeZone;
use serde_json::{json, Value as J};

use sqlgrep::data_model::Row;
use sqlgrep::execution::ResultRow;
use sqlgrep::executor::{OutputFormat, OutputPrinter};
use sqlgrep::model::{Float, Value, ValueType};

use crate::checks::fail;
use crate::core::*;
use crate::refmodel::expr::micros_to_civil;
use crate::sut::{from_value, CapturePrinter, RVal};

fn domain() -> Vec<Value> {
    let s = |x: &str| Value::String(x.to_string());
    let f = |x: f64| Value::Float(Float(x));
    vec![
        Value::Null,
        Value::Int(0),
        Value::Int(-1),
        Value::Int(i64::MAX),
        Value::Int(i64::MIN),
        f(0.0),
        f(-0.0),
        f(1.5),
        f(0.1),
        f(1.0 / 3.0),
        f(1e21),
        f(1e-7),
        f(123456789.12345679),
        f(f64::MAX),
        f(f64::MIN_POSITIVE),
        f(-2.5e-300),
        Value::Bool(true),
        Value::Bool(false),
        s(""),
        s("a"),
        s("it's"),
        s("a\"b"),
        s("a;b"),
        s("a,b"),
        s("k: v, x: y"),
        s("x\ny"),
        s("tab\there"),
        s("\0\u{1}\u{7f}"),
        s("é€😀"),
        s("\\"),
        s("NULL"),
        s("{\"a\":1}"),
        s(&"long".repeat(2500)),
        Value::Array(ValueType::Int, vec![]),
        Value::Array(ValueType::Int, vec![Value::Int(1), Value::Int(2)]),
        Value::Array(ValueType::Int, vec![Value::Null, Value::Int(3)]),
        Value::Array(ValueType::String, vec![s("a"), s("b\"")]),
        Value::Array(ValueType::Array(Box::new(ValueType::Int)), vec![Value::Array(ValueType::Int, vec![Value::Int(1)]), Value::Array(ValueType::Int, vec![])]),
        Value::Array(ValueType::Float, (0..300).map(|i| f(i as f64 / 7.0)).collect()),
        Value::Timestamp(chrono::Local.timestamp_opt(1_600_000_000, 123_000_000).unwrap()),
        Value::Timestamp(chrono::Local.timestamp_opt(0, 0).unwrap()),
        // another instant within the same second as the first one
        Value::Timestamp(chrono::Local.timestamp_opt(1_600_000_000, 456_000_000).unwrap()),
        Value::Interval(chrono::Duration::milliseconds(3_723_004)),
        Value::Interval(chrono::Duration::seconds(0)),
        // a day and more (the hour count is not a time of day)
        Value::Interval(chrono::Duration::seconds(86_400)),
        Value::Interval(chrono::Duration::milliseconds(108_910_250)),
        Value::Interval(chrono::Duration::hours(1000)),
    ]
}

fn ts_text(us: i64) -> String {
    let (y, m, d, h, mi, s, micro) = micros_to_civil(us);
    format!("{:04}-{:02}-{:02} {:02}:{:02}:{:02}.{:03}", y, m, d, h, mi, s, micro / 1000)
}

fn iv_text(us: i64) -> String {
    let secs = us / 1_000_000;
    format!("{:02}:{:02}:{:02}.{:03}", secs / 3600, (secs / 60) % 60, secs % 60, (us / 1000) - secs * 1000)
}

/// does the JSON value `j` recover `v` exactly?
fn json_recovers(j: &J, v: &RVal) -> bool {
    match v {
        RVal::Null => j.is_null(),
        RVal::Int(i) => j.as_i64() == Some(*i) && j.is_i64(),
        RVal::Real(r) => j.is_number() && j.as_f64().map(|x| x.to_bits() == r.to_bits() || (x == *r && *r != 0.0)).unwrap_or(false),
        RVal::Bool(b) => j.as_bool() == Some(*b),
        RVal::Text(t) => j.as_str() == Some(t.as_str()),
        RVal::Array(xs) => j.as_array().map(|a| a.len() == xs.len() && a.iter().zip(xs).all(|(p, q)| json_recovers(p, q))).unwrap_or(false),
        RVal::Ts(t) => j.as_str() == Some(ts_text(*t).as_str()),
        RVal::Iv(i) => j.as_str() == Some(iv_text(*i).as_str()),
    }
}

/// like json_recovers, but REAL numbers are re-parsed from their printed text with std's correctly rounded parser
/// (serde_json's default number parser may be off by one ulp, which would be the harness's error, not the printer's)
fn raw_recovers(raw: &str, v: &RVal) -> bool {
    match v {
        RVal::Real(r) => {
            let t = raw.trim();
            !t.starts_with('"') && t.parse::<f64>().map(|x| x.to_bits() == r.to_bits()).unwrap_or(false)
        }
        RVal::Array(xs) => match serde_json::from_str::<Vec<Box<serde_json::value::RawValue>>>(raw) {
            Ok(items) => items.len() == xs.len() && items.iter().zip(xs).all(|(i, x)| raw_recovers(i.get(), x)),
            Err(_) => false,
        },
        _ => serde_json::from_str::<J>(raw).map(|j| json_recovers(&j, v)).unwrap_or(false),
    }
}

fn simple_text(v: &RVal) -> Option<String> {
    // reference rendering for the value kinds whose text form the property fixes (INT, BOOLEAN, NULL, clean TEXT)
    match v {
        RVal::Null => Some("NULL".into()),
        RVal::Int(i) => Some(i.to_string()),
        RVal::Bool(b) => Some(b.to_string()),
        RVal::Text(t) => Some(format!("'{}'", t)),
        _ => None,
    }
}

fn clean_text(v: &RVal) -> bool {
    match v {
        RVal::Text(t) => !t.chars().any(|c| matches!(c, ';' | ',' | '\'' | '"' | '\n' | '\r' | ':')),
        RVal::Array(xs) => xs.iter().all(clean_text),
        _ => true,
    }
}

fn fmt_name(f: &OutputFormat) -> &'static str {
    match f {
        OutputFormat::Text => "text",
        OutputFormat::Json => "json",
        OutputFormat::CSV(_) => "csv",
    }
}

/// one printer, a sequence of results; returns failures
fn judge(names: &[&str], results: &[Vec<Vec<usize>>], format: &OutputFormat, single_result: bool, dom: &[Value], rank: u64) -> (Vec<Failure>, bool) {
    let delim: String = match format { OutputFormat::CSV(d) => d.clone(), _ => ";".to_string() };
    let case = json!({"columns": names, "results": results, "format": fmt_name(format), "delimiter": delim, "single_result": single_result});
    let rrs: Vec<ResultRow> = results.iter().map(|rows| ResultRow { columns: names.iter().map(|s| s.to_string()).collect(), data: rows.iter().map(|r| Row::new(r.iter().map(|i| dom[*i].clone()).collect())).collect() }).collect();
    let printed = catch(|| {
        let mut p = OutputPrinter::with_printer(CapturePrinter { lines: vec![], interrupt: None, watch: None, flag_false_at: None }, format.clone());
        for rr in &rrs {
            p.print(rr, single_result);
        }
        p.printer().lines.clone()
    });
    let mut out = Vec::new();
    let lines = match printed {
        Ok(l) => l,
        Err(p) => {
            out.push(fail(panic_signature(&p), format!("printing panicked: {}", p.msg), case, json!("records"), json!(p.msg), rank));
            return (out, false);
        }
    };
    // expected layout of println calls
    let mut idx = 0usize;
    let mut first_record = true;
    let mut needs_escape = false;
    let mut bad = |what: &str, detail: String, out: &mut Vec<Failure>| {
        out.push(fail(format!("print:{}:{}", fmt_name(format), what), format!("{} ({} format): {}", what, fmt_name(format), detail), case.clone(), json!("see oracle"), json!(lines.iter().take(8).collect::<Vec<_>>()), rank));
    };
    'outer: for rr in &rrs {
        for row in &rr.data {
            let rvals: Vec<RVal> = row.columns.iter().map(from_value).collect();
            if matches!(format, OutputFormat::CSV(_)) && first_record {
                match lines.get(idx) {
                    Some(h) if *h == names.join(delim.as_str()) => {}
                    other => {
                        bad("csv-header", format!("expected header {:?} before the first record, got {:?}", names.join(delim.as_str()), other), &mut out);
                        break 'outer;
                    }
                }
                idx += 1;
            }
            first_record = false;
            let line = match lines.get(idx) {
                Some(l) => l,
                None => {
                    bad("record-missing", format!("record {} was not printed", idx), &mut out);
                    break 'outer;
                }
            };
            idx += 1;
            let all_clean = rvals.iter().all(clean_text) && names.iter().all(|n| !n.contains(':'));
            needs_escape |= !all_clean || rvals.len() > 1;
            match format {
                OutputFormat::Json => match serde_json::from_str::<J>(line) {
                    Ok(J::Object(m)) => {
                        let keys: Vec<&String> = m.keys().collect();
                        if keys.len() != names.len() || keys.iter().zip(names).any(|(k, n)| k.as_str() != *n) {
                            bad("json-keys", format!("keys {:?} instead of {:?}", keys, names), &mut out);
                            break 'outer;
                        }
                        let raws: Vec<(String, Box<serde_json::value::RawValue>)> = match serde_json::from_str::<std::collections::HashMap<String, Box<serde_json::value::RawValue>>>(line) {
                            Ok(h) => names.iter().filter_map(|n| h.get(*n).map(|r| (n.to_string(), r.clone()))).collect(),
                            Err(_) => vec![],
                        };
                        for (((k, jv), rv), raw) in m.iter().zip(&rvals).zip(raws.iter().map(|r| r.1.get().to_string()).chain(std::iter::repeat(String::new()))) {
                            if !raw_recovers(&raw, rv) {
                                bad(&format!("json-value:{}", rv.type_name()), format!("column {} printed as {} does not recover {:?}", k, jv, rv), &mut out);
                                break 'outer;
                            }
                        }
                    }
                    other => {
                        bad("json-invalid", format!("record {:?} is not a JSON object ({:?})", line, other.err().map(|e| e.to_string())), &mut out);
                        break 'outer;
                    }
                },
                OutputFormat::CSV(_) => {
                    // (a delimiter of several characters: values that contain any of its characters are left out)
                    if all_clean && !delim.is_empty() && rvals.iter().all(|v| simple_text(v).map(|t| !t.chars().any(|c| delim.contains(c))).unwrap_or(true)) && names.iter().all(|n| !n.chars().any(|c| delim.contains(c))) {
                        let fields: Vec<&str> = line.split(delim.as_str()).collect();
                        if fields.len() != names.len() {
                            bad("csv-field-count", format!("record {:?} has {} fields for {} columns", line, fields.len(), names.len()), &mut out);
                            break 'outer;
                        }
                        for (f, rv) in fields.iter().zip(&rvals) {
                            if let Some(exp) = simple_text(rv) {
                                if *f != exp {
                                    bad(&format!("csv-field:{}", rv.type_name()), format!("field {:?} does not carry {:?}", f, rv), &mut out);
                                    break 'outer;
                                }
                            }
                        }
                    }
                }
                OutputFormat::Text => {
                    if names.len() == 1 && names[0] == "input" {
                        if let RVal::Text(t) = &rvals[0] {
                            if line != t && *line != format!("'{}'", t) {
                                bad("text-input-line", format!("lone input column printed as {:?}, the line is {:?}", line, t), &mut out);
                                break 'outer;
                            }
                        }
                    } else if all_clean {
                        let parts: Vec<&str> = line.split(", ").collect();
                        let no_arrays = rvals.iter().all(|v| !matches!(v, RVal::Array(_)));
                        if no_arrays && parts.len() != names.len() {
                            bad("text-pair-count", format!("record {:?} has {} pairs for {} columns", line, parts.len(), names.len()), &mut out);
                            break 'outer;
                        }
                        if no_arrays {
                            for ((part, n), rv) in parts.iter().zip(names).zip(&rvals) {
                                let prefix = format!("{}: ", n);
                                if !part.starts_with(&prefix) {
                                    bad("text-pair-name", format!("pair {:?} does not start with {:?}", part, prefix), &mut out);
                                    break 'outer;
                                }
                                if let Some(exp) = simple_text(rv) {
                                    if part[prefix.len()..] != exp {
                                        bad(&format!("text-pair-value:{}", rv.type_name()), format!("pair {:?} does not carry {:?}", part, rv), &mut out);
                                        break 'outer;
                                    }
                                }
                            }
                        }
                    }
                }
            }
        }
        if rr.data.len() > 1 && !single_result {
            match lines.get(idx) {
                Some(l) if l.is_empty() => idx += 1,
                other => {
                    bad("blank-separator", format!("expected a blank separator line after a multi-row result, got {:?}", other), &mut out);
                    break 'outer;
                }
            }
        }
    }
    if out.is_empty() && idx != lines.len() {
        bad("extra-output", format!("{} lines printed, {} expected", lines.len(), idx), &mut out);
    }
    (out, needs_escape)
}

pub fn run(ctx: &Ctx) -> i32 {
    let col = Collector::new();
    let dom = domain();
    let n = dom.len();
    let formats = [OutputFormat::Text, OutputFormat::Json, OutputFormat::CSV(";".to_string()), OutputFormat::CSV(" | ".to_string()), OutputFormat::CSV("\t".to_string()), OutputFormat::CSV("||".to_string())];
    // layer 1: single rows of 1 and 2 columns over the full domain
    let mut cases: Vec<(Vec<&'static str>, Vec<Vec<Vec<usize>>>)> = Vec::new();
    for i in 0..n {
        cases.push((vec!["x"], vec![vec![vec![i]]]));
        cases.push((vec!["input"], vec![vec![vec![i]]]));
        for j in 0..n {
            cases.push((vec!["x", "t.y"], vec![vec![vec![i, j]]]));
        }
    }
    // layer 2: three columns over a reduced domain
    let reduced: Vec<usize> = vec![0, 3, 9, 16, 20, 22, 25, 35, 39, 41];
    let third: Vec<usize> = if ctx.tier == Tier::Thorough { (0..n).collect() } else { reduced.clone() };
    for &i in &reduced {
        for &j in &reduced {
            for &k in &third {
                cases.push((vec!["a", "count1", "z_9"], vec![vec![vec![i, j, k]]]));
            }
        }
    }
    // layer 3: result shapes: 0..3 rows per result, sequences of 1..3 results
    let shapes: Vec<Vec<usize>> = {
        let mut v = Vec::new();
        for a in 0..=3usize {
            v.push(vec![a]);
            for bq in 0..=3usize {
                v.push(vec![a, bq]);
                for c in 0..=2usize {
                    v.push(vec![a, bq, c]);
                }
            }
        }
        v
    };
    for sh in &shapes {
        for &i in &[1usize, 19, 22] {
            let results: Vec<Vec<Vec<usize>>> = sh.iter().enumerate().map(|(ri, rows)| (0..*rows).map(|r| vec![i, (i + r + ri) % n]).collect()).collect();
            cases.push((vec!["k", "v"], results));
        }
    }
    let total = cases.len() as u64;
    par_for(total, |idx| {
        let (names, results) = &cases[idx as usize];
        for f in &formats {
            for single in [true, false] {
                let (fs, esc) = judge(names, results, f, single, &dom, idx);
                col.eval(1);
                if esc {
                    col.nontrivial(h64(&(idx, fmt_name(f), format!("{:?}", f), single)));
                }
                col.outcome(h64(&(fmt_name(f), fs.len(), results.len(), results.iter().map(|r| r.len()).sum::<usize>())));
                for x in fs {
                    col.fail(x);
                }
            }
        }
        if idx % 701 == 0 {
            col.sample(json!({"columns": names, "results": results, "values": results.iter().flatten().flatten().take(3).map(|i| format!("{}", dom[*i])).map(|s| s.chars().take(40).collect::<String>()).collect::<Vec<_>>()}));
        }
    });
    col.layer("OutputPrinter", total * 6, true, json!({"domain_values": n, "formats": 3, "result_shapes": shapes.len()}));
    // end to end: FileExecutor and the command line program with --format: column names (alias / column / p<i> / `*`
    // in definition order), one record per row, CSV header once, library and CLI print the same lines
    {
        use crate::sut::{self, FileRunOpts, Outcome};
        let def = "CREATE TABLE t(line = '^([a-z]+) ([0-9]+) ?(.*)$', line[1] => k TEXT, line[2] => v INT, line[3] => s TEXT);";
        let tables = sut::make_tables(def).unwrap();
        let data = "a 1 x y\nb 2 \nnoise\na 3 it's \"q\"; z\n";
        let cases: Vec<(&str, Vec<&str>, usize)> = vec![
            ("SELECT k, v AS val, v + 1 FROM t", vec!["k", "val", "p2"], 3),
            ("SELECT * FROM t", vec!["k", "v", "s"], 3),
            ("SELECT t.k, t.v FROM t WHERE v > 1", vec!["t.k", "t.v"], 2),
            ("SELECT input FROM t", vec!["input"], 3),
            ("SELECT k, COUNT(*) AS n, SUM(v) AS total FROM t GROUP BY k", vec!["k", "n", "total"], 2),
            ("SELECT upper(k) AS u, s FROM t LIMIT 2", vec!["u", "s"], 2),
        ];
        let dir = sut::tmp_dir();
        let defp = format!("{}/c17_def_{}.txt", dir, std::process::id());
        let datap = format!("{}/c17_data_{}.txt", dir, std::process::id());
        std::fs::write(&defp, def).unwrap();
        std::fs::write(&datap, data).unwrap();
        let mut ne = 0u64;
        for (q, names, nrows) in &cases {
            let st = sut::parse(q).unwrap();
            for (fname, f) in [("text", OutputFormat::Text), ("json", OutputFormat::Json), ("csv", OutputFormat::CSV(";".into()))] {
                let lib = match sut::run_files(&tables, &st, &[data.as_bytes()], FileRunOpts { format: f.clone(), single_result: true, ..Default::default() }) {
                    Outcome::Ok(fr) if fr.result.is_ok() => fr.printed.clone(),
                    o => vec![format!("<{}>", o.kind())],
                };
                ne += 1;
                col.eval(1);
                col.nontrivial(h64(&("e2e", q, fname)));
                let mut problems: Vec<String> = Vec::new();
                let records: Vec<&String> = if fname == "csv" { lib.iter().skip(1).collect() } else { lib.iter().collect() };
                if records.len() != *nrows {
                    problems.push(format!("{} records for {} rows", records.len(), nrows));
                }
                match fname {
                    "json" => {
                        for r in &records {
                            match serde_json::from_str::<J>(r) {
                                Ok(J::Object(m)) => {
                                    if m.keys().map(|k| k.as_str()).collect::<Vec<_>>() != *names {
                                        problems.push(format!("keys {:?} instead of {:?}", m.keys().collect::<Vec<_>>(), names));
                                    }
                                }
                                _ => problems.push(format!("record {:?} is not a JSON object", r)),
                            }
                        }
                    }
                    "csv" => {
                        if lib.first().map(|h| h.as_str()) != Some(names.join(";").as_str()) {
                            problems.push(format!("header {:?} instead of {:?}", lib.first(), names.join(";")));
                        }
                    }
                    _ => {
                        if !(names.len() == 1 && names[0] == "input") {
                            for r in &records {
                                if !r.starts_with(&format!("{}: ", names[0])) {
                                    problems.push(format!("record {:?} does not start with the first column name {:?}", r, names[0]));
                                }
                            }
                        }
                    }
                }
                if let Some((cli, _stderr, ok)) = sut::run_cli(&["-d", &defp, &datap, "--format", fname, "-c", q]) {
                    ne += 1;
                    col.eval(1);
                    let cli: Vec<String> = cli.into_iter().collect();
                    if cli != lib || !ok {
                        problems.push(format!("the command line program printed {:?}, the library {:?}", cli, lib));
                    }
                }
                if !problems.is_empty() {
                    col.fail(fail(
                        format!("print:end-to-end:{}:{}", fname, problems[0].split(' ').take(2).collect::<Vec<_>>().join("-")),
                        format!("`{}` in {} format: {}", q, fname, problems.join("; ")),
                        json!({"layer": "e2e", "query": q, "format": fname}),
                        json!({"names": names, "rows": nrows}),
                        json!(lib),
                        ne,
                    ));
                }
            }
        }
        // time zones other than UTC (child processes): the three formats print the same text for a timestamp
        {
            let tdef = "CREATE TABLE z('ts=<([^>]*)>' => ts TIMESTAMP, 'k=(\\\\w+)' => k TEXT);";
            let tdata: &[u8] = b"k=a ts=<2021-03-04 10:20:30>\nk=a ts=<2021-07-01 00:00:00>\nk=b ts=<1999-12-31 23:59:59>\n";
            for tz in ["Europe/Stockholm", "America/Sao_Paulo", "Asia/Kolkata", "XXX-1"] {
                for q in ["SELECT ts FROM z", "SELECT k, MIN(ts), ARRAY_AGG(ts) FROM z GROUP BY k"] {
                    let mut texts: Vec<(String, Vec<String>)> = Vec::new();
                    for fname in ["text", "json", "csv"] {
                        if let crate::sut::ChildOut::Done(j) = sut::run_stmt_child_env(tdef, q, fname, &[Some(tdata)], 20, &[("TZ", tz)]) {
                            let printed: Vec<String> = j["run"]["printed"].as_array().map(|a| a.iter().filter_map(|x| x.as_str().map(|s| s.to_string())).collect()).unwrap_or_default();
                            // every timestamp-looking text of the output, in order
                            let re = regex::Regex::new(r"\d{4}-\d{2}-\d{2} \d{2}:\d{2}:\d{2}\.\d{3}").unwrap();
                            let found: Vec<String> = printed.iter().flat_map(|l| re.find_iter(l).map(|m| m.as_str().to_string()).collect::<Vec<_>>()).collect();
                            texts.push((fname.to_string(), found));
                        }
                    }
                    ne += 1;
                    col.eval(3);
                    col.nontrivial(h64(&("e2e-tz", tz, q)));
                    if texts.len() == 3 && !(texts[0].1 == texts[1].1 && texts[1].1 == texts[2].1 && !texts[0].1.is_empty()) {
                        col.fail(fail(
                            "print:end-to-end:time-zone:formats-disagree".into(),
                            format!("`{}` under TZ={}: the timestamps printed are {:?}", q, tz, texts),
                            json!({"layer": "e2e", "query": q, "format": "all", "tz": tz}),
                            json!("the same timestamp texts in text, json and csv"),
                            json!(texts),
                            ne,
                        ));
                    }
                }
            }
        }
        // a table on which blank lines are rows: one record per input line
        {
            let edef = "CREATE TABLE e('^(.*)$' => x TEXT);";
            let etables = sut::make_tables(edef).unwrap();
            let edata = "a\n\nb\n\n";
            for (q, names) in [("SELECT x FROM e", vec!["x"]), ("SELECT input FROM e", vec!["input"]), ("SELECT length(x) AS n, x FROM e", vec!["n", "x"])] {
                let st = sut::parse(q).unwrap();
                for (fname, f) in [("text", OutputFormat::Text), ("json", OutputFormat::Json), ("csv", OutputFormat::CSV(";".into()))] {
                    ne += 1;
                    col.eval(1);
                    col.nontrivial(h64(&("e2e-blank", q, fname)));
                    let lib = match sut::run_files(&etables, &st, &[edata.as_bytes()], FileRunOpts { format: f.clone(), single_result: true, ..Default::default() }) {
                        Outcome::Ok(fr) if fr.result.is_ok() => fr.printed.clone(),
                        o => vec![format!("<{}>", o.kind())],
                    };
                    let nrec = if fname == "csv" { lib.len().saturating_sub(1) } else { lib.len() };
                    if nrec != 4 {
                        col.fail(fail(
                            format!("print:end-to-end:{}:blank-lines", fname),
                            format!("`{}` over the lines a, (blank), b, (blank) on a table whose pattern matches the empty text prints {} records in {} format ({:?}), expected 4 ({:?})", q, nrec, fname, lib, names),
                            json!({"layer": "e2e", "query": q, "format": fname}),
                            json!(4),
                            json!(lib),
                            ne,
                        ));
                    }
                }
            }
        }
        // the command line program in follow mode with --format: the records are those of the batch run in that format
        {
            let mut missing = false;
            for fname in ["text", "json", "csv"] {
                for q in ["SELECT k, v AS val, v + 1 FROM t", "SELECT * FROM t WHERE v > 1"] {
                    let batch = match sut::run_cli(&["-d", &defp, &datap, "--format", fname, "-c", q]) {
                        Some(b) => b.0,
                        None => {
                            missing = true;
                            break;
                        }
                    };
                    let follow = match crate::checks::c10::cli_follow_raw(false, true, data.as_bytes(), &[], def, q, fname, "zzzend 9 ", "zzzend") {
                        Ok(Some(l)) => l,
                        Ok(None) => {
                            missing = true;
                            break;
                        }
                        Err(e) => {
                            col.note(format!("command-line follow case skipped: {}", e));
                            continue;
                        }
                    };
                    ne += 1;
                    col.eval(1);
                    col.nontrivial(h64(&("e2e-follow", q, fname)));
                    let a: Vec<&String> = batch.iter().filter(|l| !l.is_empty()).collect();
                    let b: Vec<&String> = follow.iter().filter(|l| !l.is_empty()).collect();
                    if a != b {
                        col.fail(fail(
                            format!("print:end-to-end:{}:follow-mode-differs", fname),
                            format!("`{}` with --format {}: -f --head prints {:?}, the batch run prints {:?}", q, fname, b, a),
                            json!({"layer": "e2e", "query": q, "format": fname, "follow": true}),
                            json!(a),
                            json!(b),
                            ne,
                        ));
                    }
                }
                if missing {
                    break;
                }
            }
        }
        std::fs::remove_file(&defp).ok();
        std::fs::remove_file(&datap).ok();
        col.layer("end to end: FileExecutor + command line program", ne, true, json!({"queries": cases.len(), "formats": 3}));
    }
    finish(
        ctx,
        &col,
        Finish {
            level: "exploration",
            rule: "all rows of 1 and 2 columns over a 47-value printable domain (3 columns over a reduced domain) x {text, json, csv} x single_result x result shapes (0..3 rows, sequences of 1..3 results) through the public OutputPrinter; oracle: JSON parse-back (keys in order, INT exact, REAL bit-exact, TEXT equal, arrays element-wise, timestamp/interval text), CSV header once + field count + INT/TEXT/NULL/BOOLEAN field content, text `name: value` pairs, println accounting. Non-trivial: a value needs escaping or the row has > 1 column.".into(),
            exhaustive: true,
            assumptions: vec!["REAL text form in text/CSV (two decimals) and the array text form are adopted from the README/tests, not checked".into(), "a lone input column may be printed with or without surrounding quotes (open)".into(), "non-finite REALs are C09's".into()],
            bounds: json!({"domain": n}),
        },
    )
}

pub fn replay(case: &J) -> Vec<Failure> {
    if case["layer"].as_str() == Some("e2e") {
        println!("note: end-to-end cases are replayed by re-running `./check C17 quick` (query {} in {} format)", case["query"], case["format"]);
        return vec![];
    }
    let dom = domain();
    let names: Vec<String> = case["columns"].as_array().unwrap().iter().map(|x| x.as_str().unwrap().to_string()).collect();
    let nrefs: Vec<&str> = names.iter().map(|s| s.as_str()).collect();
    let results: Vec<Vec<Vec<usize>>> = serde_json::from_value(case["results"].clone()).unwrap();
    let f = match case["format"].as_str() {
        Some("json") => OutputFormat::Json,
        Some("csv") => OutputFormat::CSV(case["delimiter"].as_str().unwrap_or(";").to_string()),
        _ => OutputFormat::Text,
    };
    judge(&nrefs, &results, &f, case["single_result"].as_bool().unwrap_or(true), &dom, 0).0
}
