//! C05 — JOIN pairs exactly the rows with equal join keys.
//!
//! Enumerated: pairs of files = all line sequences up to the bound over 5/6-line alphabets (key a, key b, NULL key,
//! duplicate key, non-admitted line, unmatched key) x key type {TEXT, INT, REAL} x statements {*, qualified projections,
//! WHERE on either side, DISTINCT, GROUP BY aggregates, LIMIT} x {INNER, OUTER} x both ON orders; plus error cases.
//! Oracle: reference nested-loop join in (r position, s position) order over admitted rows with equal non-NULL keys.

use serde_json::{json, Value as J};

use sqlgrep::data_model::Tables;

use crate::checks::fail;
use crate::core::*;
use crate::refmodel::{distinct_rows, ref_cmp, ref_eq};
use crate::sut::{self, rows_json, Outcome, RVal};

fn defs(kt: &str) -> String {
    format!("CREATE TABLE t({{ .k }} => k {kt}, {{ .x }} => x INT, {{ .m }} => m TEXT);\nCREATE TABLE u({{ .k }} => k {kt}, {{ .y }} => y INT, {{ .x }} => x INT);", kt = kt.split(':').next().unwrap())
}

fn keys(kt: &str) -> [(&'static str, RVal); 3] {
    match kt {
        "TEXT" => [("\"a\"", RVal::Text("a".into())), ("\"b\"", RVal::Text("b".into())), ("\"c\"", RVal::Text("c".into()))],
        "INT" => [("1", RVal::Int(1)), ("2", RVal::Int(2)), ("3", RVal::Int(3))],
        // neighbours beyond 2^53 (equal once rounded to a double) and beyond 2^63 (equal once saturated to an i64)
        "INT:big" => [("9007199254740993", RVal::Int(9007199254740993)), ("9007199254740992", RVal::Int(9007199254740992)), ("9007199254740994", RVal::Int(9007199254740994))],
        "REAL:big" => [("1e19", RVal::Real(1e19)), ("2e19", RVal::Real(2e19)), ("1e19", RVal::Real(1e19))],
        _ => [("0.0", RVal::Real(0.0)), ("1.5", RVal::Real(1.5)), ("-0.0", RVal::Real(-0.0))],
    }
}

#[derive(Clone, Debug)]
struct MainRow {
    k: RVal,
    x: RVal,
    m: RVal,
}

#[derive(Clone, Debug)]
struct JoinedRow {
    k: RVal,
    y: RVal,
    x: RVal,
}

fn main_alpha(kt: &str) -> Vec<(String, Option<MainRow>)> {
    let ks = keys(kt);
    let m = RVal::Text("m".into());
    vec![
        (format!("{{\"k\":{},\"x\":1,\"m\":\"m\"}}", ks[0].0), Some(MainRow { k: ks[0].1.clone(), x: RVal::Int(1), m: m.clone() })),
        (format!("{{\"k\":{},\"x\":2,\"m\":\"m\"}}", ks[1].0), Some(MainRow { k: ks[1].1.clone(), x: RVal::Int(2), m: m.clone() })),
        ("{\"x\":3,\"m\":\"m\"}".to_string(), Some(MainRow { k: RVal::Null, x: RVal::Int(3), m: m.clone() })),
        (format!("{{\"k\":{},\"x\":4,\"m\":\"m\"}}", if kt.starts_with("REAL") { ks[2].0 } else { ks[0].0 }), Some(MainRow { k: if kt.starts_with("REAL") { ks[2].1.clone() } else { ks[0].1.clone() }, x: RVal::Int(4), m: m.clone() })),
        ("not a row".to_string(), None),
    ]
}

fn joined_alpha(kt: &str) -> Vec<(String, Option<JoinedRow>)> {
    let ks = keys(kt);
    vec![
        (format!("{{\"k\":{},\"y\":10,\"x\":100}}", ks[0].0), Some(JoinedRow { k: ks[0].1.clone(), y: RVal::Int(10), x: RVal::Int(100) })),
        (format!("{{\"k\":{},\"y\":20}}", ks[1].0), Some(JoinedRow { k: ks[1].1.clone(), y: RVal::Int(20), x: RVal::Null })),
        ("{\"y\":30,\"x\":300}".to_string(), Some(JoinedRow { k: RVal::Null, y: RVal::Int(30), x: RVal::Int(300) })),
        (format!("{{\"k\":{},\"y\":40,\"x\":400}}", ks[0].0), Some(JoinedRow { k: ks[0].1.clone(), y: RVal::Int(40), x: RVal::Int(400) })),
        ("zzz".to_string(), None),
        (format!("{{\"k\":{},\"y\":50}}", if kt.starts_with("REAL") { "7.5" } else { ks[2].0 }), Some(JoinedRow { k: if kt.starts_with("REAL") { RVal::Real(7.5) } else { ks[2].1.clone() }, y: RVal::Int(50), x: RVal::Null })),
    ]
}

const NSTMT: usize = 9;

/// statement text for (statement index, outer, on-order) with the joined file path
fn stmt_text(si: usize, outer: bool, flipped: bool, path: &str) -> String {
    let join = format!("{} JOIN u::'{}' ON {}", if outer { "OUTER" } else { "INNER" }, path, if flipped { "u.k = t.k" } else { "t.k = u.k" });
    match si {
        0 => format!("SELECT * FROM t {}", join),
        1 => format!("SELECT t.k, x, y, u.x, u.k, t.x, m FROM t {}", join),
        2 => format!("SELECT t.x, y FROM t {} WHERE y > 10", join),
        3 => format!("SELECT t.x, y FROM t WHERE t.x > 1 {}", join),
        4 => format!("SELECT DISTINCT t.k FROM t {}", join),
        5 => format!("SELECT t.k, COUNT(*), SUM(y) FROM t {} GROUP BY t.k", join),
        6 => format!("SELECT COUNT(*), SUM(u.x), MAX(y) FROM t {}", join),
        7 => format!("SELECT t.x, y FROM t {} LIMIT 2", join),
        _ => format!("SELECT t.x, u.y FROM t {} WHERE u.x IS NULL", join),
    }
}

fn is_agg(si: usize) -> bool {
    si == 5 || si == 6
}

fn expected(si: usize, outer: bool, main: &[MainRow], joined: &[JoinedRow]) -> (Vec<String>, Vec<Vec<RVal>>) {
    // the pair stream
    let mut pairs: Vec<(MainRow, Option<JoinedRow>)> = Vec::new();
    for r in main {
        let partners: Vec<&JoinedRow> = joined.iter().filter(|s| !r.k.is_null() && !s.k.is_null() && ref_eq(&r.k, &s.k)).collect();
        if partners.is_empty() {
            if outer && !is_agg(si) {
                pairs.push((r.clone(), None));
            }
        } else {
            for s in partners {
                pairs.push((r.clone(), Some(s.clone())));
            }
        }
    }
    let jk = |p: &Option<JoinedRow>| p.as_ref().map(|s| s.k.clone()).unwrap_or(RVal::Null);
    let jy = |p: &Option<JoinedRow>| p.as_ref().map(|s| s.y.clone()).unwrap_or(RVal::Null);
    let jx = |p: &Option<JoinedRow>| p.as_ref().map(|s| s.x.clone()).unwrap_or(RVal::Null);
    let int = |v: &RVal| if let RVal::Int(i) = v { Some(*i) } else { None };
    match si {
        0 => (vec!["k", "x", "m", "u.k", "y", "u.x"].into_iter().map(String::from).collect(), pairs.iter().map(|(r, s)| vec![r.k.clone(), r.x.clone(), r.m.clone(), jk(s), jy(s), jx(s)]).collect()),
        1 => (vec!["t.k", "x", "y", "u.x", "u.k", "t.x", "m"].into_iter().map(String::from).collect(), pairs.iter().map(|(r, s)| vec![r.k.clone(), r.x.clone(), jy(s), jx(s), jk(s), r.x.clone(), r.m.clone()]).collect()),
        2 => (vec!["t.x".into(), "y".into()], pairs.iter().filter(|(_, s)| int(&jy(s)).map(|y| y > 10).unwrap_or(false)).map(|(r, s)| vec![r.x.clone(), jy(s)]).collect()),
        3 => (vec!["t.x".into(), "y".into()], pairs.iter().filter(|(r, _)| int(&r.x).map(|x| x > 1).unwrap_or(false)).map(|(r, s)| vec![r.x.clone(), jy(s)]).collect()),
        4 => (vec!["t.k".into()], distinct_rows(&pairs.iter().map(|(r, _)| vec![r.k.clone()]).collect::<Vec<_>>())),
        5 => {
            let mut groups: Vec<(RVal, i64, Option<i64>)> = Vec::new();
            for (r, s) in &pairs {
                let y = int(&jy(s));
                match groups.iter_mut().find(|g| ref_eq(&g.0, &r.k)) {
                    Some(g) => {
                        g.1 += 1;
                        if let Some(y) = y {
                            g.2 = Some(g.2.unwrap_or(0) + y);
                        }
                    }
                    None => groups.push((r.k.clone(), 1, y)),
                }
            }
            groups.sort_by(|a, b| ref_cmp(&a.0, &b.0).unwrap());
            (vec![], groups.into_iter().map(|g| vec![g.0, RVal::Int(g.1), g.2.map(RVal::Int).unwrap_or(RVal::Null)]).collect())
        }
        6 => {
            if pairs.is_empty() {
                return (vec![], vec![]);
            }
            let xs: Vec<i64> = pairs.iter().filter_map(|(_, s)| int(&jx(s))).collect();
            let ys: Vec<i64> = pairs.iter().filter_map(|(_, s)| int(&jy(s))).collect();
            (vec![], vec![vec![RVal::Int(pairs.len() as i64), if xs.is_empty() { RVal::Null } else { RVal::Int(xs.iter().sum()) }, ys.iter().max().map(|m| RVal::Int(*m)).unwrap_or(RVal::Null)]])
        }
        7 => (vec!["t.x".into(), "y".into()], pairs.iter().take(2).map(|(r, s)| vec![r.x.clone(), jy(s)]).collect()),
        _ => (vec!["t.x".into(), "u.y".into()], pairs.iter().filter(|(_, s)| jx(s).is_null()).map(|(r, s)| vec![r.x.clone(), jy(s)]).collect()),
    }
}

fn judge(tables: &Tables, kt: &str, mseq: &[u8], jseq: &[u8], only: Option<(usize, bool, bool)>) -> (Vec<Failure>, bool, u64) {
    let ma = main_alpha(kt);
    let ja = joined_alpha(kt);
    let mlines: Vec<&str> = mseq.iter().map(|i| ma[*i as usize].0.as_str()).collect();
    let main: Vec<MainRow> = mseq.iter().filter_map(|i| ma[*i as usize].1.clone()).collect();
    let joined: Vec<JoinedRow> = jseq.iter().filter_map(|i| ja[*i as usize].1.clone()).collect();
    let jl: Vec<&str> = jseq.iter().map(|i| ja[*i as usize].0.as_str()).collect();
    let jf = sut::files_from(&jl, &[jl.len()]);
    let tmp = sut::TempFiles::new(&[jf[0].as_slice()]);
    let mut out = Vec::new();
    let mut evals = 0;
    // non-trivial: some main row has >=1 partner and another has none or one has >=2
    let counts: Vec<usize> = main.iter().map(|r| joined.iter().filter(|s| !r.k.is_null() && !s.k.is_null() && ref_eq(&r.k, &s.k)).count()).collect();
    let nontrivial = counts.iter().any(|c| *c >= 1) && (counts.iter().any(|c| *c == 0) || counts.iter().any(|c| *c >= 2));
    for si in 0..NSTMT {
        for outer in [false, true] {
            for flipped in [false, true] {
                if let Some(o) = only {
                    if o != (si, outer, flipped) {
                        continue;
                    }
                }
                evals += 1;
                let text = stmt_text(si, outer, flipped, &tmp.paths[0]);
                let st = match sut::parse(&text) {
                    Ok(s) => s,
                    Err(e) => {
                        out.push(fail(format!("join:rejected:{}", msg_class(&e)), format!("`{}` rejected: {}", text, e), json!({"kt": kt, "mseq": mseq, "jseq": jseq, "si": si, "outer": outer, "flipped": flipped}), json!("parses"), json!(e), 0));
                        continue;
                    }
                };
                let (names, rows) = expected(si, outer, &main, &joined);
                let got = sut::run_batch(tables, &st, &mlines);
                let ok = match &got {
                    Outcome::Ok(t) => sut::rows_same(&t.rows, &rows) && (names.is_empty() || t.rows.is_empty() || t.columns == names),
                    _ => false,
                };
                if !ok {
                    let dev = match &got {
                        Outcome::Ok(t) if t.rows.len() > rows.len() => "extra-rows",
                        Outcome::Ok(t) if t.rows.len() < rows.len() => "missing-rows",
                        Outcome::Ok(t) if !sut::rows_same(&t.rows, &rows) => "rows-differ",
                        Outcome::Ok(_) => "column-names",
                        Outcome::Err(_) => "error",
                        Outcome::Panic(_) => "panic",
                    };
                    let feat = {
                        let mut f = Vec::new();
                        if main.iter().any(|r| r.k.is_null()) || joined.iter().any(|r| r.k.is_null()) {
                            f.push("null-key");
                        }
                        if counts.iter().any(|c| *c >= 2) {
                            f.push("fan-out");
                        }
                        f.join("+")
                    };
                    out.push(fail(
                        format!("join:{}:{}:stmt{}:{}:{}", if outer { "outer" } else { "inner" }, dev, si, kt, feat),
                        format!("`{}` main {:?} joined {:?}: expected {:?} {:?}", text.replace(&tmp.paths[0], "<joined>"), mlines, jl, names, rows),
                        json!({"kt": kt, "mseq": mseq, "jseq": jseq, "si": si, "outer": outer, "flipped": flipped}),
                        json!({"columns": names, "rows": rows_json(&rows)}),
                        sut::outcome_json(&got, |t| t.to_json()),
                        (mseq.len() * 10 + jseq.len()) as u64,
                    ));
                }
            }
        }
    }
    (out, nontrivial, evals)
}

fn error_cases(tables: &Tables) -> Vec<Failure> {
    let mut out = Vec::new();
    let tmp = sut::TempFiles::new(&[b"{\"k\":\"a\",\"y\":1}\n"]);
    let main = ["{\"k\":\"a\",\"x\":1,\"m\":\"m\"}"];
    let cases = [
        ("joined file missing", "SELECT * FROM t INNER JOIN u::'/dev/shm/vcheck/does-not-exist' ON t.k = u.k".to_string()),
        ("join column missing on the queried side", format!("SELECT * FROM t INNER JOIN u::'{}' ON t.nosuch = u.k", tmp.paths[0])),
        ("join column missing on the joined side", format!("SELECT * FROM t INNER JOIN u::'{}' ON t.k = u.nosuch", tmp.paths[0])),
        ("unknown joined table", format!("SELECT * FROM t INNER JOIN nosuch::'{}' ON t.k = nosuch.k", tmp.paths[0])),
        ("joined file missing (aggregate)", "SELECT COUNT(*) FROM t OUTER JOIN u::'/dev/shm/vcheck/does-not-exist' ON t.k = u.k".to_string()),
        ("joined file missing + LIMIT 0", "SELECT * FROM t INNER JOIN u::'/dev/shm/vcheck/does-not-exist' ON t.k = u.k LIMIT 0".to_string()),
        ("joined file missing + LIMIT 1", "SELECT * FROM t INNER JOIN u::'/dev/shm/vcheck/does-not-exist' ON t.k = u.k LIMIT 1".to_string()),
        ("join column missing on the joined side + LIMIT 0", format!("SELECT * FROM t OUTER JOIN u::'{}' ON t.k = u.nosuch LIMIT 0", tmp.paths[0])),
        ("join column missing on the queried side + DISTINCT + WHERE", format!("SELECT DISTINCT y FROM t INNER JOIN u::'{}' ON t.nosuch = u.k WHERE y > 0", tmp.paths[0])),
        ("join column missing on the queried side (aggregate)", format!("SELECT COUNT(*) FROM t INNER JOIN u::'{}' ON t.nosuch = u.k", tmp.paths[0])),
    ];
    // the same mistakes against joined files without rows (empty file, only lines that are not rows of the joined table)
    let tmp2 = sut::TempFiles::new(&[&b""[..], &b"garbage\n\n"[..]]);
    let mut cases: Vec<(String, String)> = cases.iter().map(|(w, t)| (w.to_string(), t.clone())).collect();
    for (fi, fname) in ["empty joined file", "joined file without rows"].iter().enumerate() {
        for kind in ["INNER", "OUTER"] {
            cases.push((format!("join column missing on the queried side, {}, {}", fname, kind), format!("SELECT * FROM t {} JOIN u::'{}' ON t.nosuch = u.k", kind, tmp2.paths[fi])));
            cases.push((format!("join column missing on the queried side (ON reversed), {}, {}", fname, kind), format!("SELECT x FROM t {} JOIN u::'{}' ON u.k = t.nosuch", kind, tmp2.paths[fi])));
            cases.push((format!("join column missing on the queried side (aggregate), {}, {}", fname, kind), format!("SELECT COUNT(*) FROM t {} JOIN u::'{}' ON t.nosuch = u.k", kind, tmp2.paths[fi])));
        }
    }
    for (what, text) in cases {
        let what = what.as_str();
        let st = match sut::parse(&text) {
            Ok(s) => s,
            Err(_) => continue, // rejected at parse time: an error report
        };
        let got = sut::run_batch(tables, &st, &main);
        let fr = sut::run_files(tables, &st, &[b"{\"k\":\"a\",\"x\":1,\"m\":\"m\"}\n"], sut::FileRunOpts::default());
        let file_ok = matches!(&fr, Outcome::Ok(r) if r.result.is_err());
        if !file_ok {
            out.push(fail(format!("join:error-case:{}:file-executor", what), format!("{}: `{}` through FileExecutor must report an error", what, text), json!({"layer": "errors", "what": what}), json!("error"), sut::outcome_json(&fr, |t| t.to_json()), 0));
        }
        if !matches!(got, Outcome::Err(_)) {
            out.push(fail(format!("join:error-case:{}", what), format!("{}: `{}` must report an error, got {}", what, text, got.kind()), json!({"layer": "errors", "what": what}), json!("error"), sut::outcome_json(&got, |t| t.to_json()), 0));
        }
    }
    out
}

/// interaction layer: JOIN x WHERE x projection x DISTINCT x LIMIT in every combination, against a generic reference
/// executor (reference join -> reference expression evaluator -> filter -> project -> first-occurrence DISTINCT -> take n)
fn interaction_layer(ctx: &Ctx, col: &Collector) -> (u64, bool) {
    use crate::refmodel::expr::{b, eval, Bin, Ev, Lit, Row, E};
    let tables = sut::make_tables(&defs("TEXT")).unwrap();
    let ma = main_alpha("TEXT");
    let ja = joined_alpha("TEXT");
    let c = |n: &str| E::Col(n.to_string());
    let projections: Vec<Vec<E>> = vec![
        vec![c("t.k"), c("x"), c("y")],
        vec![E::Bin(Bin::Add, b(c("t.x")), b(c("y")))],
        vec![E::Case(vec![(E::IsNull(b(c("y")), false), E::Lit(Lit::Int(0)))], b(c("y"))), c("t.k")],
        vec![c("u.k")],
        vec![c("m"), c("u.x")],
    ];
    let filters: Vec<Option<E>> = vec![
        None,
        Some(E::Bin(Bin::Gt, b(c("x")), b(E::Lit(Lit::Int(1))))),
        Some(E::Bin(Bin::Or, b(E::Bin(Bin::Gt, b(c("y")), b(E::Lit(Lit::Int(10))))), b(E::IsNull(b(c("y")), false)))),
        Some(E::Bin(Bin::And, b(E::Bin(Bin::Eq, b(c("t.k")), b(E::Lit(Lit::Text("a".into()))))), b(E::Bin(Bin::Ne, b(c("y")), b(E::Lit(Lit::Int(40))))))),
        Some(E::In(b(c("u.x")), vec![E::Lit(Lit::Int(100)), E::Lit(Lit::Int(300))], true)),
    ];
    let limits: [Option<usize>; 5] = [None, Some(0), Some(1), Some(2), Some(4)];
    // statement space
    let mut stmts: Vec<(usize, usize, bool, usize, u8)> = Vec::new(); // projection, filter, distinct, limit, join kind (0 inner, 1 outer)
    for p in 0..projections.len() {
        for f in 0..filters.len() {
            for d in [false, true] {
                for l in 0..limits.len() {
                    for j in 0..2u8 {
                        stmts.push((p, f, d, l, j));
                    }
                }
            }
        }
    }
    let maxlen = ctx.tier.pick(2, 3) as u32;
    let km = ma.len() as u64;
    let nm = seq_count(km, maxlen);
    let joined_sets: Vec<Vec<u8>> = vec![vec![], vec![0, 1], vec![0, 3, 1, 2], vec![3, 0, 5, 4, 0]];
    let total = stmts.len() as u64 * nm;
    par_for_budget(ctx, total, 16, |idx| {
        let (p, f, d, l, j) = stmts[(idx % stmts.len() as u64) as usize];
        let mseq = seq_decode(idx / stmts.len() as u64, km, maxlen);
        let mlines: Vec<&str> = mseq.iter().map(|i| ma[*i as usize].0.as_str()).collect();
        let main: Vec<MainRow> = mseq.iter().filter_map(|i| ma[*i as usize].1.clone()).collect();
        for jset in &joined_sets {
            let joined: Vec<JoinedRow> = jset.iter().filter_map(|i| ja[*i as usize].1.clone()).collect();
            let jl: Vec<&str> = jset.iter().map(|i| ja[*i as usize].0.as_str()).collect();
            let jf = sut::files_from(&jl, &[jl.len()]);
            let tmp = sut::TempFiles::new(&[jf[0].as_slice()]);
            let text = format!(
                "SELECT {}{} FROM t {} JOIN u::'{}' ON t.k = u.k{}{}",
                if d { "DISTINCT " } else { "" },
                projections[p].iter().map(|e| e.full()).collect::<Vec<_>>().join(", "),
                if j == 1 { "OUTER" } else { "INNER" },
                tmp.paths[0],
                filters[f].as_ref().map(|e| format!(" WHERE {}", e.full())).unwrap_or_default(),
                limits[l].map(|n| format!(" LIMIT {}", n)).unwrap_or_default()
            );
            // reference
            let mut rows: Vec<Vec<RVal>> = Vec::new();
            let mut open = false;
            for r in &main {
                let partners: Vec<Option<&JoinedRow>> = {
                    let ps: Vec<Option<&JoinedRow>> = joined.iter().filter(|s| !r.k.is_null() && !s.k.is_null() && ref_eq(&r.k, &s.k)).map(Some).collect();
                    if ps.is_empty() && j == 1 { vec![None] } else { ps }
                };
                for s in partners {
                    let mut env = Row::new();
                    env.insert("k".into(), r.k.clone());
                    env.insert("t.k".into(), r.k.clone());
                    env.insert("x".into(), r.x.clone());
                    env.insert("t.x".into(), r.x.clone());
                    env.insert("m".into(), r.m.clone());
                    env.insert("y".into(), s.map(|s| s.y.clone()).unwrap_or(RVal::Null));
                    env.insert("u.y".into(), s.map(|s| s.y.clone()).unwrap_or(RVal::Null));
                    env.insert("u.k".into(), s.map(|s| s.k.clone()).unwrap_or(RVal::Null));
                    env.insert("u.x".into(), s.map(|s| s.x.clone()).unwrap_or(RVal::Null));
                    let keep = match &filters[f] {
                        None => true,
                        Some(e) => match eval(e, &env) {
                            Ev::Val(RVal::Bool(t)) => t,
                            Ev::Val(RVal::Null) => false,
                            _ => {
                                open = true;
                                false
                            }
                        },
                    };
                    if keep {
                        let mut out = Vec::new();
                        for e in &projections[p] {
                            match eval(e, &env) {
                                Ev::Val(v) => out.push(v),
                                _ => {
                                    open = true;
                                    out.push(RVal::Null)
                                }
                            }
                        }
                        rows.push(out);
                    }
                }
            }
            if open {
                continue;
            }
            if d {
                rows = distinct_rows(&rows);
            }
            if let Some(n) = limits[l] {
                rows.truncate(n);
            }
            let st = match sut::parse(&text) {
                Ok(s) => s,
                Err(e) => {
                    col.fail(fail(format!("join-interaction:rejected:{}", msg_class(&e)), format!("`{}` rejected: {}", text, e), json!({"layer": "interaction", "statement": text}), json!("parses"), json!(e), 0));
                    continue;
                }
            };
            let got = sut::run_batch(&tables, &st, &mlines);
            col.eval(1);
            let ok = matches!(&got, Outcome::Ok(t) if sut::rows_same(&t.rows, &rows));
            if !rows.is_empty() && main.len() >= 2 {
                col.nontrivial(h64(&("ia", idx, jset)));
            }
            col.outcome(h64(&(rows.len().min(5), ok)));
            if !ok {
                let feats = format!("{}{}{}{}", if j == 1 { "outer" } else { "inner" }, if d { "+distinct" } else { "" }, if limits[l].is_some() { "+limit" } else { "" }, if filters[f].is_some() { "+where" } else { "" });
                col.fail(fail(
                    format!("join-interaction:{}:{}", feats, match &got { Outcome::Ok(t) if t.rows.len() > rows.len() => "extra-rows", Outcome::Ok(t) if t.rows.len() < rows.len() => "missing-rows", Outcome::Ok(_) => "rows-differ", Outcome::Err(_) => "error", Outcome::Panic(_) => "panic" }),
                    format!("`{}` main {:?} joined {:?}: expected {:?}", text.replace(&tmp.paths[0], "<joined>"), mlines, jl, rows),
                    json!({"layer": "interaction", "statement": text.replace(&tmp.paths[0], "<joined>"), "main": mlines, "joined": jl}),
                    rows_json(&rows),
                    sut::outcome_json(&got, |t| t.to_json()),
                    (mseq.len() + jset.len()) as u64,
                ));
            }
            if idx % 20011 == 3 {
                col.sample(json!({"layer": "interaction", "statement": text.replace(&tmp.paths[0], "<joined>"), "main": mlines, "joined": jl}));
            }
        }
    })
}

/// line-ending layer: regex tables whose join key is captured up to the end of the line; the same files with LF, CRLF
/// and without a final line terminator must give the same joined output
fn line_ending_layer(col: &Collector) -> u64 {
    let defs = "CREATE TABLE rt(line = '^([a-z0-9]+) (.*)$', line[1] => x TEXT, line[2] => k TEXT);\nCREATE TABLE ru(line = '^([a-z0-9]+) (.*)$', line[1] => y TEXT, line[2] => k TEXT);";
    let tables = sut::make_tables(defs).unwrap();
    let mains = ["x1 a", "x2 b b", "x3 a", "x4 "];
    let joins = ["y1 a", "y2 b b", "y3 c", "y4 a", "y5 "];
    let mut n = 0;
    let render = |lines: &[&str], eol: &str, last: bool| -> Vec<u8> {
        let mut v = Vec::new();
        for (i, l) in lines.iter().enumerate() {
            v.extend_from_slice(l.as_bytes());
            if i + 1 < lines.len() || last {
                v.extend_from_slice(eol.as_bytes());
            }
        }
        v
    };
    for mi in 0..seq_count(4, 2) {
        let ms = seq_decode(mi, 4, 2);
        let ml: Vec<&str> = ms.iter().map(|i| mains[*i as usize]).collect();
        for ji in 0..seq_count(5, 3) {
            let js = seq_decode(ji, 5, 3);
            let jl: Vec<&str> = js.iter().map(|i| joins[*i as usize]).collect();
            let mut base: Option<Vec<String>> = None;
            for (meol, jeol, mlast, jlast) in [("\n", "\n", true, true), ("\r\n", "\n", true, true), ("\n", "\r\n", true, true), ("\r\n", "\r\n", true, true), ("\n", "\n", false, false), ("\r\n", "\r\n", false, true)] {
                let jf = render(&jl, jeol, jlast);
                let tmp = sut::TempFiles::new(&[jf.as_slice()]);
                let text = format!("SELECT x, y, rt.k FROM rt INNER JOIN ru::'{}' ON rt.k = ru.k", tmp.paths[0]);
                let st = sut::parse(&text).unwrap();
                let mf = render(&ml, meol, mlast);
                let r = sut::run_files(&tables, &st, &[mf.as_slice()], sut::FileRunOpts::default());
                n += 1;
                col.eval(1);
                let printed = match &r {
                    Outcome::Ok(fr) if fr.result.is_ok() => fr.printed.clone(),
                    other => vec![format!("{}", other.kind())],
                };
                match &base {
                    None => {
                        if !printed.is_empty() {
                            col.outcome(h64(&printed));
                        }
                        base = Some(printed)
                    }
                    Some(b) => {
                        if *b != printed {
                            col.fail(fail(
                                format!("join:line-endings:main={:?}:joined={:?}:final-terminator={}/{}", meol, jeol, mlast, jlast),
                                format!("join output differs when the files use other line endings (main {:?}, joined {:?}; main lines {:?}, joined lines {:?})", meol, jeol, ml, jl),
                                json!({"layer": "line-endings", "mseq": ms, "jseq": js}),
                                json!(b),
                                json!(printed),
                                (ms.len() + js.len()) as u64,
                            ));
                        }
                    }
                }
            }
            if ml.len() >= 1 && jl.len() >= 2 {
                col.nontrivial(h64(&("le", mi, ji)));
            }
        }
    }
    n
}

pub fn run(ctx: &Ctx) -> i32 {
    let col = Collector::new();
    let maxlen = ctx.tier.pick(2, 4) as u32;
    for kt in ["TEXT", "INT", "REAL", "INT:big", "REAL:big"] {
        let tables = sut::make_tables(&defs(kt)).unwrap();
        let km = main_alpha(kt).len() as u64;
        let kj = joined_alpha(kt).len() as u64;
        let nm = seq_count(km, maxlen);
        let maxj = 3u32;
        let nj = seq_count(kj, maxj);
        let (done, complete) = par_for_budget(ctx, nm * nj, 4, |idx| {
            let mseq = seq_decode(idx % nm, km, maxlen);
            let jseq = seq_decode(idx / nm, kj, maxj);
            let (fs, nt, evals) = judge(&tables, kt, &mseq, &jseq, None);
            col.eval(evals);
            if nt {
                col.nontrivial(h64(&(kt, &mseq, &jseq)));
            }
            col.outcome(h64(&(fs.len(), nt, mseq.len(), jseq.len())));
            if idx % 1501 == 7 {
                col.sample(json!({"key_type": kt, "main_lines": mseq, "joined_lines": jseq, "statements": "9 statements x INNER/OUTER x both ON orders"}));
            }
            for f in fs {
                col.fail(f);
            }
        });
        col.layer(&format!("file pairs ({} keys)", kt), done, complete, json!({"main_sequences": nm, "joined_sequences": nj, "max_len": maxlen}));
        if kt == "TEXT" {
            for f in error_cases(&tables) {
                col.fail(f);
            }
            col.eval(6);
        }
    }
    let (done, complete) = interaction_layer(ctx, &col);
    col.layer("interaction: JOIN x WHERE x projection x DISTINCT x LIMIT (generic reference executor)", done, complete, json!({"statements": 500, "joined_files": 4}));
    // join statements through every driver
    {
        let ma = main_alpha("TEXT");
        let ja = joined_alpha("TEXT");
        let joined: String = ja.iter().map(|l| format!("{}\n", l.0)).collect();
        let tmp = sut::TempFiles::new(&[joined.as_bytes()]);
        let input: Vec<String> = [0usize, 1, 2, 3, 4, 1].iter().map(|i| ma[*i].0.clone()).collect();
        let mut cases: Vec<(String, String, Vec<String>, bool)> = Vec::new();
        for si in 0..NSTMT {
            for outer in [false, true] {
                for flipped in [false, true] {
                    cases.push((defs("TEXT"), stmt_text(si, outer, flipped, &tmp.paths[0]), input.clone(), !flipped));
                }
            }
        }
        crate::drivers::run_layer(&col, &cases, &|s| if s.contains("GROUP BY") || s.contains("COUNT(") { "join+aggregate".to_string() } else { "join".to_string() });
    }
    // OUTER JOIN: a row without partner shows NULL in every joined column, also in one declared with a DEFAULT
    {
        let dt = sut::make_tables("CREATE TABLE t({ .k } => k TEXT, { .x } => x INT);\nCREATE TABLE u({ .k } => k TEXT, { .y } => y INT DEFAULT 7, { .w } => w TEXT DEFAULT 'd');").unwrap();
        let tmp = sut::TempFiles::new(&[b"{\"k\":\"a\",\"y\":1,\"w\":\"p\"}\n{\"k\":\"a\"}\n"]);
        let main = ["{\"k\":\"a\",\"x\":1}", "{\"k\":\"zz\",\"x\":2}", "{\"x\":3}"];
        for (text, want) in [
            (format!("SELECT t.x, y, w FROM t OUTER JOIN u::'{}' ON t.k = u.k", tmp.paths[0]), vec![vec![RVal::Int(1), RVal::Int(1), RVal::Text("p".into())], vec![RVal::Int(1), RVal::Int(7), RVal::Text("d".into())], vec![RVal::Int(2), RVal::Null, RVal::Null], vec![RVal::Int(3), RVal::Null, RVal::Null]]),
            (format!("SELECT t.x FROM t OUTER JOIN u::'{}' ON t.k = u.k WHERE y IS NULL", tmp.paths[0]), vec![vec![RVal::Int(2)], vec![RVal::Int(3)]]),
        ] {
            col.eval(1);
            col.nontrivial(h64(&("outer-default", &text)));
            let got = sut::run_batch(&dt, &sut::parse(&text).unwrap(), &main);
            if !matches!(&got, Outcome::Ok(t) if sut::rows_same(&t.rows, &want)) {
                col.fail(fail(
                    "join:outer:default-column-of-partnerless-row".into(),
                    format!("`{}`: a row without partner must show NULL in the joined columns (also those declared with DEFAULT)", text.replace(&tmp.paths[0], "<joined>")),
                    json!({"layer": "errors"}),
                    rows_json(&want),
                    sut::outcome_json(&got, |t| t.to_json()),
                    1,
                ));
            }
        }
    }
    let n = line_ending_layer(&col);
    col.layer("line endings of the joined / main file", n, true, json!({"renderings": ["LF/LF", "CRLF/LF", "LF/CRLF", "CRLF/CRLF", "no final terminator", "CRLF + joined final terminator only"]}));
    {
        let sizes: Vec<usize> = if ctx.tier == Tier::Thorough { (1..=300).collect() } else { vec![4, 8, 15, 16, 17, 20, 21, 32, 33, 50, 64, 100, 129, 257] };
        let mut nl = 0u64;
        for n in &sizes {
            for mult in [1usize, 3, 5, 7] {
                for int_keys in [false, true] {
                    nl += 1;
                    col.eval(2);
                    col.nontrivial(h64(&("large", n, mult, int_keys)));
                    for f in large_joined_case(int_keys, *n, mult) {
                        col.fail(f);
                    }
                }
            }
        }
        col.layer("larger joined files (partner order)", nl, true, json!({"sizes": if sizes.len() > 20 { json!("1..=300") } else { json!(sizes) }, "key_cycle_steps": [1, 3, 5, 7]}));
    }
    finish(
        ctx,
        &col,
        Finish {
            level: "exploration",
            rule: "all pairs of (main file, joined file) line sequences up to the bound over alphabets with equal / NULL / duplicated / unmatched keys and non-admitted lines x key type {TEXT, INT, REAL incl. -0.0/0.0} x 9 statements x INNER/OUTER x both ON orders; oracle: reference nested-loop join feeding hand-written reference projections / filters / DISTINCT / aggregates / LIMIT; error cases must report an error. Non-trivial: a main row has a partner and (another has none or one has >= 2).".into(),
            exhaustive: true,
            assumptions: vec!["column naming of `*` (clashing joined columns by their table-qualified name) as stated in the property".into()],
            bounds: json!({"max_lines_per_file": maxlen}),
        },
    )
}

/// larger joined files: n rows over 4 (TEXT or INT) keys in a non-sorted, repeating order; every main row must meet its
/// partners in joined-file order (SELECT) and string_agg / array_agg must list them in that order
fn large_joined_case(int_keys: bool, n: usize, mult: usize) -> Vec<Failure> {
    let kt = if int_keys { "INT" } else { "TEXT" };
    let tables = sut::make_tables(&defs(kt)).unwrap();
    let key = |i: usize| if int_keys { format!("{}", 10 + i) } else { format!("\"k{}\"", i) };
    let joined: String = (0..n).map(|i| format!("{{\"k\":{},\"y\":{}}}\n", key((i * mult + 3) % 4), i)).collect();
    let tmp = sut::TempFiles::new(&[joined.as_bytes()]);
    let main: Vec<String> = [2usize, 0, 3, 1, 0].iter().enumerate().map(|(x, k)| format!("{{\"k\":{},\"x\":{},\"m\":\"m\"}}", key(*k), x)).collect();
    let ml: Vec<&str> = main.iter().map(|s| s.as_str()).collect();
    let mut out = Vec::new();
    let text = format!("SELECT t.x, y FROM t INNER JOIN u::'{}' ON t.k = u.k", tmp.paths[0]);
    let st = sut::parse(&text).unwrap();
    let mut expected: Vec<Vec<RVal>> = Vec::new();
    for (x, k) in [2usize, 0, 3, 1, 0].iter().enumerate() {
        for i in 0..n {
            if (i * mult + 3) % 4 == *k {
                expected.push(vec![RVal::Int(x as i64), RVal::Int(i as i64)]);
            }
        }
    }
    let got = sut::run_batch(&tables, &st, &ml);
    if !matches!(&got, Outcome::Ok(t) if sut::rows_same(&t.rows, &expected)) {
        let dev = match &got {
            Outcome::Ok(t) if t.rows.len() != expected.len() => "row-count",
            Outcome::Ok(_) => "partner-order",
            _ => "error",
        };
        out.push(fail(
            format!("join:large-joined-file:{}:{}", dev, kt),
            format!("joined file of {} rows (keys cycling with step {}): partners are not met in joined-file order", n, mult),
            json!({"layer": "large", "int_keys": int_keys, "n": n, "mult": mult}),
            rows_json(&expected[..expected.len().min(12)]),
            sut::outcome_json(&got, |t| json!(t.to_json()["rows"].as_array().map(|a| a.iter().take(12).cloned().collect::<Vec<_>>()))),
            n as u64,
        ));
    }
    // the library constructor that loads the joined table itself must see the whole joined file
    {
        use sqlgrep::execution::execution_engine::ExecutionEngine;
        let r = catch(|| -> Result<Vec<Vec<RVal>>, String> {
            let mut engine = ExecutionEngine::with_executed_joined_table(&tables, &st).map_err(|e| format!("{}", e))?;
            let cfg = engine.execution_config();
            let mut rows = Vec::new();
            for l in &ml {
                let o = engine.execute(l.to_string(), &cfg).map_err(|e| format!("{}", e))?;
                if let Some(rr) = o.result_row {
                    for row in rr.data {
                        rows.push(row.columns.iter().map(sut::from_value).collect());
                    }
                }
            }
            Ok(rows)
        });
        if !matches!(&r, Ok(Ok(rows)) if sut::rows_same(rows, &expected)) {
            out.push(fail(
                format!("join:large-joined-file:with_executed_joined_table:{}", kt),
                format!("ExecutionEngine::with_executed_joined_table over a joined file of {} rows: the rows differ from the reference join", n),
                json!({"layer": "large", "int_keys": int_keys, "n": n, "mult": mult}),
                rows_json(&expected[..expected.len().min(12)]),
                json!(format!("{:?}", r.as_ref().map(|x| x.as_ref().map(|rows| rows.len())))),
                n as u64 + 2,
            ));
        }
    }
    let text2 = format!("SELECT t.x, ARRAY_AGG(y) FROM t INNER JOIN u::'{}' ON t.k = u.k GROUP BY t.x", tmp.paths[0]);
    let st2 = sut::parse(&text2).unwrap();
    let mut exp2: Vec<Vec<RVal>> = Vec::new();
    for (x, k) in [2usize, 0, 3, 1, 0].iter().enumerate() {
        let ys: Vec<RVal> = (0..n).filter(|i| (i * mult + 3) % 4 == *k).map(|i| RVal::Int(i as i64)).collect();
        if !ys.is_empty() {
            exp2.push(vec![RVal::Int(x as i64), RVal::Array(ys)]);
        }
    }
    let got2 = sut::run_batch(&tables, &st2, &ml);
    if !matches!(&got2, Outcome::Ok(t) if sut::rows_same(&t.rows, &exp2)) {
        out.push(fail(
            format!("join:large-joined-file:array-agg-order:{}", kt),
            format!("joined file of {} rows: ARRAY_AGG(y) per main row does not list the partners in joined-file order", n),
            json!({"layer": "large", "int_keys": int_keys, "n": n, "mult": mult}),
            rows_json(&exp2),
            sut::outcome_json(&got2, |t| t.to_json()),
            n as u64 + 1,
        ));
    }
    out
}

pub fn replay(case: &J) -> Vec<Failure> {
    if case["layer"].as_str() == Some("large") {
        return large_joined_case(case["int_keys"].as_bool().unwrap(), case["n"].as_u64().unwrap() as usize, case["mult"].as_u64().unwrap() as usize);
    }
    if case["layer"].as_str() == Some("line-endings") {
        let col = Collector::new();
        line_ending_layer(&col);
        let f = col.failures.lock().unwrap();
        return f.values().flat_map(|v| v.iter().cloned()).collect();
    }
    if case["layer"].as_str() == Some("errors") {
        let tables = sut::make_tables(&defs("TEXT")).unwrap();
        return error_cases(&tables);
    }
    let kt = case["kt"].as_str().unwrap().to_string();
    let tables = sut::make_tables(&defs(&kt)).unwrap();
    let mseq: Vec<u8> = case["mseq"].as_array().unwrap().iter().map(|x| x.as_u64().unwrap() as u8).collect();
    let jseq: Vec<u8> = case["jseq"].as_array().unwrap().iter().map(|x| x.as_u64().unwrap() as u8).collect();
    judge(&tables, &kt, &mseq, &jseq, Some((case["si"].as_u64().unwrap() as usize, case["outer"].as_bool().unwrap(), case["flipped"].as_bool().unwrap()))).0
}
