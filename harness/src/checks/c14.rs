//! C14 — parsing is total: any text yields a statement or a located error, never a panic.
//!
//! Layers: (a) every character prefix of every corpus statement; (b) every single-token deletion, duplication and
//! adjacent swap; (c) all token sequences up to a length bound over a 40-token vocabulary in SELECT and CREATE TABLE
//! context; (d) all strings up to 3 characters over a Unicode edge alphabet, in 4 contexts; (e) the named rejection cases;
//! (f) bracket nesting up to the documented bound 64 on a 2 MiB stack; (g) long flat texts in child processes.

use std::sync::Mutex;
use serde_json::{json, Value as J};

use crate::checks::fail;
use crate::core::*;
use crate::gen::*;

#[derive(Debug, Clone, PartialEq)]
enum ParseObs {
    Ok,
    Err { line: usize, column: usize, msg: String, near: String },
}

/// parse + produce location + excerpt exactly like main.rs's parse_statement does
fn observe(text: &str) -> Result<ParseObs, PanicRec> {
    // parsing must terminate: the case is registered with the process-wide watchdog while it runs
    watch(&|| json!({"layer": "hang", "text": text}).to_string(), || {
        catch(|| match sqlgrep::parsing::parse(text) {
            Ok(_) => ParseObs::Ok,
            Err(e) => {
                let loc = e.location().clone();
                let near = loc.extract_near(text);
                ParseObs::Err { line: loc.line, column: loc.column, msg: format!("{}", e), near }
            }
        })
    })
}

fn judge(text: &str, layer: &str, rank: u64) -> (Vec<Failure>, Option<ParseObs>) {
    let case = json!({"layer": layer, "text": text});
    match observe(text) {
        Err(p) => (vec![fail(panic_signature(&p), format!("parsing {:?} panicked: {}", text, p.msg), case, json!("statement or located error"), json!({"panic": p.msg, "at": format!("{}:{}", p.file, p.line)}), rank)], None),
        Ok(obs) => {
            let mut out = Vec::new();
            if let ParseObs::Err { line, column, msg, .. } = &obs {
                let nlines = text.matches('\n').count();
                let line_len = text.split('\n').nth(*line).map(|l| l.chars().count());
                let inside = *line <= nlines && line_len.map(|l| *column <= l + 1).unwrap_or(false);
                if !inside {
                    out.push(fail(
                        format!("error-location-outside-text:{}", msg_class(msg).split('\'').next().unwrap_or("").trim()),
                        format!("error `{}` for {:?} is located at line {} column {}, outside the text", msg, text, line, column),
                        case,
                        json!({"lines": nlines + 1, "line_len": line_len}),
                        json!({"line": line, "column": column}),
                        rank,
                    ));
                }
            }
            (out, Some(obs))
        }
    }
}

const VOCAB: [&str; 40] = [
    "SELECT", "FROM", "WHERE", "GROUP", "BY", "HAVING", "LIMIT", "DISTINCT", "AS", "AND", "OR", "NOT", "IS", "IN", "NULL", "CASE", "WHEN", "THEN", "ELSE", "END", "CREATE", "TABLE", "EXTRACT", "JOIN", "INNER", "ON", "(", ")", "[", "]", "{", "}", ",", ";", "::", "=>", "-", "=", "x", "1",
];
const VOCAB2: [&str; 12] = ["*", "'s'", ".", "1.5", "<", ">", "!", "count", "TRUE", "DEFAULT", ":", "+"];

const UNI: [&str; 15] = ["K", "ß", "é", "٣", "²", "İ", "\u{2028}", "'", "\\", "\n", "-", "=", ":", "😀", "\0"];

fn named_cases() -> Vec<&'static str> {
    vec![
        "CREATE TABLE x(line = '([a-z', line[1] => a INT);",
        "CREATE TABLE x({ } => a INT);",
        "CREATE TABLE x({ .a } => a INTT);",
        "CREATE TABLE x(line = '(a)', line[99999999999999999999] => a INT);",
        "CREATE TABLE x(line = '(a)', line[18446744073709551615] => a INT);",
        "CREATE TABLE x(line = '(a)', line[-1] => a INT);",
        "CREATE TABLE x({ [99999999999999999999] } => a INT);",
        "CREATE TABLE x(line = '(a)', line[1] => a INT DEFAULT 'x');",
        "CREATE TABLE x(line = '(a)', line[1] => a INT TRIM);",
        "SELECT string_agg(x) FROM t",
        "SELECT string_agg(x, 1) FROM t",
        "SELECT string_agg(x, ',', 2) FROM t",
        "SELECT percentile(x) FROM t",
        "SELECT percentile(x, 'a') FROM t",
        "SELECT percentile(x, 1) FROM t",
        "SELECT count(a, b) FROM t",
        "SELECT count(a + 1) FROM t",
        "SELECT sum() FROM t",
        "SELECT sum(a, b, c) FROM t",
        "SELECT min(a) + max(b) FROM t",
        "SELECT x FROM t LIMIT 99999999999999999999",
        "SELECT x FROM t LIMIT -1",
        "SELECT 99999999999999999999 FROM t",
        "SELECT 1.5.5 FROM t",
        "SELECT 1e999 FROM t",
        "SELECT x FROM t HAVING x > 1",
        "SELECT x FROM t WHERE (1, 2)",
        "SELECT x FROM t WHERE x IN 1",
        "SELECT x FROM t INNER JOIN u::'f' ON a.b = c.d",
        "SELECT x FROM t INNER JOIN u::'f' ON t.b = c.d",
        "SELECT nosuchfunction(x) FROM t",
        "SELECT x::nosuchtype FROM t",
        "SELECT x::1 FROM t",
        "SELECT EXTRACT(nosuchpart FROM x) FROM t",
        "SELEC x",
        "x",
        "",
        " ",
        "\n",
        "SELECT",
        "SELECT 'unterminated FROM t",
        "SELECT x FROM t -- comment",
        "SELECT x FROM t WHERE",
        "SELECT x FROM t WHERE x = ",
        "SELECT * * FROM t",
        "SELECT x FROM t;;",
        "CREATE TABLE",
        "CREATE TABLE t();",
        "CREATE TABLE t(",
        "SELECT x ! y FROM t",
        "SELECT x ^ y FROM t",
        "SELECT x . 1 FROM t",
        "SELECT a.b.c FROM t",
        "SELECT x FROM t WHERE WHERE",
        "SELECT x FROM t WHERE a WHERE b",
        "SELECT x FROM t GROUP x",
        "SELECT CASE END FROM t",
        "SELECT CASE WHEN a THEN b FROM t",
        "SELECT ARRAY[] FROM t",
        "SELECT x[ FROM t",
        "SELECT NOT FROM t",
        "SELECT - FROM t",
    ]
}

/// definitions and queries that the property requires to be *rejected* (with an error, not a crash)
fn must_reject() -> Vec<&'static str> {
    vec![
        "CREATE TABLE x(line = '([a-z', line[1] => a INT);",
        "CREATE TABLE x(line = '(a)', other = '([0-9]+', line[1] => a INT);",
        "CREATE TABLE x(other = '*', line = '(a)', line[1] => a INT);",
        "CREATE TABLE x('([0-9]+' => a INT);",
        "CREATE TABLE x(line = split '(', line[1] => a INT);",
        "CREATE TABLE x(line = '(a)', line[1] => a INT); CREATE TABLE y(l = '[', l[0] => b TEXT);",
        "CREATE TABLE x({ } => a INT);",
        "CREATE TABLE x({ .a } => a INT, { } => b TEXT);",
        "CREATE TABLE x(line = '(a)', line[99999999999999999999] => a INT);",
        "CREATE TABLE x({ [99999999999999999999] } => a INT);",
        "CREATE TABLE x({ .a } => a NOSUCHTYPE);",
        "SELECT string_agg(x) FROM t",
        "SELECT percentile(x) FROM t",
        "SELECT count(a, b) FROM t",
        "SELECT sum() FROM t",
        "SELECT sum(a, b, c) FROM t",
        "SELECT max(a, b) FROM t",
        "SELECT percentile(x, 0.5, 1) FROM t",
        "SELECT k, COUNT(*) FROM t GROUP BY k HAVING string_agg(x) = 'a'",
        "SELECT x FROM t LIMIT 99999999999999999999",
        "SELECT 99999999999999999999 FROM t",
    ]
}

fn nested(kind: usize, depth: usize) -> String {
    match kind {
        0 => format!("SELECT {}1{} FROM t", "(".repeat(depth), ")".repeat(depth)),
        1 => format!("SELECT a{}1{} FROM t", "[a[".repeat(depth / 2 + 1), "]]".repeat(depth / 2 + 1)),
        2 => format!("SELECT {}x{} FROM t", "abs(".repeat(depth), ")".repeat(depth)),
        3 => format!("SELECT {}1{} FROM t", "CASE WHEN x THEN ".repeat(depth), " ELSE 2 END".repeat(depth)),
        4 => format!("SELECT {}x FROM t", "- ".repeat(depth)),
        5 => format!("SELECT {}x FROM t", "NOT ".repeat(depth)),
        6 => format!("SELECT ARRAY{}1{} FROM t", "[ARRAY".repeat(depth - 1) + "[", "]".repeat(depth)),
        // tuples nested in the first / the last position, calls nested in the first argument, CASE nested in its condition
        8 => format!("SELECT x FROM t WHERE x IN {}1{}", "(".repeat(depth), ", 2)".repeat(depth)),
        9 => format!("SELECT x FROM t WHERE x IN {}1, 2{}", "(1, ".repeat(depth), ")".repeat(depth)),
        10 => format!("SELECT {}1{} FROM t", "greatest(".repeat(depth), ", 2)".repeat(depth)),
        11 => format!("SELECT {}x{} FROM t", "CASE WHEN ".repeat(depth), " THEN 1 ELSE 2 END".repeat(depth)),
        _ => format!("CREATE TABLE t({{ {} }} => x INT{});", ".a[0]".repeat(depth), "[]".repeat(depth)),
    }
}

fn flat(kind: usize, n: usize) -> String {
    match kind {
        0 => format!("SELECT {} FROM t", vec!["1"; n].join(" + ")),
        1 => format!("SELECT x FROM t WHERE {}", vec!["a = 1"; n].join(" AND ")),
        2 => format!("SELECT {} FROM t", vec!["x"; n].join(", ")),
        3 => format!("CREATE TABLE t(line = '(a)', {});", (0..n).map(|i| format!("line[1] => c{} INT", i)).collect::<Vec<_>>().join(", ")),
        4 => format!("SELECT {} FROM t", "x".repeat(n)),
        5 => format!("SELECT '{}' FROM t", "y".repeat(n)),
        6 => format!("SELECT x FROM t WHERE x IN ({})", vec!["1"; n].join(", ")),
        7 => format!("SELECT {} FROM t", vec!["x"; n].join(" . ")),
        _ => format!("SELECT x {}", "\n".repeat(n)),
    }
}

pub fn child(args: &[String]) -> i32 {
    // vcheck --child parse flat|nested <kind> <n>
    let kind: usize = args[2].parse().unwrap();
    let n: usize = args[3].parse().unwrap();
    let text = if args[1] == "flat" { flat(kind, n) } else { nested(kind, n) };
    let run = move || match observe(&text) {
        Ok(ParseObs::Ok) => {
            println!("PARSE-OK");
            0
        }
        Ok(ParseObs::Err { msg, .. }) => {
            println!("PARSE-ERR {}", msg);
            0
        }
        Err(p) => {
            println!("PARSE-PANIC {} at {}:{}", p.msg, p.file, p.line);
            3
        }
    };
    // explicit stack sizes make the verdict independent of the environment's ulimit -s:
    // the documented nesting bound is checked on a 2 MiB stack, long flat texts on an 8 MiB stack
    let stack = if args[1] == "nested" { 2 << 20 } else { 8 << 20 };
    std::thread::Builder::new().stack_size(stack).spawn(run).unwrap().join().unwrap_or(4)
}

/// child: vcheck --child parsebatch <file with one hex-encoded text per line>: parses every text (and produces the error
/// excerpt like the command line program does), announcing each one before it starts, so that the parent knows which
/// text ended the process if it dies (stack overflow, abort)
pub fn child_batch(args: &[String]) -> i32 {
    let content = std::fs::read_to_string(&args[1]).unwrap_or_default();
    let texts: Vec<String> = content.lines().map(|l| String::from_utf8_lossy(&unhex(l)).to_string()).collect();
    let run = move || {
        use std::io::Write;
        let out = std::io::stdout();
        for (i, t) in texts.iter().enumerate() {
            {
                let mut o = out.lock();
                let _ = writeln!(o, "B {}", i);
                let _ = o.flush();
            }
            let _ = catch(|| match sqlgrep::parsing::parse(t) {
                Ok(_) => 0,
                Err(e) => e.location().clone().extract_near(t).len(),
            });
        }
        let mut o = out.lock();
        let _ = writeln!(o, "DONE");
        0
    };
    std::thread::Builder::new().stack_size(8 << 20).spawn(run).unwrap().join().unwrap_or(4)
}

/// texts on which the parser ends the whole process (not a panic: a stack overflow / abort); found by parsing all of them
/// in child processes first. Returns the indexes of such texts.
fn process_killers(texts: &[&str]) -> Vec<usize> {
    let mut killers = Vec::new();
    let mut start = 0usize;
    let exe = std::env::current_exe().unwrap();
    static CNT: std::sync::atomic::AtomicU64 = std::sync::atomic::AtomicU64::new(0);
    while start < texts.len() {
        let path = format!("{}/c14_batch_{}_{}.txt", crate::sut::tmp_dir(), std::process::id(), CNT.fetch_add(1, std::sync::atomic::Ordering::Relaxed));
        let body: String = texts[start..].iter().map(|t| format!("{}\n", hex(t.as_bytes()))).collect();
        if std::fs::write(&path, body).is_err() {
            break;
        }
        let out = std::process::Command::new(&exe).args(["--child", "parsebatch", &path]).stderr(std::process::Stdio::null()).output();
        std::fs::remove_file(&path).ok();
        let out = match out {
            Ok(o) => o,
            Err(_) => break,
        };
        let stdout = String::from_utf8_lossy(&out.stdout);
        if stdout.lines().last() == Some("DONE") {
            break;
        }
        // the last announced text ended the child
        match stdout.lines().rev().find_map(|l| l.strip_prefix("B ").and_then(|x| x.parse::<usize>().ok())) {
            Some(i) => {
                killers.push(start + i);
                start += i + 1;
            }
            None => break,
        }
    }
    killers
}

fn run_child(mode: &str, kind: usize, n: usize) -> (String, Option<i32>, String) {
    let exe = std::env::current_exe().unwrap();
    let mut child = std::process::Command::new(exe).args(["--child", "parse", mode, &kind.to_string(), &n.to_string()]).stdout(std::process::Stdio::piped()).stderr(std::process::Stdio::piped()).spawn().expect("spawn child");
    let start = std::time::Instant::now();
    loop {
        match child.try_wait() {
            Ok(Some(_)) => break,
            Ok(None) if start.elapsed().as_secs() >= 20 => {
                let _ = child.kill();
                let _ = child.wait();
                return ("no answer within 20 s (killed)".to_string(), Some(-1), "timeout".to_string());
            }
            Ok(None) => std::thread::sleep(std::time::Duration::from_millis(5)),
            Err(_) => break,
        }
    }
    let out = child.wait_with_output().expect("child output");
    let stdout = String::from_utf8_lossy(&out.stdout).to_string();
    let stderr = String::from_utf8_lossy(&out.stderr).to_string();
    let status = if out.status.success() { "ok".to_string() } else if let Some(c) = out.status.code() { format!("exit {}", c) } else { "killed by signal (abort / stack overflow)".to_string() };
    (status, out.status.code(), format!("{}{}", stdout.lines().next().unwrap_or(""), if stderr.contains("overflowed its stack") { " [stack overflow]" } else { "" }))
}

fn child_case(mode: &str, kind: usize, n: usize) -> Vec<Failure> {
    let (status, code, first) = run_child(mode, kind, n);
    if code == Some(0) {
        return vec![];
    }
    let what = if code == Some(-1) { "does-not-terminate" } else if first.contains("stack overflow") || code.is_none() { "stack-overflow-abort" } else { "panic" };
    vec![fail(
        format!("parse-child:{}:{}:kind{}:n={}", what, mode, kind, n),
        format!("parsing a {} text (kind {}, size {}) ended with {}: {}", mode, kind, n, status, first),
        json!({"layer": "child", "mode": mode, "kind": kind, "n": n, "text_head": (if mode == "flat" { flat(kind, 3) } else { nested(kind, 3) })}),
        json!("statement or error"),
        json!({"status": status, "output": first}),
        n as u64,
    )]
}

pub fn run(ctx: &Ctx) -> i32 {
    let col = Collector::new();
    let corpus = statement_corpus();
    // model validation: the corpus itself must parse
    for s in &corpus {
        if observe(s) != Ok(ParseObs::Ok) {
            col.note(format!("corpus statement does not parse: {} -> {:?}", s, observe(s)));
        }
    }
    // aggregates in every syntactic position (accepted or rejected: either is an answer); their prefixes and token mutants
    // are enumerated like those of the corpus
    let mut corpus = corpus;
    corpus.extend([
        "SELECT CASE WHEN MAX(x) > 10 THEN 1 ELSE 0 END FROM t",
        "SELECT k, CASE WHEN COUNT(*) > 1 THEN 'many' ELSE 'one' END FROM t GROUP BY k",
        "SELECT CASE WHEN x > 1 THEN MAX(x) ELSE MIN(x) END FROM t",
        "SELECT (MAX(x), 1) FROM t",
        "SELECT x IN (MAX(x), 1) FROM t",
        "SELECT MAX(x) IN (1, 2) FROM t",
        "SELECT ARRAY[MAX(x), MIN(x)] FROM t",
        "SELECT MAX(a)[1] FROM t",
        "SELECT a[MAX(x)] FROM t",
        "SELECT MAX(x)::text, NOT BOOL_AND(b), -MAX(x) IS NULL FROM t",
        "SELECT MAX(MIN(x)) FROM t",
        "SELECT MAX(x) + MIN(x) * COUNT(*) FROM t",
        "SELECT upper(STRING_AGG(s, ',')) FROM t",
        "SELECT MAX(x) FROM t WHERE MAX(x) > 1",
        "SELECT x FROM t GROUP BY MAX(x)",
        "SELECT COUNT(*) FROM t HAVING CASE WHEN MAX(x) > 1 THEN TRUE ELSE FALSE END",
        "SELECT COUNT(*) FROM t HAVING MAX(x) IN (1, 2) AND (MIN(x), 1) = (1, 1)",
        "SELECT COUNT(DISTINCT CASE WHEN x > 1 THEN x END) FROM t",
        "SELECT EXTRACT(HOUR FROM MAX(ts)) FROM t",
        "SELECT PERCENTILE(x, MAX(x)) FROM t",
    ]);
    let record = |col: &Collector, text: &str, layer: &str, rank: u64, mutated: bool| {
        let (fs, obs) = judge(text, layer, rank);
        col.eval(1);
        match &obs {
            Some(ParseObs::Err { line, column, msg, .. }) => {
                let at_end = *line == text.matches('\n').count() && *column >= text.split('\n').last().map(|l| l.chars().count()).unwrap_or(0);
                if !at_end {
                    col.nontrivial(h64(&(layer, text)));
                }
                col.outcome(h64(&msg_class(msg)));
            }
            Some(ParseObs::Ok) => {
                if mutated {
                    col.nontrivial(h64(&(layer, text)));
                }
                col.outcome(1);
            }
            None => col.outcome(2),
        }
        for f in fs {
            col.fail(f);
        }
    };
    // (a) prefixes
    let mut n_a = 0u64;
    for s in &corpus {
        let chars: Vec<char> = s.chars().collect();
        for i in 0..=chars.len() {
            let t: String = chars[..i].iter().collect();
            record(&col, &t, "prefix", i as u64, i < chars.len());
            n_a += 1;
        }
    }
    col.layer("a-prefixes", n_a, true, json!({"corpus": corpus.len()}));
    col.sample(json!({"layer": "prefix", "text": "SELECT k , COUNT ( * ) FROM t GRO"}));
    // (b) token mutants
    let mut n_b = 0u64;
    for s in &corpus {
        let toks = corpus_tokens(s);
        for i in 0..toks.len() {
            let mut del = toks.clone();
            del.remove(i);
            record(&col, &del.join(" "), "token-delete", i as u64, true);
            let mut dup = toks.clone();
            dup.insert(i, toks[i].clone());
            record(&col, &dup.join(" "), "token-duplicate", i as u64, true);
            n_b += 2;
            if i + 1 < toks.len() {
                let mut sw = toks.clone();
                sw.swap(i, i + 1);
                record(&col, &sw.join(" "), "token-swap", i as u64, true);
                n_b += 1;
            }
            for r in ["NULL", ")", "::", "-", "1"] {
                let mut rp = toks.clone();
                rp[i] = r.to_string();
                record(&col, &rp.join(" "), "token-replace", i as u64, true);
                n_b += 1;
            }
        }
    }
    // the same mutants written over several lines: CRLF, CR alone and LF between all tokens (an error location must stay
    // inside the text whatever the line ends are)
    for s in &corpus {
        let toks = corpus_tokens(s);
        for i in 0..toks.len() {
            let mut del = toks.clone();
            del.remove(i);
            let mut rp = toks.clone();
            rp[i] = ")".to_string();
            for (name, sep) in [("crlf", "\r\n"), ("cr", "\r"), ("lf", "\n"), ("crlf-blank", " \r\n ")] {
                record(&col, &del.join(sep), &format!("token-delete-{}", name), i as u64, true);
                record(&col, &rp.join(sep), &format!("token-replace-{}", name), i as u64, true);
                n_b += 2;
            }
        }
    }
    col.layer("b-token-mutants", n_b, true, json!({"line_ends": ["blank", "CRLF", "CR", "LF", "blank CRLF blank"]}));
    col.sample(json!({"layer": "token-swap", "text": "SELECT k COUNT , ( * ) FROM t GROUP BY k"}));
    // (c) token soups
    let maxlen = ctx.tier.pick(3, 4) as u32;
    let vocab: Vec<&str> = VOCAB.iter().chain(if ctx.tier == Tier::Thorough { VOCAB2.iter() } else { VOCAB2[..4].iter() }).cloned().collect();
    let k = vocab.len() as u64;
    let total = seq_count(k, maxlen);
    let contexts = ["", "SELECT ", "SELECT x FROM t WHERE ", "CREATE TABLE t ( ", "SELECT x FROM t "];
    let (done, complete) = par_for_budget(ctx, total, 256, |idx| {
        let seq = seq_decode(idx, k, maxlen);
        let body = seq.iter().map(|i| vocab[*i as usize]).collect::<Vec<_>>().join(" ");
        for c in contexts {
            let text = format!("{}{}", c, body);
            record(&col, &text, "token-soup", seq.len() as u64, true);
        }
    });
    col.layer("c-token-soups", done * contexts.len() as u64, complete, json!({"vocabulary": vocab, "max_len": maxlen, "contexts": contexts}));
    col.sample(json!({"layer": "token-soup", "text": "SELECT x FROM t WHERE ( NOT ="}));
    // (d) unicode edge strings
    let uk = UNI.len() as u64;
    let ucontexts: [(&str, &str); 7] = [("CREATE TABLE t('(a)' => x ", "[]);"), ("CREATE TABLE t('(a)' => x ", ");"), ("", ""), ("SELECT ", " FROM t"), ("SELECT '", "' FROM t"), ("SELECT x FROM t WHERE x = ", ""), ("CREATE TABLE t(line = '", "', line[1] => x INT);")];
    let utotal = seq_count(uk, 3);
    // every text is first parsed in a child process (16 batches): a text that ends the process is a violation and is kept
    // out of the in-process pass
    let utexts: Vec<String> = (0..utotal)
        .flat_map(|idx| {
            let seq = seq_decode(idx, uk, 3);
            let body: String = seq.iter().map(|i| UNI[*i as usize]).collect();
            ucontexts.iter().map(|(a, b)| format!("{}{}{}", a, body, b)).collect::<Vec<_>>()
        })
        .collect();
    let chunk = (utexts.len() + 15) / 16;
    let dead: Mutex<std::collections::HashSet<usize>> = Mutex::new(std::collections::HashSet::new());
    par_for(16, |c| {
        let lo = (c as usize * chunk).min(utexts.len());
        let hi = (lo + chunk).min(utexts.len());
        let refs: Vec<&str> = utexts[lo..hi].iter().map(|s| s.as_str()).collect();
        for k in process_killers(&refs) {
            dead.lock().unwrap().insert(lo + k);
            let t = &utexts[lo + k];
            col.fail(fail(
                "parse-child:process-ended:unicode".into(),
                format!("parsing {:?} ends the whole process (stack overflow / abort) instead of returning a statement or an error", t),
                json!({"layer": "unicode-child", "text": t}),
                json!("statement or error"),
                json!("process ended"),
                t.len() as u64,
            ));
        }
    });
    let dead = dead.into_inner().unwrap();
    par_for(utexts.len() as u64, |i| {
        if !dead.contains(&(i as usize)) {
            record(&col, &utexts[i as usize], "unicode", 3, true);
        }
    });
    col.layer("d-unicode", utotal * ucontexts.len() as u64, true, json!({"alphabet": UNI.iter().map(|s| s.escape_unicode().to_string()).collect::<Vec<_>>()}));
    // (e) named cases
    for (i, t) in named_cases().iter().enumerate() {
        record(&col, t, "named", i as u64, true);
    }
    col.layer("e-named", named_cases().len() as u64, true, json!({}));
    for (i, t) in must_reject().iter().enumerate() {
        col.eval(1);
        col.nontrivial(h64(&("reject", t)));
        match observe(t) {
            Ok(ParseObs::Ok) => col.fail(fail(
                format!("accepted-invalid:{}", if t.contains("CREATE") { if t.contains("{ }") { "empty-json-path" } else if t.contains("999999") { "number-out-of-range" } else if t.contains("NOSUCHTYPE") { "unknown-type" } else { "invalid-regex" } } else if t.contains("9999") { "number-out-of-range" } else { "aggregate-arity" }),
                format!("{:?} is accepted although the definition / query is invalid (it must be rejected with an error)", t),
                json!({"layer": "must-reject", "text": t}),
                json!("error"),
                json!("accepted"),
                i as u64,
            )),
            Ok(_) => {}
            Err(p) => col.fail(fail(panic_signature(&p), format!("parsing {:?} panicked: {}", t, p.msg), json!({"layer": "must-reject", "text": t}), json!("error"), json!(p.msg), i as u64)),
        }
    }
    col.layer("e2-must-reject", must_reject().len() as u64, true, json!({}));
    // integer literals around the ends of the INT range in every position that takes a number
    {
        let nums: [(&str, bool); 10] = [("9223372036854775806", true), ("9223372036854775807", true), ("9223372036854775808", false), ("9223372036854775809", false), ("10000000000000000000", false), ("18446744073709551615", false), ("18446744073709551616", false), ("18446744073709551617", false), ("100000000000000000000", false), ("99999999999999999999999999", false)];
        let forms = ["SELECT {} FROM t", "SELECT x FROM t WHERE x = {}", "SELECT x FROM t WHERE x IN (1, {})", "SELECT x + {} FROM t", "SELECT x FROM t LIMIT {}", "CREATE TABLE x({ .a } => a INT DEFAULT {});", "CREATE TABLE x(line = '(a)', line[{}] => a INT);", "CREATE TABLE x({ .a[{}] } => a INT);", "SELECT a[{}] FROM t"];
        let mut nb = 0u64;
        for (n, in_range) in nums {
            for f in forms {
                let t = f.replace("{}", n);
                nb += 1;
                col.eval(1);
                col.nontrivial(h64(&("number-boundary", &t)));
                let c = json!({"layer": "number-boundary", "text": t, "in_range": in_range});
                match observe(&t) {
                    Ok(ParseObs::Ok) if !in_range => col.fail(fail(format!("accepted-invalid:number-out-of-range:{}", f.replace("{}", "N")), format!("{:?} is accepted although {} is outside the INT range", t, n), c, json!("error"), json!("accepted"), nb)),
                    Ok(ParseObs::Ok) => {}
                    Ok(_) if in_range => col.fail(fail(format!("rejected-valid:number-in-range:{}", f.replace("{}", "N")), format!("{:?} is rejected although {} is an INT", t, n), c, json!("accepted"), json!("error"), nb)),
                    Ok(_) => {}
                    Err(p) => col.fail(fail(panic_signature(&p), format!("parsing {:?} panicked: {}", t, p.msg), c, json!("error"), json!(p.msg), nb)),
                }
            }
        }
        col.layer("e3-number-boundary", nb, true, json!({"numbers": nums.iter().map(|x| x.0).collect::<Vec<_>>(), "forms": forms}));
    }
    {
        let atoms = ["9223372036854775807", "-9223372036854775807", "(-9223372036854775807 - 1)", "-1", "0", "1", "2", "1.5", "-0.0"];
        let ops = ["+", "-", "*", "/", "%"];
        let mut nl = 0u64;
        let mut texts: Vec<String> = Vec::new();
        for a in atoms {
            texts.push(format!("SELECT -{} FROM t", a));
            texts.push(format!("SELECT -(-{}) FROM t", a));
            for bq in atoms {
                for o in ops {
                    texts.push(format!("SELECT {} {} {} FROM t", a, o, bq));
                    texts.push(format!("SELECT x FROM t WHERE x = {} {} {}", a, o, bq));
                    for c in ["-1", "0", "2"] {
                        texts.push(format!("SELECT ({} {} {}) / {} FROM t", a, o, bq, c));
                        texts.push(format!("SELECT {} * ({} {} {}) FROM t LIMIT 1", c, a, o, bq));
                    }
                }
            }
        }
        for t in &texts {
            nl += 1;
            col.eval(1);
            col.nontrivial(h64(&("literal-arithmetic", t)));
            if let Err(p) = observe(t) {
                col.fail(fail(panic_signature(&p), format!("parsing {:?} panicked: {}", t, p.msg), json!({"layer": "literal-arithmetic", "text": t}), json!("statement or error"), json!(p.msg), nl));
            }
        }
        col.layer("e4-arithmetic on literals at the ends of the INT range", nl, true, json!({"atoms": atoms, "operators": ops}));
    }
    col.sample(json!({"layer": "named", "text": "CREATE TABLE x({ } => a INT);"}));
    // (f) nesting up to the documented bound, in child processes with a 2 MiB stack
    let mut n_f = 0;
    let nest_cases: Vec<(usize, usize)> = (0..12).flat_map(|kind| [1usize, 2, 8, 32, 64].into_iter().map(move |d| (kind, d))).collect();
    par_for(nest_cases.len() as u64, |i| {
        let (kind, depth) = nest_cases[i as usize];
        for f in child_case("nested", kind, depth) {
            col.fail(f);
        }
        col.eval(1);
        col.nontrivial(h64(&("nested", kind, depth)));
    });
    n_f += nest_cases.len();
    col.layer("f-nesting", n_f as u64, true, json!({"documented_depth_bound": 64, "stack": "2 MiB", "kinds": 12, "time_limit_s": 20}));
    // (g) long flat texts
    let sizes: Vec<usize> = ctx.tier.pick(vec![100, 1000, 10_000, 100_000], vec![100, 1000, 10_000, 100_000, 300_000]);
    let mut n_g = 0;
    for kind in 0..9 {
        for n in &sizes {
            if kind <= 1 && *n > 100_000 {
                continue; // operator chains overflow from 10^4 terms on (known findings K-C14-1..4); larger sizes add nothing
            }
            for f in child_case("flat", kind, *n) {
                col.fail(f);
            }
            col.eval(1);
            col.nontrivial(h64(&("flat", kind, n)));
            n_g += 1;
        }
    }
    col.layer("g-long-flat-texts", n_g, true, json!({"sizes": sizes, "kinds": 9, "stack": "8 MiB thread in a child process"}));
    finish(
        ctx,
        &col,
        Finish {
            level: "exploration",
            rule: "every prefix and every single-token mutant of a 45-statement corpus, all token sequences up to the bound over the vocabulary in 5 contexts, all strings up to 3 characters over a Unicode edge alphabet in 7 contexts (incl. the type position of a column, plain and array), named rejection cases, nesting to depth 64 (2 MiB stack) and long flat texts (child processes); oracle: statement or error whose location lies inside the text and whose excerpt can be produced. Non-trivial: an error located before the end of the text, or Ok for a mutated text.".into(),
            exhaustive: true,
            assumptions: vec!["documented bracket-nesting bound taken as 64 (sqlgrep documents none)".into(), "harness profile has overflow checks and debug assertions on".into()],
            bounds: json!({"soup_len": maxlen, "unicode_len": 3, "nesting": 64, "flat_sizes": sizes}),
        },
    )
}

pub fn replay(case: &J) -> Vec<Failure> {
    if case["layer"].as_str() == Some("must-reject") {
        let t = case["text"].as_str().unwrap_or("");
        return match observe(t) {
            Ok(ParseObs::Ok) => vec![fail("accepted-invalid:replay".into(), format!("{:?} is accepted", t), case.clone(), json!("error"), json!("accepted"), 0)],
            Ok(_) => vec![],
            Err(p) => vec![fail(panic_signature(&p), p.msg.clone(), case.clone(), json!("error"), json!(p.msg), 0)],
        };
    }
    if case["layer"].as_str() == Some("unicode-child") {
        let t = case["text"].as_str().unwrap_or("");
        return if process_killers(&[t]).is_empty() { vec![] } else { vec![fail("parse-child:process-ended:unicode".into(), format!("parsing {:?} ends the process", t), case.clone(), json!("statement or error"), json!("process ended"), 0)] };
    }
    if case["layer"].as_str() == Some("number-boundary") {
        let t = case["text"].as_str().unwrap_or("");
        let in_range = case["in_range"].as_bool().unwrap_or(false);
        return match observe(t) {
            Ok(ParseObs::Ok) if !in_range => vec![fail("accepted-invalid:number-out-of-range".into(), format!("{:?} is accepted", t), case.clone(), json!("error"), json!("accepted"), 0)],
            Ok(ParseObs::Ok) => vec![],
            Ok(_) if in_range => vec![fail("rejected-valid:number-in-range".into(), format!("{:?} is rejected", t), case.clone(), json!("accepted"), json!("error"), 0)],
            Ok(_) => vec![],
            Err(p) => vec![fail(panic_signature(&p), p.msg.clone(), case.clone(), json!("error"), json!(p.msg), 0)],
        };
    }
    if case["layer"].as_str() == Some("child") {
        return child_case(case["mode"].as_str().unwrap(), case["kind"].as_u64().unwrap() as usize, case["n"].as_u64().unwrap() as usize);
    }
    judge(case["text"].as_str().unwrap(), case["layer"].as_str().unwrap_or("replay"), 0).0
}
