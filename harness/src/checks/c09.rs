//! C09 — execution is total: any data gives results or an error message, never a crash.
//!
//! Layers: (E) every expression node kind (C03's D1 set) over an *extreme* value domain (i64 MIN/MAX, REAL ±0/±inf/NaN/
//! 1e308/5e-324, empty and long text, arrays with NULLs, huge intervals) as projection and as WHERE; (A) every aggregate
//! item of C04 with GROUP BY / HAVING over all sequences of extreme rows; (F) every extreme row through the three
//! output formats; (B) all byte strings up to a bound over {00, a, LF, CR, FF, C3, A9, '{', '"'} as input files for a
//! regex table and a JSON table; (Z) in child processes with TZ in {UTC, Europe/Stockholm, America/Sao_Paulo,
//! Australia/Lord_Howe}: local times at 15-minute steps across each zone's DST gap and overlap through every timestamp
//! construction path; (X) the real CLI binary on one case per group; (W, T) numbers outside the INT range / outside every
//! date part's range through every extraction and cast path (never a wrapped value); (G) every aggregate name x every
//! argument form (empty, *, DISTINCT without a column, surplus arguments) in projection, next to a key and in HAVING;
//! (I) inputs on which every read fails, at each position among regular files (child processes with a time limit).
//! Oracle: Ok or Err, never a panic (overflow checks are on, so a silent wrap is a panic), never a signal, never a hang.

use serde_json::{json, Value as J};

use sqlgrep::data_model::Tables;
use sqlgrep::execution::execution_engine::{ExecutionConfig, ExecutionEngine};
use sqlgrep::executor::OutputFormat;

use crate::checks::c03;
use crate::checks::c04;
use crate::checks::fail;
use crate::core::*;
use crate::refmodel::expr::E;
use crate::sut::{self, FileRunOpts, Outcome};

const DEF: &str = "CREATE TABLE t('m=(m)' => m TEXT, 'i=(\\\\S+)' => i INT, 'j=(\\\\S+)' => j INT, 'r=(\\\\S+)' => r REAL, 's=(\\\\S+)' => s REAL, 't=<([^>]*)>' => t TEXT, 'u=<([^>]*)>' => u TEXT, 'b=(\\\\S+)' => b BOOLEAN, ar = 'a=(\\\\S+),(\\\\S+)', ar[1], ar[2] => a INT[], 'ts=<([^>]*)>' => ts TIMESTAMP, 'iv=(\\\\S+)' => iv INTERVAL);";

fn dom(c: &str) -> Vec<String> {
    let v: Vec<&str> = match c {
        "i" | "j" => vec!["", "i=0", "i=1", "i=-1", "i=9223372036854775807", "i=-9223372036854775808", "i=2"],
        "r" | "s" => vec!["", "r=0.0", "r=-0.0", "r=inf", "r=-inf", "r=NaN", "r=1e308", "r=5e-324", "r=-1.5"],
        "t" | "u" => vec!["", "t=<>", "t=<a>", "t=<(>", "t=<[z-a]>", "t=<9223372036854775808>", "t=<2021-03-28 02:30:00>", "t=<9999999999999999:0:0>", "t=<éé😀>"],
        "b" => vec!["", "b=x"],
        "a" => vec!["", "a=1,2", "a=x,9223372036854775807", "a=-9223372036854775808,x"],
        "ts" => vec!["", "ts=<2021-03-04 05:06:07>", "ts=<0001-01-01 00:00:00>", "ts=<9999-12-31 23:59:59>"],
        "iv" => vec!["", "iv=1:30:00", "iv=2562047788015:0:0", "iv=-2562047788015:0:0", "iv=0:0:9223372036854775807", "iv=9999999999999999:0:0"],
        _ => vec![""],
    };
    let name = c;
    v.into_iter().map(|s| if s.is_empty() { String::new() } else { format!("{}{}", name, &s[s.find(|ch: char| ch == '=').unwrap()..]) }).collect()
}

fn rows_for(cols: &[String]) -> Vec<String> {
    let doms: Vec<Vec<String>> = cols.iter().map(|c| dom(c)).collect();
    let mut out = Vec::new();
    let mut idx = vec![0usize; cols.len()];
    loop {
        let mut parts = vec!["m=m".to_string()];
        for (k, _) in cols.iter().enumerate() {
            if !doms[k][idx[k]].is_empty() {
                parts.push(doms[k][idx[k]].clone());
            }
        }
        out.push(parts.join(" "));
        let mut k = 0;
        loop {
            if k == cols.len() {
                return out;
            }
            idx[k] += 1;
            if idx[k] < doms[k].len() {
                break;
            }
            idx[k] = 0;
            k += 1;
        }
    }
}

/// run one statement line by line; every panic is a failure
fn no_panic(tables: &Tables, text: &str, lines: &[String], layer: &str) -> (Vec<Failure>, u64, u64) {
    let st = match catch(|| sut::parse(text)) {
        Ok(Ok(s)) => s,
        Ok(Err(_)) => return (vec![], 0, 0),
        Err(p) => return (vec![fail(panic_signature(&p), format!("parsing `{}` panicked: {}", text, p.msg), json!({"layer": layer, "statement": text}), json!("no panic"), json!(p.msg), 0)], 0, 0),
    };
    let mut out = Vec::new();
    let mut engine = ExecutionEngine::new(tables, &st);
    let cfg = engine.execution_config();
    let mut errs = 0;
    let mut n = 0;
    let is_agg = engine.is_aggregate();
    if is_agg && lines.iter().all(|l| l == "zzz") {
        // the result over an input without rows
        for l in lines {
            let _ = catch(|| engine.execute(l.clone(), &cfg));
        }
        n += 1;
        if let Err(p) = catch(|| engine.execute(String::new(), &ExecutionConfig::aggregate_result())) {
            out.push(fail(panic_signature(&p), format!("`{}` result over an input without rows panicked: {}", text, p.msg), json!({"layer": layer, "statement": text, "line": "zzz"}), json!("result or error"), json!({"panic": p.msg, "at": format!("{}:{}", p.file, p.line)}), 0));
        }
        return (out, n, errs);
    }
    for l in lines {
        n += 1;
        let r = catch(|| engine.execute(l.clone(), &cfg));
        match r {
            Err(p) => {
                out.push(fail(panic_signature(&p), format!("`{}` on line {:?} panicked: {}", text, l, p.msg), json!({"layer": layer, "statement": text, "line": l}), json!("result or error"), json!({"panic": p.msg, "at": format!("{}:{}", p.file, p.line)}), l.len() as u64));
                engine = ExecutionEngine::new(tables, &st);
            }
            Ok(Err(_)) => errs += 1,
            Ok(Ok(_)) => {}
        }
        if is_agg {
            let r = catch(|| engine.execute(String::new(), &ExecutionConfig::aggregate_result()));
            match r {
                Err(p) => {
                    out.push(fail(panic_signature(&p), format!("`{}` result after line {:?} panicked: {}", text, l, p.msg), json!({"layer": layer, "statement": text, "line": l}), json!("result or error"), json!({"panic": p.msg, "at": format!("{}:{}", p.file, p.line)}), l.len() as u64));
                    engine = ExecutionEngine::new(tables, &st);
                }
                Ok(Err(_)) => errs += 1,
                Ok(Ok(_)) => {}
            }
        }
    }
    (out, n, errs)
}

fn expr_layer(ctx: &Ctx, col: &Collector, tables: &Tables) {
    let ls = c03::leaves();
    let sub = c03::small_leaves();
    let exprs: Vec<E> = c03::d1(&ls, &sub);
    let total = exprs.len() as u64;
    let (done, complete) = par_for_budget(ctx, total, 32, |idx| {
        let e = &exprs[idx as usize];
        let mut cols = Vec::new();
        e.columns(&mut cols);
        cols.retain(|c| ["i", "j", "r", "s", "t", "u", "b", "a", "ts", "iv"].contains(&c.as_str()));
        if cols.len() > 2 {
            return;
        }
        let rows = rows_for(&cols);
        for text in [format!("SELECT ({}) AS x FROM t", e.full()), format!("SELECT m FROM t WHERE ({})", e.full())] {
            let (fs, n, errs) = no_panic(tables, &text, &rows, "E");
            col.eval(n);
            if errs > 0 {
                col.nontrivial(h64(&text));
            }
            col.outcome(h64(&(errs.min(3), fs.len())));
            for f in fs {
                col.fail(f);
            }
        }
        if idx % 3001 == 11 {
            col.sample(json!({"layer": "E", "statement": format!("SELECT ({}) AS x FROM t", e.full()), "rows": rows.iter().take(3).collect::<Vec<_>>()}));
        }
    });
    col.layer("E-expressions over extreme rows", done, complete, json!({"expressions": total}));
}

fn agg_layer(ctx: &Ctx, col: &Collector, tables: &Tables) {
    // aggregates over extreme rows: table with k (group key), v INT, r REAL, s TEXT, b BOOLEAN, iv INTERVAL
    let lines: Vec<String> = vec![
        "m=m t=<a> i=9223372036854775807 r=1e308 iv=2562047788015:0:0".into(),
        "m=m t=<a> i=9223372036854775807 r=1e308 iv=2562047788015:0:0 b=x".into(),
        "m=m t=<a> i=-9223372036854775808 r=-inf iv=-2562047788015:0:0".into(),
        "m=m t=<b> i=-9223372036854775808 r=NaN".into(),
        "m=m t=<b> i=-9223372036854775808 r=inf u=<x>".into(),
        "m=m r=5e-324 i=1 a=1,x".into(),
        "m=m t=<b>".into(),
    ];
    let items = ["COUNT(*)", "COUNT(i)", "COUNT(DISTINCT r)", "SUM(i)", "SUM(r)", "SUM(iv)", "AVG(i)", "AVG(r)", "AVG(iv)", "MIN(i)", "MAX(r)", "MIN(iv)", "MAX(t)", "STDDEV(i)", "VARIANCE(r)", "STDDEV(iv)", "PERCENTILE(r, 0.5)", "PERCENTILE(i, 1.0)", "BOOL_AND(b)", "BOOL_OR(i)", "STRING_AGG(t, ',')", "STRING_AGG(i, ',')", "ARRAY_AGG(r)", "ARRAY_AGG(a)", "SUM(i) * 2", "SUM(i) + 1", "MAX(i) + 1", "MIN(i) - 1", "SUM(t)", "AVG(b)", "MIN(a)", "SUM(i) / 0", "COUNT(*) / 0"];
    let clauses = ["", "GROUP BY t", "GROUP BY t HAVING SUM(i) > 0", "GROUP BY r", "GROUP BY t HAVING MAX(r) > 1.0 AND COUNT(u) = 0", "HAVING COUNT(*) > 100", "GROUP BY a", "GROUP BY i + 1", "GROUP BY t HAVING SUM(i) / 0 > 1"];
    let maxlen = ctx.tier.pick(3, 5) as u32;
    let k = lines.len() as u64;
    let nseq = seq_count(k, maxlen);
    let mut stmts: Vec<String> = Vec::new();
    for it in items {
        for cl in clauses {
            stmts.push(format!("SELECT {} FROM t {}", it, cl));
            if cl.starts_with("GROUP BY t") {
                stmts.push(format!("SELECT t, {}, COUNT(*) FROM t {}", it, cl));
            }
        }
    }
    let total = stmts.len() as u64;
    let (done, complete) = par_for_budget(ctx, total, 2, |si| {
        let text = &stmts[si as usize];
        for idx in 0..nseq {
            let seq = seq_decode(idx, k, maxlen);
            let ls: Vec<String> = seq.iter().map(|i| lines[*i as usize].clone()).collect();
            let (fs, n, errs) = no_panic(tables, text, &ls, "A");
            col.eval(n * 2);
            if errs > 0 {
                col.nontrivial(h64(&(text, idx)));
            }
            for f in fs {
                col.fail(f);
            }
        }
        if si % 41 == 3 {
            col.sample(json!({"layer": "A", "statement": text, "lines": "all sequences up to the bound over 7 extreme lines"}));
        }
    });
    col.layer("A-aggregates over extreme rows", done * nseq, complete, json!({"statements": total, "sequences": nseq}));
}

fn format_layer(col: &Collector, tables: &Tables) {
    let mut n = 0;
    for c in ["i", "r", "t", "a", "ts", "iv", "b"] {
        for row in rows_for(&[c.to_string()]) {
            for (fname, f) in [("text", OutputFormat::Text), ("json", OutputFormat::Json), ("csv", OutputFormat::CSV(";".into()))] {
                for text in [format!("SELECT {} FROM t", c), "SELECT * FROM t".to_string(), format!("SELECT {}, COUNT(*) FROM t GROUP BY {}", c, c), format!("SELECT ARRAY_AGG({}), MAX({}) FROM t", c, c)] {
                    let st = sut::parse(&text).unwrap();
                    let bytes = format!("{}\n", row);
                    let r = sut::run_files(tables, &st, &[bytes.as_bytes()], FileRunOpts { format: f.clone(), ..Default::default() });
                    n += 1;
                    col.eval(1);
                    if let Outcome::Panic(p) = &r {
                        col.fail(fail(panic_signature(p), format!("printing `{}` over {:?} in {} format panicked: {}", text, row, fname, p.msg), json!({"layer": "F", "statement": text, "line": row, "format": fname}), json!("output or error"), json!({"panic": p.msg, "at": format!("{}:{}", p.file, p.line)}), row.len() as u64));
                    }
                    if matches!(&r, Outcome::Ok(fr) if !fr.printed.is_empty()) {
                        col.nontrivial(h64(&("F", &text, &row, fname)));
                    }
                }
            }
        }
    }
    col.layer("F-output formats over extreme values", n, true, json!({}));
    col.sample(json!({"layer": "F", "statement": "SELECT r FROM t", "line": "m=m r=NaN", "format": "json"}));
}

fn bytes_layer(ctx: &Ctx, col: &Collector) {
    let units: [&[u8]; 9] = [&[0x00], b"a", b"\n", b"\r", &[0xFF], &[0xC3], &[0xA9], b"{", b"\""];
    let rt = sut::make_tables("CREATE TABLE t(line = '(.)(.)?', line[1] => x TEXT, line[2] => y TEXT);").unwrap();
    let jt = sut::make_tables("CREATE TABLE t({ .a } => a TEXT, '(.)' => x TEXT);").unwrap();
    let maxlen = ctx.tier.pick(3, 6) as u32;
    let k = units.len() as u64;
    let total = seq_count(k, maxlen);
    let (done, complete) = par_for_budget(ctx, total, 16, |idx| {
        let seq = seq_decode(idx, k, maxlen);
        let content: Vec<u8> = seq.iter().flat_map(|u| units[*u as usize].to_vec()).collect();
        for (tn, tables) in [("regex", &rt), ("json", &jt)] {
            for text in ["SELECT * FROM t", "SELECT COUNT(*), MAX(x) FROM t", "SELECT input FROM t WHERE x = 'a'"] {
                let st = sut::parse(text).unwrap();
                for f in [OutputFormat::Text, OutputFormat::Json] {
                    let r = sut::run_files(tables, &st, &[content.as_slice()], FileRunOpts { format: f, ..Default::default() });
                    col.eval(1);
                    match &r {
                        Outcome::Panic(p) => col.fail(fail(panic_signature(p), format!("`{}` ({} table) over bytes {} panicked: {}", text, tn, crate::gen::hex(&content), p.msg), json!({"layer": "B", "statement": text, "table": tn, "content_hex": crate::gen::hex(&content)}), json!("output or error"), json!(p.msg), content.len() as u64)),
                        Outcome::Ok(fr) => {
                            if fr.result.is_err() {
                                col.nontrivial(h64(&(tn, text, &content)));
                            }
                            col.outcome(h64(&(fr.result.is_ok(), fr.printed.len())));
                        }
                        _ => {}
                    }
                }
            }
        }
    });
    col.layer("B-byte strings as input", done, complete, json!({"units": ["00", "a", "LF", "CR", "FF", "C3", "A9", "{", "\""], "max_len": maxlen}));
    col.sample(json!({"layer": "B", "content_hex": "c3ff0a", "statement": "SELECT * FROM t"}));
}

// ---------------------------------------------------------------------------------------------
// time zones (child processes)

fn tz_times(zone: &str) -> Vec<String> {
    // local dates around the zone's DST transitions (both directions), 15-minute steps over three days each
    let days: Vec<(i32, u32, u32)> = match zone {
        "Europe/Stockholm" => vec![(2021, 3, 27), (2021, 10, 30)],
        "America/Sao_Paulo" => vec![(2018, 11, 3), (2019, 2, 15), (2018, 2, 17)],
        "Australia/Lord_Howe" => vec![(2021, 10, 2), (2021, 4, 3)],
        _ => vec![(2021, 3, 27)],
    };
    let mut out = Vec::new();
    for (y, m, d) in days {
        for dd in 0..3u32 {
            for q in 0..96u32 {
                out.push(format!("{:04}-{:02}-{:02} {:02}:{:02}:00", y, m, d + dd, q / 4, (q % 4) * 15));
            }
        }
    }
    out
}

pub fn child(args: &[String]) -> i32 {
    // vcheck --child tz <zone>   (TZ is set by the parent in the environment)
    let zone = &args[1];
    let def = "CREATE TABLE t('ts=<([^>]*)>' => ts TIMESTAMP, d = 'ts=<(\\\\d+)-(\\\\d+)-(\\\\d+) (\\\\d+):(\\\\d+):(\\\\d+)>', d[1], d[2], d[3], d[4], d[5], d[6] => ts2 TIMESTAMP, 'ts=<([^>]*)>' => txt TEXT);\nCREATE TABLE j({ .ts } => ts TIMESTAMP CONVERT);";
    let tables = sut::make_tables(def).expect("tz defs");
    let stmts = [
        "SELECT ts, ts2 FROM t",
        "SELECT txt::timestamp FROM t",
        "SELECT date_trunc('year', ts), date_trunc('month', ts), date_trunc('day', ts), date_trunc('hour', ts), date_trunc('minute', ts2) FROM t",
        "SELECT EXTRACT(hour FROM ts), EXTRACT(epoch FROM ts2), EXTRACT(day FROM ts) FROM t",
        "SELECT ts + '1:00:00'::interval, ts - '0:30:00'::interval, ts2 - ts FROM t",
        "SELECT make_timestamp(EXTRACT(year FROM ts2), EXTRACT(month FROM ts2), EXTRACT(day FROM ts2), EXTRACT(hour FROM ts2), EXTRACT(minute FROM ts2), 0, 0) FROM t",
        "SELECT txt FROM t WHERE ts > '2021-03-28 02:30:00' OR ts2 < '2018-11-04 00:30:00'",
        "SELECT MIN(ts), MAX(ts2), COUNT(DISTINCT ts) FROM t GROUP BY date_trunc('day', ts)",
        "SELECT ts FROM t WHERE ts = txt",
    ];
    let mut panics = 0;
    let mut evals = 0;
    let mut nulls = 0;
    for time in tz_times(zone) {
        let line = format!("ts=<{}>", time);
        for s in stmts {
            let st = sut::parse(s).expect(s);
            for f in [OutputFormat::Text, OutputFormat::Json] {
                let bytes = format!("{}\n", line);
                let r = sut::run_files(&tables, &st, &[bytes.as_bytes()], FileRunOpts { format: f, ..Default::default() });
                evals += 1;
                match r {
                    Outcome::Panic(p) => {
                        panics += 1;
                        println!("{}", json!({"panic": p.msg, "file": p.file, "line_no": p.line, "sig": panic_signature(&p), "statement": s, "line": line, "zone": zone}));
                    }
                    Outcome::Ok(fr) => {
                        if fr.printed.iter().any(|l| l.contains("NULL") || l.contains("null")) || fr.result.is_err() {
                            nulls += 1;
                        }
                    }
                    _ => {}
                }
            }
        }
        // JSON CONVERT path
        let st = sut::parse("SELECT ts FROM j").unwrap();
        let bytes = format!("{{\"ts\":\"{}\"}}\n", time);
        if let Outcome::Panic(p) = sut::run_files(&tables, &st, &[bytes.as_bytes()], FileRunOpts::default()) {
            panics += 1;
            println!("{}", json!({"panic": p.msg, "file": p.file, "line_no": p.line, "sig": panic_signature(&p), "statement": "SELECT ts FROM j", "line": bytes.trim(), "zone": zone}));
        }
        evals += 1;
    }
    println!("{}", json!({"summary": true, "zone": zone, "evaluations": evals, "panics": panics, "null_or_error_results": nulls}));
    0
}

fn tz_layer(col: &Collector) {
    let exe = std::env::current_exe().unwrap();
    let zones = ["UTC", "Europe/Stockholm", "America/Sao_Paulo", "Australia/Lord_Howe"];
    let handles: Vec<_> = zones
        .iter()
        .map(|z| {
            let (exe, z) = (exe.clone(), z.to_string());
            std::thread::spawn(move || (z.clone(), std::process::Command::new(exe).args(["--child", "tz", &z]).env("TZ", &z).output().expect("spawn tz child")))
        })
        .collect();
    let mut total = 0u64;
    for h in handles {
        let (zone, out) = h.join().unwrap();
        if !out.status.success() {
            col.fail(fail(format!("tz-child-died:{}", zone), format!("child process with TZ={} ended with {:?}: {}", zone, out.status, String::from_utf8_lossy(&out.stderr).lines().last().unwrap_or("")), json!({"layer": "Z", "zone": zone}), json!("exit 0"), json!(format!("{:?}", out.status)), 0));
            continue;
        }
        for l in String::from_utf8_lossy(&out.stdout).lines() {
            if let Ok(j) = serde_json::from_str::<J>(l) {
                if j.get("summary").is_some() {
                    let n = j["evaluations"].as_u64().unwrap_or(0);
                    total += n;
                    col.eval(n);
                    if j["null_or_error_results"].as_u64().unwrap_or(0) > 0 || zone == "UTC" {
                        col.nontrivial(h64(&("Z", &zone)));
                    }
                    col.note(format!("TZ={}: {} evaluations, {} panics, {} NULL/error results (local times inside a DST gap)", zone, n, j["panics"], j["null_or_error_results"]));
                } else if j.get("panic").is_some() {
                    col.fail(fail(
                        format!("{}:TZ-dependent", j["sig"].as_str().unwrap_or("panic")),
                        format!("TZ={}: `{}` on {} panicked: {}", zone, j["statement"].as_str().unwrap_or(""), j["line"].as_str().unwrap_or(""), j["panic"].as_str().unwrap_or("")),
                        json!({"layer": "Z", "zone": zone, "statement": j["statement"], "line": j["line"]}),
                        json!("result or error"),
                        j.clone(),
                        0,
                    ));
                }
            }
        }
    }
    col.layer("Z-time zones", total, true, json!({"zones": zones, "step": "15 minutes over 3 days around every DST transition"}));
    col.sample(json!({"layer": "Z", "TZ": "Europe/Stockholm", "line": "ts=<2021-03-28 02:30:00>", "statement": "SELECT ts, ts2 FROM t"}));
}

fn cli_layer(col: &Collector) {
    // the real binary: exit status 0 and no "panicked" on stderr for one case per group
    let bin = format!("{}/target/cli/release/sqlgrep", verif_dir());
    if !std::path::Path::new(&bin).exists() {
        col.note("CLI binary not built; CLI layer skipped".into());
        return;
    }
    let dir = sut::tmp_dir();
    let defp = format!("{}/cli_def_{}.txt", dir, std::process::id());
    let datap = format!("{}/cli_data_{}.txt", dir, std::process::id());
    std::fs::write(&defp, "CREATE TABLE t('i=(\\\\S+)' => i INT, 'r=(\\\\S+)' => r REAL, 't=<([^>]*)>' => t TEXT);").unwrap();
    std::fs::write(&datap, b"i=9223372036854775807 r=NaN t=<a>\ni=-9223372036854775808 r=inf t=<>\n\xff\ni=1 r=1e308\n").unwrap();
    let cases: Vec<(&str, &str)> = vec![("text", "SELECT i + 1, r FROM t"), ("json", "SELECT r, t FROM t"), ("csv", "SELECT * FROM t"), ("text", "SELECT i / 0 FROM t"), ("json", "SELECT SUM(i), AVG(r) FROM t"), ("text", "SELECT -i, abs(i) FROM t"), ("text", "SELEC x"), ("json", "SELECT t, COUNT(*) FROM t GROUP BY t")];
    let mut n = 0;
    for (fmt, q) in cases {
        let out = std::process::Command::new(&bin).args(["-d", &defp, &datap, "--format", fmt, "-c", q]).output();
        n += 1;
        col.eval(1);
        match out {
            Ok(o) => {
                let stderr = String::from_utf8_lossy(&o.stderr);
                if !o.status.success() || stderr.contains("panicked") {
                    col.fail(fail(
                        format!("cli:{}:{}", if stderr.contains("panicked") { "panicked" } else { "nonzero-exit" }, q.split(" FROM").next().unwrap_or(q)),
                        format!("sqlgrep --format {} -c \"{}\" ended with {:?}: {}", fmt, q, o.status.code(), stderr.lines().find(|l| l.contains("panicked")).unwrap_or("")),
                        json!({"layer": "X", "format": fmt, "query": q}),
                        json!("exit 0 without panic"),
                        json!({"status": o.status.code(), "stderr": stderr.lines().take(3).collect::<Vec<_>>()}),
                        0,
                    ));
                } else {
                    col.nontrivial(h64(&("X", fmt, q)));
                }
            }
            Err(e) => col.machinery(format!("cannot run the CLI binary: {}", e)),
        }
    }
    std::fs::remove_file(&defp).ok();
    std::fs::remove_file(&datap).ok();
    col.layer("X-cli", n, true, json!({}));
}

/// joins over hostile joined files: non-admitted lines, NOT NULL violations, NULL keys, invalid UTF-8, empty files,
/// duplicate keys; main rows with NULL keys and NOT NULL violations; every statement kind
fn join_layer(ctx: &Ctx, col: &Collector) {
    let defs = "CREATE TABLE t('k=(\\S+)' => k TEXT, 'x=(\\S+)' => x INT NOT NULL, 'm=(m)' => m TEXT);\nCREATE TABLE u('k=(\\S+)' => k TEXT, 'y=(\\S+)' => y INT NOT NULL, 'z=(\\S+)' => z REAL);\nCREATE TABLE w('y=(\\S+)' => y INT DEFAULT 7, 'k=(\\S+)' => k TEXT NOT NULL);";
    let tables = sut::make_tables(defs).expect("join defs");
    let main_lines: [&[u8]; 6] = [b"m=m k=a x=1", b"m=m k=b x=9223372036854775807", b"m=m x=2", b"m=m k=a", b"garbage", b"\xffk=a x=3"];
    let joined_lines: [&[u8]; 7] = [b"k=a y=1 z=NaN", b"k=a y=-9223372036854775808", b"k=b", b"y=5 z=inf", b"nothing", b"\xff", b""];
    let stmts = |p: &str, jt: &str| -> Vec<String> {
        vec![
            format!("SELECT * FROM t INNER JOIN {jt}::'{p}' ON t.k = {jt}.k", jt = jt, p = p),
            format!("SELECT t.k, y + x, m FROM t OUTER JOIN {jt}::'{p}' ON {jt}.k = t.k WHERE y IS NULL OR y < 0", jt = jt, p = p),
            format!("SELECT t.k, COUNT(*), SUM(y), MAX(x) FROM t INNER JOIN {jt}::'{p}' ON t.k = {jt}.k GROUP BY t.k HAVING SUM(y) != 0", jt = jt, p = p),
            format!("SELECT DISTINCT y FROM t OUTER JOIN {jt}::'{p}' ON t.k = {jt}.k LIMIT 2", jt = jt, p = p),
            format!("SELECT x FROM t INNER JOIN {jt}::'{p}' ON t.x = {jt}.y", jt = jt, p = p),
        ]
    };
    let k = joined_lines.len() as u64;
    let maxlen = ctx.tier.pick(2, 3) as u32;
    let total = seq_count(k, maxlen);
    let (done, complete) = par_for_budget(ctx, total, 4, |idx| {
        let seq = seq_decode(idx, k, maxlen);
        let mut jf: Vec<u8> = Vec::new();
        for (i, li) in seq.iter().enumerate() {
            jf.extend_from_slice(joined_lines[*li as usize]);
            if i + 1 < seq.len() || idx % 2 == 0 {
                jf.push(b'\n');
            }
        }
        let tmp = sut::TempFiles::new(&[jf.as_slice()]);
        for jt in ["u", "w"] {
            for text in stmts(&tmp.paths[0], jt) {
                let st = match sut::parse(&text) {
                    Ok(s) => s,
                    Err(_) => continue,
                };
                for msel in 0..4usize {
                    let mut mf: Vec<u8> = Vec::new();
                    for (i, l) in main_lines.iter().enumerate() {
                        if msel == 0 || i % 2 == msel % 2 || (msel == 3 && i < 4) {
                            mf.extend_from_slice(l);
                            mf.push(b'\n');
                        }
                    }
                    let r = sut::run_files(&tables, &st, &[mf.as_slice()], FileRunOpts::default());
                    col.eval(1);
                    match &r {
                        Outcome::Panic(p) => col.fail(fail(panic_signature(p), format!("`{}` main-selection {} joined {:?} panicked: {}", text.replace(&tmp.paths[0], "<joined>"), msel, crate::gen::hex(&jf), p.msg), json!({"layer": "J", "statement": text.replace(&tmp.paths[0], "<joined>"), "joined_hex": crate::gen::hex(&jf), "main_selection": msel}), json!("output or error"), json!({"panic": p.msg, "at": format!("{}:{}", p.file, p.line)}), jf.len() as u64)),
                        Outcome::Ok(fr) => {
                            if fr.result.is_err() {
                                col.nontrivial(h64(&("J", idx, jt, &text, msel)));
                            }
                        }
                        _ => {}
                    }
                }
            }
        }
        if idx % 37 == 5 {
            col.sample(json!({"layer": "J", "joined_file_hex": crate::gen::hex(&jf), "statements": "5 join statements x 2 joined tables x 4 main files"}));
        }
    });
    col.layer("J-joins over hostile joined files", done, complete, json!({"joined_line_alphabet": 7, "max_len": maxlen}));
}

/// no silent wrap: a number outside the 64-bit INT range must become NULL / an error, never another number
fn wrap_layer(col: &Collector) {
    let tables = sut::make_tables("CREATE TABLE j({ .a } => a INT, { .a } => r REAL, { .a } => s TEXT CONVERT, { .m } => m TEXT);\nCREATE TABLE g('a=(\\S+)' => a INT, 'a=(\\S+)' => s TEXT, 'm=(m)' => m TEXT);").unwrap();
    let toks = ["9223372036854775808", "18446744073709551615", "18446744073709551616", "-9223372036854775809", "99999999999999999999999", "9223372036854775807", "-9223372036854775808"];
    let mut n = 0;
    for t in toks {
        let exact: Option<i64> = t.parse::<i64>().ok();
        let probes: Vec<(String, String, &Tables)> = vec![
            ("SELECT a, m FROM j".into(), format!("{{\"a\":{},\"m\":\"m\"}}", t), &tables),
            ("SELECT a, m FROM g".into(), format!("m=m a={}", t), &tables),
            ("SELECT s::int, m FROM g".into(), format!("m=m a={}", t), &tables),
            (format!("SELECT '{}'::int, m FROM g", t), "m=m".into(), &tables),
            ("SELECT a + 0, a * 1, a - 0, m FROM g".into(), format!("m=m a={}", t), &tables),
            ("SELECT SUM(a), MIN(a), MAX(a), AVG(a) FROM g".into(), format!("m=m a={}", t), &tables),
        ];
        for (text, line, tb) in probes {
            let st = match sut::parse(&text) {
                Ok(s) => s,
                Err(_) => continue, // a literal out of range may be rejected by the parser
            };
            let r = sut::run_batch(tb, &st, &[line.as_str()]);
            n += 1;
            col.eval(1);
            match &r {
                Outcome::Panic(p) => col.fail(fail(panic_signature(p), format!("`{}` on {:?} panicked: {}", text, line, p.msg), json!({"layer": "W", "statement": text, "line": line}), json!("value or error"), json!(p.msg), 0)),
                Outcome::Ok(tbl) => {
                    for row in &tbl.rows {
                        for v in row {
                            if let sut::RVal::Int(i) = v {
                                if Some(*i) != exact {
                                    col.fail(fail(
                                        format!("silent-wrap:{}", text.split(" FROM").next().unwrap_or("").replace(t, "<n>")),
                                        format!("`{}` on {:?}: the out-of-range number {} silently became {}", text, line, t, i),
                                        json!({"layer": "W", "statement": text, "line": line}),
                                        json!("NULL, an error, or the exact number"),
                                        json!(i),
                                        t.len() as u64,
                                    ));
                                }
                            }
                        }
                    }
                    col.nontrivial(h64(&("W", &text, &line)));
                }
                _ => {}
            }
        }
    }
    col.layer("W-no silent wrap of out-of-range integers", n, true, json!({"numbers": toks}));
    col.sample(json!({"layer": "W", "statement": "SELECT a, m FROM j", "line": "{\"a\":9223372036854775808,\"m\":\"m\"}"}));
}

/// one extraction probe: `SELECT * FROM x` over one line; no panic, and a date part / element outside its range never
/// becomes a value (`expect_null`: the first column must be NULL)
fn extract_case(def: &str, line: &str, expect_null: bool) -> Vec<Failure> {
    let case = json!({"layer": "T", "definition": def, "line": line, "expect_null": expect_null});
    let tables = match catch(|| sut::make_tables(def)) {
        Ok(Ok(t)) => t,
        Ok(Err(_)) => return vec![],
        Err(p) => return vec![fail(panic_signature(&p), format!("`{}` panicked: {}", def, p.msg), case, json!("no panic"), json!(p.msg), 0)],
    };
    let st = sut::parse("SELECT * FROM x").unwrap();
    match sut::run_batch(&tables, &st, &[line]) {
        Outcome::Panic(p) => vec![fail(panic_signature(&p), format!("`{}` on {:?} panicked: {}", def, line, p.msg), case, json!("value or NULL"), json!(p.msg), 0)],
        Outcome::Ok(tb) if expect_null => match tb.rows.get(0).map(|r| r[0].clone()) {
            Some(v) if !v.is_null() => vec![fail("silent-wrap:extracted-part".into(), format!("`{}` on {:?}: an out-of-range part silently became {:?}", def, line, v), case, json!("NULL"), v.to_json(), line.len() as u64)],
            _ => vec![],
        },
        _ => vec![],
    }
}

/// T: TIMESTAMP columns assembled from 2..7 groups (with and without MICROSECONDS) and INT arrays, one part at a time
/// replaced by a number outside every part's range
fn parts_layer(col: &Collector) {
    let toks = ["4294967297", "4294968", "4294967295", "4294967296", "123456789", "-1", "9223372036854775807", "-9223372036854775808", "9223372036854775808", "99999999999999999999999"];
    let base = ["2021", "2", "28", "23", "59", "58", "123"];
    let mut n = 0;
    for parts in 2..=7usize {
        for m in ["", " MICROSECONDS"] {
            let refs: Vec<String> = (1..=parts).map(|g| format!("p[{}]", g)).collect();
            let def = format!("CREATE TABLE x(p = '^{}$', {} => c TIMESTAMP{}, 'm=(m)' => m TEXT DEFAULT 'm');", vec!["(\\\\S+)"; parts].join(" "), refs.join(", "), m);
            for i in 0..parts {
                for t in toks {
                    let mut l: Vec<&str> = base[..parts].to_vec();
                    l[i] = t;
                    let line = l.join(" ");
                    n += 1;
                    col.eval(1);
                    col.nontrivial(h64(&("T", &def, &line)));
                    // a negative year is a year of the proleptic calendar, not an out-of-range part
                    for f in extract_case(&def, &line, !(i == 0 && t == "-1")) {
                        col.fail(f);
                    }
                }
            }
            n += 1;
            col.eval(1);
            for f in extract_case(&def, &base[..parts].join(" "), false) {
                col.fail(f);
            }
        }
    }
    // the month may be a name: short, empty-looking and multi-byte texts in that position
    for month in ["Ju", "J", "ju", "août", "é", "éé", "日本語", "sept", "Sept.", "September", "dec", "DEC", "Marz", "ma\u{301}r"] {
        for parts in [2usize, 3, 7] {
            let refs: Vec<String> = (1..=parts).map(|g| format!("p[{}]", g)).collect();
            let def = format!("CREATE TABLE x(p = '^{}$', {} => c TIMESTAMP, 'm=(m)' => m TEXT DEFAULT 'm');", vec!["(\\\\S+)"; parts].join(" "), refs.join(", "));
            let mut l: Vec<&str> = base[..parts].to_vec();
            l[1] = month;
            n += 1;
            col.eval(1);
            col.nontrivial(h64(&("T-month", month, parts)));
            for f in extract_case(&def, &l.join(" "), false) {
                col.fail(f);
            }
        }
    }
    let adef = "CREATE TABLE x(p = '^(\\\\S+) (\\\\S+)$', p[1], p[2] => c INT[], 'm=(m)' => m TEXT DEFAULT 'm');";
    for t in toks {
        n += 1;
        col.eval(1);
        for f in extract_case(adef, &format!("{} {}", t, t), t.parse::<i64>().is_err()) {
            col.fail(f);
        }
    }
    // TRIM over text that starts / ends with one- to three-byte whitespace and other multi-byte characters
    let tdef = "CREATE TABLE x('^<(.*)>$' => c TEXT TRIM, 'm=(m)' => m TEXT DEFAULT 'm');";
    for ws in [" ", "\t", "\u{b}", "\u{c}", "\u{a0}", "\u{3000}", "\u{2003}", "\u{85}", "\u{2028}", "\u{200b}", "\u{feff}", "é", "😀"] {
        for body in ["", "a", "é", "a b"] {
            for form in 0..5 {
                let v = match form { 0 => format!("{}{}", ws, body), 1 => format!("{}{}", body, ws), 2 => format!("{}{}{}", ws, body, ws), 3 => format!("{}{}{}{}", ws, ws, body, ws), _ => format!(" {}{}{} ", ws, body, ws) };
                n += 1;
                col.eval(1);
                col.nontrivial(h64(&("T-trim", &v)));
                for f in extract_case(tdef, &format!("<{}>", v), false) {
                    col.fail(f);
                }
            }
        }
    }
    col.layer("T-extreme date parts and array elements", n, true, json!({"numbers": toks, "timestamp_groups": "2..7", "modifiers": ["", "MICROSECONDS"]}));
    col.sample(json!({"layer": "T", "definition": adef, "line": "4294968 4294968", "expect_null": false}));
}

const AGG_NAMES: [&str; 15] = ["COUNT", "SUM", "MIN", "MAX", "AVG", "STDDEV", "VARIANCE", "PERCENTILE", "BOOL_AND", "BOOL_OR", "STRING_AGG", "ARRAY_AGG", "count", "Sum", "NOSUCHAGG"];
const AGG_ARGS: [&str; 14] = ["", "*", "DISTINCT", "DISTINCT *", "DISTINCT i", "i", "i, i", "1", "NULL", "i, 'x', 1", "t", "i, 0.5", "t, ','", "DISTINCT t, ','"];

/// G: every aggregate name x every argument form (empty, *, DISTINCT without a column, too many, literals) as projection,
/// next to a group key and inside HAVING; whatever the parser accepts must run without a panic
fn agg_forms_layer(col: &Collector, tables: &Tables) {
    let lines: Vec<String> = vec!["m=m i=1 r=1.5 t=<a> b=x".into(), "m=m i=2 t=<b>".into(), "m=m".into()];
    let mut n = 0;
    let mut accepted = 0;
    for name in AGG_NAMES {
        for args in AGG_ARGS {
            let call = format!("{}({})", name, args);
            for text in [format!("SELECT {} FROM t", call), format!("SELECT t, {} FROM t", call), format!("SELECT t, {} FROM t GROUP BY t", call), format!("SELECT t, COUNT(*) FROM t GROUP BY t HAVING {} > 0", call), format!("SELECT {} + 1, COUNT(*) FROM t", call)] {
                let mut seqs: Vec<Vec<String>> = lines.iter().map(|l| vec![l.clone()]).collect();
                seqs.push(lines.clone());
                // no line at all / only a line that is no row
                seqs.push(vec![]);
                seqs.push(vec!["zzz".into()]);
                for seq in seqs {
                    let (fs, evals, errs) = no_panic(tables, &text, &seq, "G");
                    n += 1;
                    col.eval(evals.max(1));
                    if evals > 0 {
                        accepted += 1;
                        col.nontrivial(h64(&("G", &text, &seq)));
                        col.outcome(h64(&("G", errs > 0)));
                    }
                    for f in fs {
                        col.fail(f);
                    }
                }
            }
        }
    }
    col.layer("G-aggregate argument forms", n, true, json!({"names": AGG_NAMES, "argument_forms": AGG_ARGS, "runs_accepted_by_the_parser": accepted}));
    col.sample(json!({"layer": "G", "statement": "SELECT COUNT(DISTINCT) FROM t", "line": "m=m i=1 r=1.5 t=<a> b=x"}));
}

/// I: an input "file" on which every read fails (a directory opened like a file) at each position among regular
/// files; the run must end by itself with a result or an error (child processes with a time limit)
fn fault_input_layer(col: &Collector) {
    let def = "CREATE TABLE t('k=(\\\\w+)' => k TEXT, 'v=(\\\\d+)' => v INT);\nCREATE TABLE u('k=(\\\\w+)' => k TEXT, 'y=(\\\\d+)' => y INT);";
    let content: &[u8] = b"k=a v=1\nk=b v=2\nk=a v=3\n";
    let stmts = ["SELECT k, v FROM t", "SELECT k, COUNT(*), SUM(v) FROM t GROUP BY k", "SELECT k FROM t LIMIT 2", "SELECT DISTINCT k FROM t WHERE v > 0"];
    let layouts: Vec<Vec<Option<&[u8]>>> = vec![vec![None], vec![None, Some(content)], vec![Some(content), None], vec![Some(content), None, Some(content)], vec![None, None]];
    let mut n = 0u64;
    let mut cases: Vec<(&str, usize, &str)> = Vec::new();
    for st in stmts {
        for li in 0..layouts.len() {
            for fmt in ["json", "csv"] {
                cases.push((st, li, fmt));
            }
        }
    }
    n += cases.len() as u64;
    par_for(cases.len() as u64, |ci| {
        {
            {
                let (st, li, fmt) = cases[ci as usize];
                let files = &layouts[li];
                col.eval(1);
                col.nontrivial(h64(&("I", st, li, fmt)));
                let r = sut::run_stmt_child(def, st, fmt, files, 8);
                let dev = match &r {
                    sut::ChildOut::Done(j) if j["outcome"] == "panic" => Some(format!("panic:{}", j["signature"].as_str().unwrap_or(""))),
                    sut::ChildOut::Done(_) => None,
                    sut::ChildOut::Signal(e) => Some(format!("killed-by-signal:{}", e.chars().take(40).collect::<String>())),
                    sut::ChildOut::Timeout => Some("hang:no result or error within 8 s".to_string()),
                    sut::ChildOut::Other(e) => {
                        col.machinery(format!("statement child: {}", e));
                        None
                    }
                };
                if let Some(d) = dev {
                    col.fail(fail(
                        format!("input-fault:{}", d),
                        format!("`{}` ({}) over inputs {:?} (dir = a directory opened like a file): {}", st, fmt, files.iter().map(|f| if f.is_some() { "file" } else { "dir" }).collect::<Vec<_>>(), d),
                        json!({"layer": "I", "statement": st, "layout": li, "format": fmt}),
                        json!("a result or an error"),
                        json!(format!("{:?}", r)),
                        li as u64,
                    ));
                }
            }
        }
    });
    // the joined file is a directory
    {
        let dirp = sut::tmp_dir();
        let st = format!("SELECT t.k, y FROM t INNER JOIN u::'{}' ON t.k = u.k", dirp);
        n += 1;
        col.eval(1);
        let r = sut::run_stmt_child(def, &st, "json", &[Some(content)], 8);
        let dev = match &r {
            sut::ChildOut::Done(j) if j["outcome"] == "panic" => Some(format!("panic:{}", j["signature"].as_str().unwrap_or(""))),
            sut::ChildOut::Signal(_) => Some("killed-by-signal".to_string()),
            sut::ChildOut::Timeout => Some("hang:no result or error within 8 s".to_string()),
            _ => None,
        };
        if let Some(d) = dev {
            col.fail(fail(format!("input-fault:joined:{}", d), format!("joined file is a directory: {}", d), json!({"layer": "I", "statement": "join", "layout": 99, "format": "json"}), json!("a result or an error"), json!(format!("{:?}", r)), 99));
        }
    }
    col.layer("I-inputs on which reads fail", n, true, json!({"layouts": ["dir", "dir file", "file dir", "file dir file", "dir dir", "joined = dir"], "statements": stmts}));
}

/// L: follow mode (child processes, 30 s limit): statements with LIMIT 0 / 1 / 2 end by themselves after the writer
/// has appended its lines; every statement over hostile lines ends without a panic when the writer stops
fn follow_layer(col: &Collector) {
    let def = "CREATE TABLE t('k=(\\\\w+)' => k TEXT, 'v=(-?\\\\d+)' => v INT, 'iv=(\\\\S+)' => iv INTERVAL);";
    let lines = ["k=a v=1", "k=b v=9223372036854775807", "zzz", "k=a v=-1 iv=2562047788015:0:0", "", "k=c v=2 iv=-2562047788015:0:0"];
    let stmts = ["SELECT k, v FROM t", "SELECT v + 1 FROM t", "SELECT k, SUM(v), COUNT(*) FROM t GROUP BY k", "SELECT iv + iv FROM t", "SELECT DISTINCT k FROM t", "SELECT input FROM t WHERE v / 0 = 1", "SELECT k, SUM(iv) FROM t GROUP BY k"];
    let mut cases: Vec<String> = Vec::new();
    for s in stmts {
        cases.push(s.to_string());
        for n in [0, 1, 2] {
            cases.push(format!("{} LIMIT {}", s, n));
        }
    }
    let chunks: Vec<Vec<u8>> = lines.iter().map(|l| format!("{}\n", l).into_bytes()).collect();
    par_for(cases.len() as u64, |i| {
        let text = &cases[i as usize];
        col.eval(1);
        col.nontrivial(h64(&("L", text)));
        // LIMIT n with at least n rows in the input: the writer stays after its last append and the program must end by itself
        let self_ending = text.contains("LIMIT") && !text.contains("GROUP BY") && !text.contains("v / 0");
        let (_delivered, end, ok) = crate::checks::c10::follow_child_def(true, b"", &chunks, text, if self_ending { -2 } else { -1 }, Some(def));
        let dev = if end == "timeout" {
            Some("hang:follow mode did not end within 30 s".to_string())
        } else if end.starts_with("panic") {
            Some(format!("panic:{}", msg_class(&end)))
        } else if !ok && end.is_empty() {
            Some("child-died".to_string())
        } else {
            None
        };
        if let Some(d) = dev {
            col.fail(fail(
                format!("follow:{}:{}", d.split(':').next().unwrap_or(""), if text.contains("LIMIT 0") { "limit-0" } else if text.contains("LIMIT") { "limit" } else { "no-limit" }),
                format!("follow mode `{}` over {:?}: {} (end marker {:?})", text, lines, d, end),
                json!({"layer": "L", "statement": text}),
                json!("ends with a result or an error"),
                json!(end),
                i,
            ));
        }
    });
    col.layer("L-follow mode ends", cases.len() as u64, true, json!({"statements": stmts, "limits": ["none", 0, 1, 2]}));
}

/// J2: OUTER / INNER JOIN between tables of different widths (1 against 6 columns, both ways), rows with and without
/// partner, `*` and named projections; N: PERCENTILE / MIN / MAX / array_unique / DISTINCT over 64..200 REAL values with
/// NaNs in different positions (sorting must not panic)
fn widths_and_many_values_layer(col: &Collector) {
    let defs = "CREATE TABLE n1('k=([a-z]+)' => k TEXT);\nCREATE TABLE n6('k=([a-z]+)' => k TEXT, 'a=([0-9]+)' => a INT, 'b=([0-9]+)' => b INT, 'c=([a-z]+)' => c TEXT, 'd=([0-9.]+)' => d REAL, 'e=(e)' => e BOOLEAN);\nCREATE TABLE r('k=([a-z]+)' => k TEXT, 'r=(\\\\S+)' => r REAL);";
    let tables = sut::make_tables(defs).expect("J2 defs");
    let wide = "k=a a=1 b=2 c=x d=1.5 e=e\nk=b a=3\nk=zz a=4 c=y\n";
    let narrow = "k=a\nk=q\nk=b\n";
    let tmp = sut::TempFiles::new(&[wide.as_bytes(), narrow.as_bytes()]);
    let mut n = 0u64;
    for (main_table, main_data, joined_table, jp) in [("n6", wide, "n1", &tmp.paths[1]), ("n1", narrow, "n6", &tmp.paths[0])] {
        for kind in ["INNER", "OUTER"] {
            for proj in ["*", &format!("{}.k", main_table), &format!("{}.k, {}.k", joined_table, main_table), "COUNT(*)"] {
                let text = format!("SELECT {} FROM {} {} JOIN {}::'{}' ON {}.k = {}.k", proj, main_table, kind, joined_table, jp, main_table, joined_table);
                let st = sut::parse(&text).expect("J2 statement");
                for sel in 0..4usize {
                    let mf: String = main_data.lines().enumerate().filter(|(i, _)| sel == 0 || *i != sel - 1).map(|(_, l)| format!("{}\n", l)).collect();
                    let r = sut::run_files(&tables, &st, &[mf.as_bytes()], FileRunOpts::default());
                    n += 1;
                    col.eval(1);
                    col.nontrivial(h64(&("J2", &text, sel)));
                    match &r {
                        Outcome::Panic(p) => col.fail(fail(panic_signature(p), format!("`{}` over {:?} panicked: {}", text.replace(jp.as_str(), "<joined>"), mf, p.msg), json!({"layer": "J2", "statement": text.replace(jp.as_str(), "<joined>"), "main": mf}), json!("output or error"), json!({"panic": p.msg, "at": format!("{}:{}", p.file, p.line)}), mf.len() as u64)),
                        Outcome::Ok(fr) => {
                            // a non-aggregate OUTER JOIN keeps every line, an INNER JOIN the lines with a partner
                            if let (Ok(_), true) = (&fr.result, proj != "COUNT(*)") {
                                let have = fr.printed.len();
                                let partner = |l: &str| { let k = l.split(' ').next().unwrap_or(""); k == "k=a" || k == "k=b" };
                                let want = mf.lines().filter(|l| kind == "OUTER" || partner(l)).count();
                                if have != want {
                                    col.fail(fail(format!("J2:rows:{}", kind), format!("`{}` over {:?} printed {} rows, expected {}", text.replace(jp.as_str(), "<joined>"), mf, have, want), json!({"layer": "J2", "statement": text.replace(jp.as_str(), "<joined>"), "main": mf}), json!(want), json!(fr.printed), mf.len() as u64));
                                }
                            }
                        }
                        _ => {}
                    }
                }
            }
        }
    }
    for total in [21usize, 33, 64, 100, 200] {
        for pattern in 0..6usize {
            let lines: Vec<String> = (0..total)
                .map(|i| {
                    let nan = match pattern {
                        0 => i % 2 == 0,
                        1 => i % 3 == 1,
                        2 => i < total / 2,
                        3 => i >= total / 2,
                        4 => i % 7 == 0 || i % 5 == 0,
                        _ => (i * 7919) % 11 < 4,
                    };
                    if nan { format!("k=a r={}", if i % 4 == 0 { "-NaN" } else { "NaN" }) } else { format!("k=a r={}.5", (i * 37) % 101) }
                })
                .collect();
            for text in ["SELECT PERCENTILE(r, 0.5), MIN(r), MAX(r) FROM r", "SELECT array_unique(ARRAY_AGG(r)) FROM r", "SELECT DISTINCT r FROM r", "SELECT r, COUNT(*) FROM r GROUP BY r", "SELECT k, PERCENTILE(r, 0.9), COUNT(DISTINCT r) FROM r GROUP BY k"] {
                let (fs, evals, _) = no_panic(&tables, text, &lines, "N");
                n += 1;
                col.eval(evals.max(1));
                col.nontrivial(h64(&("N", text, total, pattern)));
                for mut f in fs {
                    f.case = json!({"layer": "N", "statement": text, "total": total, "pattern": pattern});
                    col.fail(f);
                }
            }
        }
    }
    col.layer("J2-joins between tables of different widths; N-many REAL values with NaNs", n, true, json!({"value_counts": [21, 33, 64, 100, 200], "nan_patterns": 6}));
}

pub fn run(ctx: &Ctx) -> i32 {
    let col = Collector::new();
    let tables = sut::make_tables(DEF).expect("C09 definition");
    widths_and_many_values_layer(&col);
    fault_input_layer(&col);
    follow_layer(&col);
    join_layer(ctx, &col);
    wrap_layer(&col);
    parts_layer(&col);
    agg_forms_layer(&col, &tables);
    expr_layer(ctx, &col, &tables);
    agg_layer(ctx, &col, &tables);
    format_layer(&col, &tables);
    bytes_layer(ctx, &col);
    tz_layer(&col);
    cli_layer(&col);
    let _ = c04::DEF;
    finish(
        ctx,
        &col,
        Finish {
            level: "exploration",
            rule: "E: every expression node kind over all leaf tuples x all rows of an extreme value domain (projection and WHERE); A: 33 aggregate items x 9 clause variants x all sequences up to the bound over 7 extreme lines (result requested after every line); F: every extreme value x 3 output formats x 4 statements; B: all byte strings up to the bound over 9 byte units x 2 table kinds x 3 statements x 2 formats; Z: 4 time zones x local times at 15-minute steps around every DST transition x 10 statements (child processes); X: the CLI binary on 8 cases; W/T: 7 + 10 out-of-range numbers through JSON / regex extraction, casts, arithmetic, aggregates, each TIMESTAMP part of 2..7-group columns (with and without MICROSECONDS) and INT arrays; G: 15 aggregate names x 14 argument forms x 4 statement shapes x 4 line sequences. Oracle: no panic / abort / hang. Non-trivial: the run took an error path or produced output from an extreme value.".into(),
            exhaustive: true,
            assumptions: vec!["harness profile has overflow checks on, so a silent wrap is observed as a panic".into(), "time zones limited to 4 (one with a midnight gap, one with a 30-minute shift)".into()],
            bounds: json!({"zones": 4}),
        },
    )
}

pub fn replay(case: &J) -> Vec<Failure> {
    let tables = sut::make_tables(DEF).unwrap();
    match case["layer"].as_str() {
        Some("N") | Some("J2") => {
            println!("note: cases of this layer are replayed by re-running `./check C09 quick`");
            vec![]
        }
        Some("L") => {
            let col = Collector::new();
            follow_layer(&col);
            let f = col.failures.lock().unwrap();
            f.values().flat_map(|v| v.iter().cloned()).filter(|f| f.case["statement"] == case["statement"]).collect()
        }
        Some("I") => {
            let col = Collector::new();
            fault_input_layer(&col);
            let f = col.failures.lock().unwrap();
            f.values().flat_map(|v| v.iter().cloned()).filter(|f| f.case["statement"] == case["statement"] && f.case["layout"] == case["layout"] && f.case["format"] == case["format"]).collect()
        }
        Some("T") => extract_case(case["definition"].as_str().unwrap(), case["line"].as_str().unwrap(), case["expect_null"].as_bool().unwrap_or(false)),
        Some("E") | Some("A") | Some("G") => {
            let line = case["line"].as_str().unwrap_or("").to_string();
            no_panic(&tables, case["statement"].as_str().unwrap(), &[line], "replay").0
        }
        Some("F") => {
            let st = sut::parse(case["statement"].as_str().unwrap()).unwrap();
            let f = match case["format"].as_str() {
                Some("json") => OutputFormat::Json,
                Some("csv") => OutputFormat::CSV(";".into()),
                _ => OutputFormat::Text,
            };
            let bytes = format!("{}\n", case["line"].as_str().unwrap());
            match sut::run_files(&tables, &st, &[bytes.as_bytes()], FileRunOpts { format: f, ..Default::default() }) {
                Outcome::Panic(p) => vec![fail(panic_signature(&p), format!("panic: {}", p.msg), case.clone(), json!("no panic"), json!(p.msg), 0)],
                _ => vec![],
            }
        }
        _ => vec![],
    }
}
