//! C01 — regex / split extraction yields exactly the captured, typed column values.
//!
//! CREATE TABLE *texts* (so that tokenizer, parser, converter and TableDefinition::new are on the path) are assembled from
//! a column-spec alphabet (types x group references x modifiers x capture / split / inline / several patterns) and run
//! over lines built as products of per-slot token alphabets (empty groups, numeric extremes, non-literals, non-ASCII digits,
//! out-of-range date parts). Oracle: a reference extractor that runs the regex crate itself (trusted as matcher), picks the
//! referenced group and converts it with its own literal grammars and calendar.

use serde_json::{json, Value as J};

use crate::checks::fail;
use crate::core::*;
use crate::refmodel::expr::{civil_to_micros, parse_literal};
use crate::sut::{self, Outcome, RVal};

#[derive(Clone, Debug)]
struct Pattern {
    name: String,
    /// regex text as the regex engine must see it
    regex: String,
    split: bool,
    inline: bool,
}

#[derive(Clone, Debug)]
struct Col {
    refs: Vec<(usize, usize)>, // (pattern index, group index)
    ty: &'static str,          // text int real boolean timestamp interval  or "<el>[]"
    modifier: &'static str,    // "" | "NOT NULL" | "DEFAULT" | "TRIM" | "MICROSECONDS"
}

#[derive(Clone, Debug)]
struct Table {
    patterns: Vec<Pattern>,
    cols: Vec<Col>,
}

/// SQL string literal for a regex (the tokenizer removes one level of backslashes)
fn sql_str(s: &str) -> String {
    format!("'{}'", s.replace('\\', "\\\\").replace('\'', "\\'"))
}

fn default_of(ty: &str) -> (&'static str, RVal) {
    match ty {
        "int" => ("7", RVal::Int(7)),
        "real" => ("2.5", RVal::Real(2.5)),
        "text" => ("'dflt'", RVal::Text("dflt".into())),
        "boolean" => ("TRUE", RVal::Bool(true)),
        _ => ("NULL", RVal::Null),
    }
}

fn table_sql(t: &Table) -> String {
    let mut parts = Vec::new();
    for p in &t.patterns {
        if !p.inline {
            parts.push(format!("{} = {}{}", p.name, if p.split { "split " } else { "" }, sql_str(&p.regex)));
        }
    }
    for (ci, c) in t.cols.iter().enumerate() {
        let m = match c.modifier {
            "DEFAULT" => format!(" DEFAULT {}", default_of(c.ty).0),
            "" => String::new(),
            o => format!(" {}", o),
        };
        let p0 = &t.patterns[c.refs[0].0];
        if p0.inline {
            parts.push(format!("{} => c{} {}{}", sql_str(&p0.regex), ci, c.ty.to_uppercase(), m));
        } else {
            let refs: Vec<String> = c.refs.iter().map(|(p, g)| format!("{}[{}]", t.patterns[*p].name, g)).collect();
            parts.push(format!("{} => c{} {}{}", refs.join(", "), ci, c.ty.to_uppercase(), m));
        }
    }
    format!("CREATE TABLE t({});", parts.join(", "))
}

/// what a reference yields on a line: None = pattern or group did not take part; Some(text) = group text
fn group_text<'a>(t: &Table, line: &'a str, r: (usize, usize), cache: &mut Vec<Option<Option<Vec<Option<&'a str>>>>>) -> (bool, Option<&'a str>) {
    // returns (pattern matched, group text)
    if cache[r.0].is_none() {
        let p = &t.patterns[r.0];
        let re = regex::Regex::new(&p.regex).unwrap();
        let res: Option<Vec<Option<&'a str>>> = if p.split {
            let mut v: Vec<Option<&'a str>> = vec![Some(line)];
            v.extend(re.split(line).map(Some));
            Some(v)
        } else {
            re.captures(line).map(|c| (0..c.len()).map(|i| c.get(i).map(|m| m.as_str())).collect())
        };
        cache[r.0] = Some(res);
    }
    match cache[r.0].as_ref().unwrap() {
        None => (false, None),
        Some(groups) => (true, groups.get(r.1).cloned().flatten()),
    }
}

#[derive(Debug, Clone)]
enum Exp {
    Is(RVal),
    /// several acceptable values (open points)
    OneOf(Vec<RVal>),
}

const MONTHS: [(&str, i64); 15] = [("jan", 1), ("feb", 2), ("mar", 3), ("apr", 4), ("may", 5), ("jun", 6), ("june", 6), ("jul", 7), ("july", 7), ("aug", 8), ("sep", 9), ("sept", 9), ("oct", 10), ("nov", 11), ("dec", 12)];

/// `%Y-%m-%d %H:%M:%S` with any amount of ASCII whitespace between the items and an optional sign on the year
fn lenient_ts(text: &str) -> Option<i64> {
    thread_local! {
        static RE: regex::Regex = regex::Regex::new(r"^[ \t]*([+-]?[0-9]{1,6})[ \t]*-[ \t]*([0-9]{1,2})[ \t]*-[ \t]*([0-9]{1,2})[ \t]*([0-9]{1,2})[ \t]*:[ \t]*([0-9]{1,2})[ \t]*:[ \t]*([0-9]{1,2})[ \t]*$").unwrap();
    }
    RE.with(|re| {
        let c = re.captures(text)?;
        let n = |i: usize| c.get(i).unwrap().as_str().parse::<i64>().ok();
        // seconds = 60 is chrono's leap-second notation (kept as 59 s + 1 s): open as well
        if n(6)? == 60 {
            return civil_to_micros(n(1)?, n(2)?, n(3)?, n(4)?, n(5)?, 59, 0).map(|x| x + 1_000_000);
        }
        civil_to_micros(n(1)?, n(2)?, n(3)?, n(4)?, n(5)?, n(6)?, 0)
    })
}

fn ref_col<'a>(t: &Table, c: &Col, line: &'a str, cache: &mut Vec<Option<Option<Vec<Option<&'a str>>>>>) -> Exp {
    let default = if c.modifier == "DEFAULT" { default_of(c.ty).1 } else { RVal::Null };
    let scalar = |ty: &str, r: (usize, usize), dflt: RVal, cache: &mut Vec<Option<Option<Vec<Option<&'a str>>>>>| -> Exp {
        let (matched, g) = group_text(t, line, r, cache);
        if ty == "boolean" {
            // the pattern did not take part: NULL (or the DEFAULT), like every other type
            return if matched { Exp::Is(RVal::Bool(g.is_some())) } else { Exp::Is(dflt) };
        }
        match g {
            None => Exp::Is(dflt),
            Some(text) => match parse_literal(ty, text) {
                Some(v) => Exp::Is(v),
                None if ty == "timestamp" => match lenient_ts(text) {
                    // the amount of whitespace and a sign on the year are open points of the format grammar
                    Some(ts) => Exp::OneOf(vec![RVal::Null, RVal::Ts(ts)]),
                    None => Exp::Is(RVal::Null),
                },
                None => Exp::Is(RVal::Null),
            },
        }
    };
    if let Some(el) = c.ty.strip_suffix("[]") {
        let mut vals = Vec::new();
        for r in &c.refs {
            match scalar(el, *r, RVal::Null, cache) {
                Exp::Is(v) => vals.push(v),
                Exp::OneOf(_) => vals.push(RVal::Null), // boolean[] over an unmatched pattern: treated as NULL elements
            }
        }
        return if vals.iter().any(|v| !v.is_null()) { Exp::Is(RVal::Array(vals)) } else { Exp::Is(default) };
    }
    if c.ty == "timestamp" && (c.refs.len() > 1 || true) && !t.patterns[c.refs[0].0].inline && c.refs.len() >= 1 && c.modifier != "SCALAR" && c.refs.len() != 1 {
        // assembled position by position: year, month, day, hour, minute, second, fraction
        let mut parts: [i64; 7] = [0, 1, 1, 0, 0, 0, 0];
        for (i, r) in c.refs.iter().enumerate() {
            let (_, g) = group_text(t, line, *r, cache);
            let v: Option<i64> = g.and_then(|x| x.parse::<i64>().ok());
            match v {
                Some(x) => parts[i] = x,
                None => {
                    if i == 1 {
                        if let Some(name) = g {
                            if let Some((_, m)) = MONTHS.iter().find(|(n, _)| *n == name.to_lowercase()) {
                                parts[1] = *m;
                                continue;
                            }
                        }
                    }
                    // a part that is absent or not a number: no timestamp (NULL or the DEFAULT)
                    return Exp::OneOf(vec![RVal::Null, default]);
                }
            }
        }
        let micros = if c.modifier == "MICROSECONDS" { Some(parts[6]) } else { parts[6].checked_mul(1000) };
        let ts = micros.and_then(|us| if (0..1_000_000).contains(&us) { civil_to_micros(parts[0], parts[1], parts[2], parts[3], parts[4], parts[5], us) } else { None });
        // chrono's year range is narrower than the reference's sanity range; both are "out of range" beyond +-200000
        return match ts {
            Some(x) => Exp::Is(RVal::Ts(x)),
            None => Exp::Is(default),
        };
    }
    match scalar(c.ty, c.refs[0], default, cache) {
        Exp::Is(RVal::Text(s)) if c.modifier == "TRIM" => Exp::Is(RVal::Text(s.trim().to_string())),
        e => e,
    }
}

fn judge(t: &Table, line: &str, layer: &str, rank: u64) -> (Vec<Failure>, bool, u64) {
    let def = table_sql(t);
    let case = json!({"layer": layer, "definition": def, "line": line});
    let tables = match sut::make_tables(&def) {
        Ok(x) => x,
        Err(e) => return (vec![fail(format!("definition-rejected:{}", msg_class(&e)), format!("{} rejected: {}", def, e), case, json!("parses"), json!(e), 0)], false, 0),
    };
    let st = sut::parse("SELECT * FROM t").unwrap();
    let mut cache = vec![None; t.patterns.len()];
    let expected: Vec<Exp> = t.cols.iter().map(|c| ref_col(t, c, line, &mut cache)).collect();
    let firsts: Vec<RVal> = expected.iter().map(|e| match e { Exp::Is(v) => v.clone(), Exp::OneOf(v) => v[0].clone() }).collect();
    let got = sut::run_batch(&tables, &st, &[line]);
    let mut out = Vec::new();
    // the columns named one by one with the table name in front give the same row as `*`
    {
        let names: Vec<String> = (0..t.cols.len()).map(|i| format!("t.c{}", i)).collect();
        if let Ok(qst) = sut::parse(&format!("SELECT {} FROM t", names.join(", "))) {
            let q = sut::run_batch(&tables, &qst, &[line]);
            let same = match (&got, &q) {
                (Outcome::Ok(a), Outcome::Ok(b)) => sut::rows_same(&a.rows, &b.rows),
                (Outcome::Err(_), Outcome::Err(_)) => true,
                _ => false,
            };
            if !same {
                out.push(fail(
                    "extract:qualified-names-differ-from-star".into(),
                    format!("{} on line {:?}: `SELECT {}` gives another row than `SELECT *`", def, line, names.join(", ")),
                    case.clone(),
                    sut::outcome_json(&got, |t| t.to_json()),
                    sut::outcome_json(&q, |t| t.to_json()),
                    rank,
                ));
            }
        }
    }
    let okey = h64(&format!("{:?}", firsts));
    let accepts = |e: &Exp, v: &RVal| match e {
        Exp::Is(x) => x.same(v),
        Exp::OneOf(xs) => xs.iter().any(|x| x.same(v)),
    };
    // admission: every NOT NULL column non-NULL and at least one non-NULL column. With open columns both outcomes are tried.
    let open = expected.iter().any(|e| matches!(e, Exp::OneOf(_)));
    let admitted_with = |vals: &[RVal]| -> bool { !t.cols.iter().zip(vals).any(|(c, v)| c.modifier == "NOT NULL" && v.is_null()) && vals.iter().any(|v| !v.is_null()) };
    match &got {
        Outcome::Ok(tb) => {
            let ok = if tb.rows.is_empty() {
                if open {
                    true // some assignment of the open columns may cut the row; not compared
                } else {
                    !admitted_with(&firsts)
                }
            } else {
                tb.rows.len() == 1 && tb.rows[0].len() == expected.len() && tb.rows[0].iter().zip(&expected).all(|(v, e)| accepts(e, v)) && admitted_with(&tb.rows[0])
            };
            if !ok {
                let mut sig = if tb.rows.is_empty() { "row-missing".to_string() } else { "unexpected-row-or-admission".to_string() };
                if tb.rows.len() == 1 {
                    for (i, (v, e)) in tb.rows[0].iter().zip(&expected).enumerate() {
                        if !accepts(e, v) {
                            let c = &t.cols[i];
                            let mut cache2 = vec![None; t.patterns.len()];
                            let (m, g) = group_text(t, line, c.refs[0], &mut cache2);
                            let src = if !m { "pattern-unmatched" } else if g.is_none() { "group-absent" } else if g == Some("") { "group-empty" } else { "group-text" };
                            sig = format!("value:{}:{}:{}:{}:{}:expected {} got {}", c.ty, c.modifier, if t.patterns[c.refs[0].0].split { "split" } else if t.patterns[c.refs[0].0].inline { "inline" } else { "capture" }, if c.refs.len() > 1 { "multi-ref" } else { "single-ref" }, src, firsts[i].type_name(), v.type_name());
                            break;
                        }
                    }
                }
                out.push(fail(format!("extract:{}", sig), format!("{} on line {:?}: expected {:?}, got {:?}", def, line, expected, tb.rows), case, json!(firsts.iter().map(|v| v.to_json()).collect::<Vec<_>>()), tb.to_json(), rank));
            }
        }
        Outcome::Err(e) => out.push(fail(format!("extract:error:{}", msg_class(e)), format!("{} on line {:?}: error {}", def, line, e), case, json!("row or no row"), json!(e), rank)),
        Outcome::Panic(p) => out.push(fail(panic_signature(p), format!("{} on line {:?}: panic {}", def, line, p.msg), case, json!("row or no row"), json!(p.msg), rank)),
    }
    // non-trivial: a referenced group took part in the match (so that a conversion decided the value), or NOT NULL cut the row
    let mut cache3 = vec![None; t.patterns.len()];
    let took_part = t.cols.iter().any(|c| c.refs.iter().any(|r| group_text(t, line, *r, &mut cache3).1.is_some()));
    (out, took_part || t.cols.iter().zip(&firsts).any(|(c, v)| c.modifier == "NOT NULL" && v.is_null()), okey)
}

const P1: &str = "([a-z]+)=([-+0-9a-zA-Z.: ٣]*)(?: (x))?";
const P2: &str = "(\\d+)-(\\w+)";
const P3: &str = "^(\\S*) (\\S*) (\\S*) (\\S*) (\\S*) (\\S*) (\\S*)$";

fn cap(name: &str, regex: &str) -> Pattern {
    Pattern { name: name.into(), regex: regex.into(), split: false, inline: false }
}

const INT_TOKS: [&str; 13] = ["", "0", "-1", "007", "+5", "9223372036854775807", "9223372036854775808", "-9223372036854775808", "4294967297", "1e3", "abc", " 5 ", "٣"];
const REAL_TOKS: [&str; 8] = ["1.5", "-0.0", ".5", "5.", "NaN", "inf", "1e400", "x"];
const MISC_TOKS: [&str; 14] = ["true", "false", "TRUE", "  pad  ", "1:02:03", "-1:0:0", "12:30:45:500", "1:2", "1:2:3:", ":1:2:3", "1::3", "1:2:x", "00:00:00", "1:60:61"];

fn p1_lines() -> Vec<String> {
    let mut v = Vec::new();
    for tk in INT_TOKS.iter().chain(REAL_TOKS.iter()).chain(MISC_TOKS.iter()) {
        v.push(format!("k={}", tk));
        v.push(format!("k={} x", tk));
        v.push(format!("pre kk={} x trailing", tk));
    }
    v.extend(["", "k", "=5", "K=5", "k=5 y", "a=1 b=2 x", "zzz"].iter().map(|s| s.to_string()));
    v
}

fn scalar_specs() -> Vec<(&'static str, &'static str)> {
    let mut v = Vec::new();
    for ty in ["text", "int", "real", "boolean", "interval"] {
        for m in ["", "NOT NULL", "DEFAULT"] {
            if m == "DEFAULT" && ty == "interval" {
                continue;
            }
            v.push((ty, m));
        }
    }
    v.push(("text", "TRIM"));
    v.push(("timestamp", ""));
    v
}

fn date_slots() -> [Vec<&'static str>; 7] {
    [
        vec!["2021", "0", "99999", "4294969317", "-1", "x"],
        vec!["1", "12", "0", "13", "4294967297", "Jan", "sept", "foo", "2", "Junk", "september"],
        vec!["1", "29", "31", "0", "32", "30"],
        vec!["0", "23", "24", "4294967296"],
        vec!["0", "59", "60"],
        vec!["0", "59", "60", "-1"],
        vec!["0", "999", "1000", "999999", "1234567", "4294968", "4294967296"],
    ]
}

/// Layer K: lines that contain control characters (CR inside and at the end, TAB, NUL, vertical tab, form feed, NEL) against
/// patterns that use `.`, `\s`, `$` and negated classes. The expected value is what the `regex` crate's default syntax
/// gives for the pattern on the line (`.` matches everything but LF; `$` only at the end of the text), computed with a
/// freshly compiled `regex::Regex` in the harness.
fn control_chars_layer(col: &Collector) -> Vec<Failure> {
    let mut out = Vec::new();
    let pats = ["msg=(.*)", "^a(.*)z$", "msg=([^ ]*)", "k=(.+) end$", "v=(.)(.)", "w=(\\\\S+)", "(?s)msg=(.*)"];
    let lines = ["msg=10%\r100%", "msg=x\r", "a\rz", "a \r\r z", "msg=a\tb\u{0}c", "k=1\r2 end", "k=1 end\r", "v=\r\u{b}", "v=\u{85}\u{c}", "w=a\rb c", "msg=", "az"];
    let mut n = 0u64;
    for p in pats {
        // the pattern as the regex crate sees it (the definition text doubles the backslashes twice)
        let plain = p.replace("\\\\", "\\");
        let re = regex::Regex::new(&plain).expect("pattern");
        let groups = re.captures_len() - 1;
        let cols: Vec<String> = (1..=groups).map(|g| format!("line[{}] => c{} TEXT", g, g)).collect();
        let def = format!("CREATE TABLE t(line = '{}', {});", p, cols.join(", "));
        let tables = match sut::make_tables(&def) {
            Ok(t) => t,
            Err(e) => {
                out.push(fail("K:definition-rejected".into(), format!("{} rejected: {}", def, e), json!({"layer": "K", "definition": def}), json!("accepted"), json!(e), 0));
                continue;
            }
        };
        let st = sut::parse(&format!("SELECT {} FROM t", (1..=groups).map(|g| format!("c{}", g)).collect::<Vec<_>>().join(", "))).unwrap();
        for l in lines {
            n += 1;
            col.eval(1);
            let want: Option<Vec<Option<String>>> = re.captures(l).map(|c| (1..=groups).map(|g| c.get(g).map(|m| m.as_str().to_string())).collect());
            if want.is_some() {
                col.nontrivial(h64(&("K", p, l)));
            }
            let got = sut::run_batch(&tables, &st, &[l]);
            let got_row: Option<Vec<Option<String>>> = match &got {
                Outcome::Ok(t) => t.rows.get(0).map(|r| r.iter().map(|v| match v { RVal::Text(s) => Some(s.clone()), _ => None }).collect()),
                _ => None,
            };
            // a row all of whose columns are NULL is no row
            let want_row = want.clone().filter(|r| r.iter().any(|x| x.is_some()));
            if !matches!(&got, Outcome::Ok(_)) || got_row != want_row {
                out.push(fail(
                    format!("K:control-characters:{}", if got_row.is_none() { "row-missing" } else if want_row.is_none() { "unexpected-row" } else { "value-differs" }),
                    format!("pattern {:?} on line {:?}: extracted {:?}, the regex crate gives {:?}", plain, l, got_row, want_row),
                    json!({"layer": "K", "definition": def, "line": l}),
                    json!(want_row),
                    json!(got_row),
                    n,
                ));
            }
        }
    }
    col.layer("K-control characters against `.`, `$`, \\S and negated classes", n, true, json!({"patterns": pats.len(), "lines": lines.len()}));
    out
}

pub fn run(ctx: &Ctx) -> i32 {
    let col = Collector::new();
    for f in control_chars_layer(&col) {
        col.fail(f);
    }
    let thorough = ctx.tier == Tier::Thorough;
    let mut work: Vec<(Table, String, &'static str)> = Vec::new();
    // Layer A: scalar specs on P1
    for (ty, m) in scalar_specs() {
        for g in [0usize, 1, 2, 3, 9] {
            let t = Table { patterns: vec![cap("line", P1)], cols: vec![Col { refs: vec![(0, g)], ty, modifier: m }] };
            for l in p1_lines() {
                work.push((t.clone(), l, "A-scalar"));
            }
        }
    }
    // Layer B: split patterns
    for (re, sep) in [(";", ";"), ("\\s+", " ")] {
        for (ty, m) in scalar_specs() {
            for g in [0usize, 1, 2, 3] {
                let t = Table { patterns: vec![Pattern { name: "line".into(), regex: re.into(), split: true, inline: false }], cols: vec![Col { refs: vec![(0, g)], ty, modifier: m }] };
                for a in ["5", "", "x", "1.5", " 7 ", "true"] {
                    for bq in ["6", "", "1:2:3"] {
                        work.push((t.clone(), format!("{}{}{}", a, sep, bq), "B-split"));
                        work.push((t.clone(), format!("{}{}{}{}", a, sep, bq, sep), "B-split"));
                    }
                    work.push((t.clone(), a.to_string(), "B-split"));
                }
            }
        }
    }
    // Layer C: timestamps assembled from 2..7 references (quick: <= 2 slots varied from a valid baseline)
    let slots = date_slots();
    let base = ["2021", "2", "28", "23", "59", "58", "123"];
    let mut date_lines: Vec<String> = Vec::new();
    for i in 0..7 {
        for a in &slots[i] {
            let mut p: Vec<&str> = base.to_vec();
            p[i] = a;
            date_lines.push(p.join(" "));
            for j in (i + 1)..7 {
                for bq in &slots[j] {
                    if thorough || (a != &base[i] && bq != &base[j] && (j == i + 1 || i == 1 || j == 6)) {
                        let mut q = p.clone();
                        q[j] = bq;
                        date_lines.push(q.join(" "));
                    }
                }
            }
        }
    }
    if thorough {
        // the full product of the slot alphabets
        let mut idx = [0usize; 7];
        loop {
            date_lines.push((0..7).map(|i| slots[i][idx[i]]).collect::<Vec<_>>().join(" "));
            let mut k = 0;
            loop {
                if k == 7 {
                    break;
                }
                idx[k] += 1;
                if idx[k] < slots[k].len() {
                    break;
                }
                idx[k] = 0;
                k += 1;
            }
            if k == 7 {
                break;
            }
        }
    }
    date_lines.push("2021 2 29 0 0 0 0".into());
    date_lines.push("2020 2 29 0 0 0 0".into());
    date_lines.push("1900 2 29 0 0 0 0".into());
    date_lines.push("2000 Feb 29 0 0 0 0".into());
    date_lines.push("2021  1 0 0 0 0".into());
    date_lines.push("no match".into());
    date_lines.sort();
    date_lines.dedup();
    for n in 2..=7usize {
        for m in ["", "MICROSECONDS", "DEFAULT"] {
            let t = Table { patterns: vec![cap("d", P3)], cols: vec![Col { refs: (1..=n).map(|g| (0, g)).collect(), ty: "timestamp", modifier: m }] };
            for l in &date_lines {
                work.push((t.clone(), l.clone(), "C-timestamp"));
            }
        }
    }
    // permuted references (month taken from another group)
    let t = Table { patterns: vec![cap("d", P3)], cols: vec![Col { refs: vec![(0, 1), (0, 3), (0, 2)], ty: "timestamp", modifier: "" }] };
    for l in &date_lines {
        work.push((t.clone(), l.clone(), "C-timestamp"));
    }
    // Layer D: arrays
    for el in ["int", "text", "real", "boolean"] {
        for refs in [vec![1usize, 2], vec![2, 3], vec![3, 9], vec![2, 2, 1]] {
            let ty: &'static str = Box::leak(format!("{}[]", el).into_boxed_str());
            let t = Table { patterns: vec![cap("line", P1)], cols: vec![Col { refs: refs.iter().map(|g| (0, *g)).collect(), ty, modifier: "" }] };
            for l in p1_lines() {
                work.push((t.clone(), l, "D-array"));
            }
        }
    }
    // Layer E: pairs of columns (independence, NOT NULL cut), inline patterns, two patterns in one table
    let pair_specs: Vec<(&str, &str, usize)> = vec![("int", "", 2), ("text", "NOT NULL", 3), ("int", "NOT NULL", 2), ("text", "DEFAULT", 3), ("boolean", "", 3), ("text", "TRIM", 2), ("real", "", 2)];
    for (ta, ma, ga) in &pair_specs {
        for (tb, mb, gb) in &pair_specs {
            let t = Table { patterns: vec![cap("line", P1)], cols: vec![Col { refs: vec![(0, *ga)], ty: ta, modifier: ma }, Col { refs: vec![(0, *gb)], ty: tb, modifier: mb }] };
            for l in p1_lines() {
                work.push((t.clone(), l, "E-pairs"));
            }
        }
    }
    // split patterns with scalar columns next to array / TIMESTAMP columns over higher field indexes
    for (re, sep) in [(",", ","), ("\\s+", " ")] {
        let sp = Pattern { name: "f".into(), regex: re.into(), split: true, inline: false };
        let t1 = Table { patterns: vec![sp.clone()], cols: vec![Col { refs: vec![(0, 1)], ty: "text", modifier: "" }, Col { refs: vec![(0, 2), (0, 3), (0, 4)], ty: "text[]", modifier: "" }] };
        let t2 = Table { patterns: vec![sp.clone()], cols: vec![Col { refs: vec![(0, 1)], ty: "int", modifier: "" }, Col { refs: vec![(0, 2), (0, 3), (0, 4), (0, 5), (0, 6), (0, 7)], ty: "timestamp", modifier: "" }] };
        let t3 = Table { patterns: vec![sp.clone()], cols: vec![Col { refs: vec![(0, 3), (0, 1)], ty: "int[]", modifier: "" }, Col { refs: vec![(0, 2)], ty: "text", modifier: "DEFAULT" }, Col { refs: vec![(0, 0)], ty: "text", modifier: "" }] };
        for l in [vec!["a", "b", "c", "d"], vec!["1", "2021", "3", "4", "5", "6", "7"], vec!["x"], vec!["5", "", "7"], vec!["1", "2", "3", "4", "5", "6", "7", "8", "9"], vec![""]] {
            for t in [&t1, &t2, &t3] {
                work.push((t.clone(), l.join(sep), "B2-split-multi-ref"));
            }
        }
    }
    // TRIM with every kind of Unicode whitespace at either end (and inside)
    for g in [1usize, 2] {
        let t = Table { patterns: vec![cap("w", "^<(.*)>,<(.*)>$")], cols: vec![Col { refs: vec![(0, g)], ty: "text", modifier: "TRIM" }, Col { refs: vec![(0, 3 - g)], ty: "text", modifier: "" }] };
        for ws in [" ", "\t", "\u{b}", "\u{c}", "\u{a0}", "\u{3000}", "\u{2003}", "\u{85}", "\u{2028}", "\u{200b}", "\u{feff}"] {
            for body in ["alice", "a b", ""] {
                for form in 0..4 {
                    let v = match form { 0 => format!("{}{}", ws, body), 1 => format!("{}{}", body, ws), 2 => format!("{}{}{}", ws, body, ws), _ => format!(" {}{}{} ", ws, body, ws) };
                    work.push((t.clone(), format!("<{}>,<{}>", v, v), "T-trim"));
                }
            }
        }
    }
    let two = Table { patterns: vec![cap("a", P1), cap("b", P2), Pattern { name: "_pattern2".into(), regex: "id=(\\d+)".into(), split: false, inline: true }], cols: vec![Col { refs: vec![(0, 2)], ty: "int", modifier: "" }, Col { refs: vec![(1, 1)], ty: "int", modifier: "" }, Col { refs: vec![(1, 2)], ty: "text", modifier: "DEFAULT" }, Col { refs: vec![(2, 1)], ty: "int", modifier: "" }, Col { refs: vec![(1, 0)], ty: "text", modifier: "" }] };
    for l in ["k=5 12-ab id=9", "12-ab", "k=5", "id=9", "x 1-a 2-b", "٣-x k=1", "99999999999999999999-z", "k=1 id=٣", "", "k= 7-é_ id=1 id=2"] {
        work.push((two.clone(), l.to_string(), "F-multi-pattern"));
    }
    // TIMESTAMP / array columns whose references span two patterns (either may fail to match on its own)
    let day = cap("day", "(\\d+)-(\\d+)-(\\d+)");
    let clock = cap("clock", "([A-Za-z]+) (\\d+):(\\d+)");
    for refs in [
        vec![(0usize, 1usize), (0, 2), (0, 3), (1, 2), (1, 3)],
        vec![(1, 2), (0, 2), (0, 3), (1, 3), (0, 1)],
        vec![(0, 1), (1, 1), (0, 3)],
        vec![(0, 1), (0, 2), (1, 2)],
    ] {
        for (ty, m) in [("timestamp", ""), ("timestamp", "DEFAULT"), ("int[]", ""), ("text[]", "")] {
            let t = Table { patterns: vec![day.clone(), clock.clone()], cols: vec![Col { refs: refs.clone(), ty, modifier: m }, Col { refs: vec![(1, 1)], ty: "text", modifier: "" }] };
            for l in ["2021-06-01 at Tue 16:55", "2021-06-01", "Tue 16:55", "at Jan 16:55 x 2021-06-01", "11-12-13 Feb 10:20", "2021-06-01 Tue 99:99", "13-14-15 Mar 3:4", "", "Tue 1:2 2000-2-30"] {
                work.push((t.clone(), l.to_string(), "F-multi-pattern"));
            }
        }
    }
    // split and capture patterns in one table, in every definition order (a column per pattern, plus one over a pattern
    // that often does not match)
    {
        let pa = cap("a", "k=(\\w+)");
        let pb = cap("b", "id=(\\d+)");
        let pc = cap("c", "^never (x)$");
        let sp = Pattern { name: "f".into(), regex: " ".into(), split: true, inline: false };
        let base = [pa, pb, sp, pc];
        for perm in permutations(4) {
            let pats: Vec<Pattern> = perm.iter().map(|i| base[*i].clone()).collect();
            let idx = |name: &str| pats.iter().position(|p| p.name == name).unwrap();
            let t = Table {
                patterns: pats.clone(),
                cols: vec![
                    Col { refs: vec![(idx("a"), 1)], ty: "text", modifier: "" },
                    Col { refs: vec![(idx("b"), 1)], ty: "int", modifier: "" },
                    Col { refs: vec![(idx("f"), 2)], ty: "text", modifier: "DEFAULT" },
                    Col { refs: vec![(idx("c"), 1)], ty: "text", modifier: "" },
                    Col { refs: vec![(idx("f"), 1), (idx("b"), 1)], ty: "text[]", modifier: "" },
                ],
            };
            for l in ["k=v id=7 z", "id=7", "k=v", "zzz", "never x", "k=v k=w id=1 id=2", ""] {
                work.push((t.clone(), l.to_string(), "F-multi-pattern"));
            }
        }
    }
    // TIMESTAMP read from one group: every single-character substitution / deletion / insertion of a valid literal
    {
        let base: Vec<char> = "2021-06-01 16:55:11".chars().collect();
        let alpha = ['+', '-', '.', ':', ' ', 'x', '0', '9', 'T', '/', '٣'];
        let mut toks: Vec<String> = vec![base.iter().collect(), "2021-06-01 16:55".into(), "2021-06-01".into(), "2021-06-01 16:55:11.5".into(), "2021-06-01 16:55:11 x".into(), "2021-02-29 00:00:00".into(), "2020-02-29 00:00:00".into(), "2021-06-01 24:00:00".into(), "2021-06-01 23:59:60".into(), "2021-13-01 00:00:00".into(), "2021-00-10 00:00:00".into(), "2021-06-31 00:00:00".into()];
        for i in 0..=base.len() {
            for a in alpha {
                let mut ins = base.clone();
                ins.insert(i, a);
                toks.push(ins.iter().collect());
                if i < base.len() && base[i] != a {
                    let mut sub = base.clone();
                    sub[i] = a;
                    toks.push(sub.iter().collect());
                }
            }
            if i < base.len() {
                let mut del = base.clone();
                del.remove(i);
                toks.push(del.iter().collect());
            }
        }
        toks.sort();
        toks.dedup();
        for m in ["", "DEFAULT"] {
            let t = Table { patterns: vec![cap("l", "^ts=(.*);$")], cols: vec![Col { refs: vec![(0, 1)], ty: "timestamp", modifier: m }] };
            for tk in &toks {
                work.push((t.clone(), format!("ts={};", tk), "G-timestamp-literal"));
            }
        }
    }
    let total = work.len() as u64;
    let (done, complete) = par_for_budget(ctx, total, 256, |idx| {
        let (t, l, layer) = &work[idx as usize];
        let (fs, nt, okey) = judge(t, l, layer, l.len() as u64);
        col.eval(1);
        if nt {
            col.nontrivial(h64(&(table_sql(t), l)));
        }
        col.outcome(okey);
        if idx % 30011 == 7 {
            col.sample(json!({"layer": layer, "definition": table_sql(t), "line": l}));
        }
        for f in fs {
            col.fail(f);
        }
    });
    col.layer("definitions x lines", done, complete, json!({"cases": total, "date_lines": date_lines.len(), "p1_lines": p1_lines().len()}));
    finish(
        ctx,
        &col,
        Finish {
            level: "exploration",
            rule: "CREATE TABLE texts from a column-spec alphabet (6 types x group indexes {0,1,2,3,9} x {-, NOT NULL, DEFAULT, TRIM}; arrays over reference lists; timestamps over 2..7 references x {-, MICROSECONDS, DEFAULT}; capture / split / inline / several patterns; column pairs) x lines built from per-slot token alphabets (empty, extremes, non-literals, non-ASCII digits, out-of-range date parts; quick: <= 2 date slots varied from a valid baseline, thorough: all pairs of slots); oracle: reference extractor (regex crate as matcher + own literal grammars + own calendar). Non-trivial: a referenced group took part in the match (a conversion decided the value), or the row is cut by NOT NULL.".into(),
            exhaustive: true,
            assumptions: vec!["regex crate trusted as matcher".into(), "a non-numeric date part: NULL or DEFAULT accepted".into(), "TZ=UTC".into()],
            bounds: json!({"cases": total}),
        },
    )
}

pub fn replay(case: &J) -> Vec<Failure> {
    if case["layer"].as_str() == Some("K") {
        return control_chars_layer(&Collector::new()).into_iter().filter(|f| f.case == *case).collect();
    }
    // the definition text and the line are the complete case: rebuild the Table by searching the (cheap) work list is not
    // needed - the reference extractor needs the structured table, so regenerate the work list and match on text
    let def = case["definition"].as_str().unwrap_or("").to_string();
    let line = case["line"].as_str().unwrap_or("").to_string();
    let found: std::sync::Mutex<Vec<Failure>> = std::sync::Mutex::new(vec![]);
    REPLAY_TARGET.with(|t| *t.borrow_mut() = Some((def, line)));
    let _ = &found;
    replay_scan()
}

thread_local! {
    static REPLAY_TARGET: std::cell::RefCell<Option<(String, String)>> = std::cell::RefCell::new(None);
}

fn replay_scan() -> Vec<Failure> {
    let (def, line) = REPLAY_TARGET.with(|t| t.borrow().clone()).unwrap();
    // regenerate candidate tables (same construction as run(), lines ignored)
    let mut tables: Vec<Table> = Vec::new();
    for (ty, m) in scalar_specs() {
        for g in [0usize, 1, 2, 3, 9] {
            tables.push(Table { patterns: vec![cap("line", P1)], cols: vec![Col { refs: vec![(0, g)], ty, modifier: m }] });
        }
        for re in [";", "\\s+"] {
            for g in [0usize, 1, 2, 3] {
                tables.push(Table { patterns: vec![Pattern { name: "line".into(), regex: re.into(), split: true, inline: false }], cols: vec![Col { refs: vec![(0, g)], ty, modifier: m }] });
            }
        }
    }
    for n in 2..=7usize {
        for m in ["", "MICROSECONDS", "DEFAULT"] {
            tables.push(Table { patterns: vec![cap("d", P3)], cols: vec![Col { refs: (1..=n).map(|g| (0, g)).collect(), ty: "timestamp", modifier: m }] });
        }
    }
    tables.push(Table { patterns: vec![cap("d", P3)], cols: vec![Col { refs: vec![(0, 1), (0, 3), (0, 2)], ty: "timestamp", modifier: "" }] });
    for el in ["int", "text", "real", "boolean"] {
        for refs in [vec![1usize, 2], vec![2, 3], vec![3, 9], vec![2, 2, 1]] {
            let ty: &'static str = Box::leak(format!("{}[]", el).into_boxed_str());
            tables.push(Table { patterns: vec![cap("line", P1)], cols: vec![Col { refs: refs.iter().map(|g| (0, *g)).collect(), ty, modifier: "" }] });
        }
    }
    let pair_specs: Vec<(&str, &str, usize)> = vec![("int", "", 2), ("text", "NOT NULL", 3), ("int", "NOT NULL", 2), ("text", "DEFAULT", 3), ("boolean", "", 3), ("text", "TRIM", 2), ("real", "", 2)];
    for (ta, ma, ga) in &pair_specs {
        for (tb, mb, gb) in &pair_specs {
            tables.push(Table { patterns: vec![cap("line", P1)], cols: vec![Col { refs: vec![(0, *ga)], ty: ta, modifier: ma }, Col { refs: vec![(0, *gb)], ty: tb, modifier: mb }] });
        }
    }
    tables.push(Table { patterns: vec![cap("a", P1), cap("b", P2), Pattern { name: "_pattern2".into(), regex: "id=(\\d+)".into(), split: false, inline: true }], cols: vec![Col { refs: vec![(0, 2)], ty: "int", modifier: "" }, Col { refs: vec![(1, 1)], ty: "int", modifier: "" }, Col { refs: vec![(1, 2)], ty: "text", modifier: "DEFAULT" }, Col { refs: vec![(2, 1)], ty: "int", modifier: "" }, Col { refs: vec![(1, 0)], ty: "text", modifier: "" }] });
    for re in [",", "\\s+"] {
        let sp = Pattern { name: "f".into(), regex: re.into(), split: true, inline: false };
        tables.push(Table { patterns: vec![sp.clone()], cols: vec![Col { refs: vec![(0, 1)], ty: "text", modifier: "" }, Col { refs: vec![(0, 2), (0, 3), (0, 4)], ty: "text[]", modifier: "" }] });
        tables.push(Table { patterns: vec![sp.clone()], cols: vec![Col { refs: vec![(0, 1)], ty: "int", modifier: "" }, Col { refs: vec![(0, 2), (0, 3), (0, 4), (0, 5), (0, 6), (0, 7)], ty: "timestamp", modifier: "" }] });
        tables.push(Table { patterns: vec![sp.clone()], cols: vec![Col { refs: vec![(0, 3), (0, 1)], ty: "int[]", modifier: "" }, Col { refs: vec![(0, 2)], ty: "text", modifier: "DEFAULT" }, Col { refs: vec![(0, 0)], ty: "text", modifier: "" }] });
    }
    for g in [1usize, 2] {
        tables.push(Table { patterns: vec![cap("w", "^<(.*)>,<(.*)>$")], cols: vec![Col { refs: vec![(0, g)], ty: "text", modifier: "TRIM" }, Col { refs: vec![(0, 3 - g)], ty: "text", modifier: "" }] });
    }
    for t in tables {
        if table_sql(&t) == def {
            return judge(&t, &line, "replay", 0).0;
        }
    }
    vec![]
}
