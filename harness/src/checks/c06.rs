//! C06 — lines that yield no row are invisible to every query.
//!
//! Metamorphic: output(input) == output(input with non-admitted lines inserted at any positions), for a corpus of
//! plain / DISTINCT / LIMIT / aggregate / join statements (noise on either side of the join), batch and incremental
//! drivers, one and two insertions at every position. The "iff" half: tables with DEFAULT / NOT NULL columns, where the
//! same texts are (not) noise, are checked against the admission rule computed from the query-visible columns.

use serde_json::{json, Value as J};

use sqlgrep::data_model::Tables;

use crate::checks::fail;
use crate::core::*;
use crate::gen::*;
use crate::sut::{self, FileRunOpts, Outcome};

const RDEF: &str = "CREATE TABLE n(line = '^([a-z]+) ([0-9]+)?$', line[1] => k TEXT, line[2] => v INT NOT NULL);\nCREATE TABLE d(line = '^([a-z]+) ([0-9]+)?$', line[1] => k TEXT, line[2] => v INT DEFAULT 7);\nCREATE TABLE o(line = '^([a-z]+) ([0-9]+)?$', line[2] => v INT);\nCREATE TABLE nd(line = '^([a-z]+) ([0-9]+)?$', line[1] => k TEXT NOT NULL, line[2] => v INT DEFAULT 7);\nCREATE TABLE dn('^([a-z]+) ' => k TEXT DEFAULT 'none', '([0-9]+)$' => v INT NOT NULL);";

fn rlines() -> Vec<&'static str> {
    vec!["a 1", "b 2", "a 3"]
}

/// noise for table n (NOT NULL v): pattern does not match / v missing
fn rnoise() -> Vec<&'static str> {
    vec!["", "A 1", "a ", "zzz 9x", "a  1", "1 a"]
}

struct World {
    tables: Tables,
    stmts: Vec<(String, bool)>, // (text, uses table t (json) or n (regex))
    joined_clean: String,
    _tmp: sut::TempFiles,
}

fn world() -> World {
    let tables = sut::make_tables(&format!("{}\n{}\n{}", JDEF, JDEF_U, RDEF)).unwrap();
    let joined = "{\"k\":\"a\",\"y\":1}\n{\"k\":\"b\",\"y\":3}\n{\"k\":\"a\",\"y\":2}\n";
    let tmp = sut::TempFiles::new(&[joined.as_bytes()]);
    let jp = tmp.paths[0].clone();
    let mut stmts: Vec<(String, bool)> = Vec::new();
    for s in select_corpus() {
        stmts.push((s.to_string(), true));
    }
    for s in ["SELECT k, v FROM t LIMIT 2", "SELECT DISTINCT k FROM t LIMIT 1", "SELECT k, COUNT(*), SUM(v), MIN(s) FROM t GROUP BY k", "SELECT COUNT(*), COUNT(DISTINCT v), ARRAY_AGG(v) FROM t", "SELECT k, COUNT(*) FROM t GROUP BY k HAVING COUNT(*) > 1", "SELECT k, STRING_AGG(s, ',') FROM t GROUP BY k LIMIT 1", "SELECT PERCENTILE(v, 0.5), AVG(v), BOOL_AND(b) FROM t"] {
        stmts.push((s.to_string(), true));
    }
    stmts.push((format!("SELECT t.k, v, y FROM t INNER JOIN u::'{}' ON t.k = u.k", jp), true));
    stmts.push((format!("SELECT t.k, y FROM t OUTER JOIN u::'{}' ON t.k = u.k LIMIT 3", jp), true));
    stmts.push((format!("SELECT t.k, COUNT(*), SUM(y) FROM t INNER JOIN u::'{}' ON t.k = u.k GROUP BY t.k", jp), true));
    for s in ["SELECT k, v FROM n", "SELECT DISTINCT k FROM n LIMIT 2", "SELECT k, COUNT(*), SUM(v) FROM n GROUP BY k", "SELECT input FROM n WHERE v > 1"] {
        stmts.push((s.to_string(), false));
    }
    World { tables, stmts, joined_clean: joined.to_string(), _tmp: tmp }
}

#[derive(Clone, Debug)]
struct Obs {
    printed: Vec<String>,
    result_ok: bool,
}

fn batch(w: &World, text: &str, lines: &[&str]) -> Option<Obs> {
    let st = sut::parse(text).ok()?;
    let files = sut::files_from(lines, &[lines.len()]);
    match sut::run_files(&w.tables, &st, &[files[0].as_slice()], FileRunOpts::default()) {
        Outcome::Ok(fr) => Some(Obs { printed: fr.printed.clone(), result_ok: fr.result.is_ok() }),
        _ => None,
    }
}

/// incremental driver: everything that is shown while the lines are fed one at a time (every emitted row set / every
/// shown table with its reached-limit flag, in order), through the engine directly and through the real follow-mode
/// line iterator
fn incremental(w: &World, text: &str, lines: &[&str]) -> Option<Vec<String>> {
    let st = sut::parse(text).ok()?;
    if st.join_clause().is_some() {
        return None;
    }
    let shown = |steps: &Vec<sut::StepOut>| -> Vec<String> { steps.iter().filter(|s| s.table.is_some()).map(|s| format!("{:?} limit={}", s.table.as_ref().unwrap().rows, s.reached_limit)).collect() };
    let a = match sut::run_incremental(&w.tables, &st, lines) {
        Outcome::Ok(steps) => {
            // stop at the limit like the executors do
            let mut cut = Vec::new();
            for s in steps {
                let r = s.reached_limit && s.table.is_some();
                cut.push(s);
                if r {
                    break;
                }
            }
            shown(&cut)
        }
        _ => return None,
    };
    let files = sut::files_from(lines, &[lines.len()]);
    let f = match sut::run_follow(&w.tables, &st, &files[0]) {
        Outcome::Ok(steps) => shown(&steps),
        Outcome::Err(e) => vec![format!("error {}", e)],
        Outcome::Panic(p) => vec![format!("panic {}", p.msg)],
    };
    let mut out = a;
    out.push("--follow--".into());
    out.extend(f);
    Some(out)
}

fn insertions(len: usize, noise: usize, two: bool) -> Vec<Vec<(usize, usize)>> {
    // (position, noise index) lists; positions refer to the clean sequence (insert before that index)
    let mut out = Vec::new();
    for p in 0..=len {
        for n in 0..noise {
            out.push(vec![(p, n)]);
        }
    }
    if two {
        for p in 0..=len {
            for q in p..=len {
                for n in 0..noise {
                    out.push(vec![(p, n), (q, (n + 1) % noise)]);
                }
            }
        }
    }
    out
}

fn apply<'a>(clean: &[&'a str], ins: &[(usize, usize)], noise: &[&'a str]) -> Vec<&'a str> {
    let mut out = Vec::new();
    for i in 0..=clean.len() {
        for (p, n) in ins {
            if *p == i {
                out.push(noise[*n]);
            }
        }
        if i < clean.len() {
            out.push(clean[i]);
        }
    }
    out
}

fn check_case(w: &World, si: usize, seq: &[u8], only: Option<&Vec<(usize, usize)>>, two: bool) -> (Vec<Failure>, u64, u64) {
    let (text, json_table) = &w.stmts[si];
    let (alpha, noise): (Vec<&str>, Vec<&str>) = if *json_table { (jlines()[..5].to_vec(), jnoise()) } else { (rlines(), rnoise()) };
    let clean: Vec<&str> = seq.iter().map(|i| alpha[*i as usize % alpha.len()]).collect();
    let base = match batch(w, text, &clean) {
        Some(b) if b.result_ok => b,
        _ => return (vec![], 1, 0),
    };
    let base_inc = incremental(w, text, &clean);
    let mut out = Vec::new();
    let mut evals = 1;
    let mut nontrivial = 0;
    let all = insertions(clean.len(), noise.len(), two);
    let list: Vec<&Vec<(usize, usize)>> = match only {
        Some(o) => vec![o],
        None => all.iter().collect(),
    };
    let kind = if text.contains("JOIN") { "join" } else if text.contains("LIMIT") { "limit" } else if text.contains("DISTINCT") { "distinct" } else if sut::parse(text).map(|s| s.is_aggregate()).unwrap_or(false) { "aggregate" } else { "select" };
    for ins in list {
        let noisy = apply(&clean, ins, &noise);
        evals += 1;
        if !base.printed.is_empty() && ins.iter().any(|(p, _)| *p < clean.len()) {
            nontrivial += 1;
        }
        let got = batch(w, text, &noisy);
        let same = matches!(&got, Some(g) if g.printed == base.printed && g.result_ok);
        if !same {
            out.push(fail(
                format!("noise-visible:batch:{}", kind),
                format!("`{}`: output changes when non-admitted lines {:?} are inserted at {:?}", text, ins.iter().map(|(_, n)| noise[*n]).collect::<Vec<_>>(), ins.iter().map(|(p, _)| p).collect::<Vec<_>>()),
                json!({"stmt": si, "statement": text, "seq": seq, "clean": clean, "insertions": ins, "noisy": noisy, "driver": "batch"}),
                json!(base.printed),
                json!(got.map(|g| g.printed)),
                (clean.len() * 10 + ins.len()) as u64,
            ));
        }
        // the same lines spread over two input files, the first one ending without a line break
        if let Ok(st) = sut::parse(text) {
            for cut in 1..noisy.len() {
                let mut files = sut::files_from(&noisy, &[cut, noisy.len() - cut]);
                files[0].pop();
                evals += 1;
                let got = match sut::run_files(&w.tables, &st, &[files[0].as_slice(), files[1].as_slice()], FileRunOpts::default()) {
                    Outcome::Ok(fr) if fr.result.is_ok() => Some(fr.printed.clone()),
                    _ => None,
                };
                if got.as_ref() != Some(&base.printed) {
                    out.push(fail(
                        format!("noise-visible:two-files:{}", kind),
                        format!("`{}`: output changes when the lines (with non-admitted lines {:?} inserted at {:?}) are split into two files after line {} and the first file has no final line break", text, ins.iter().map(|(_, n)| noise[*n]).collect::<Vec<_>>(), ins.iter().map(|(p, _)| p).collect::<Vec<_>>(), cut),
                        json!({"stmt": si, "statement": text, "seq": seq, "clean": clean, "insertions": ins, "noisy": noisy, "driver": "two-files", "cut": cut}),
                        json!(base.printed),
                        json!(got),
                        (clean.len() * 10 + ins.len()) as u64,
                    ));
                }
            }
        }
        if let Some(bi) = &base_inc {
            evals += 1;
            let gi = incremental(w, text, &noisy);
            if gi.as_ref() != Some(bi) {
                out.push(fail(
                    format!("noise-visible:incremental:{}", kind),
                    format!("`{}` (incremental): visible result changes when non-admitted lines are inserted at {:?}", text, ins.iter().map(|(p, _)| p).collect::<Vec<_>>()),
                    json!({"stmt": si, "statement": text, "seq": seq, "clean": clean, "insertions": ins, "noisy": noisy, "driver": "incremental"}),
                    json!(bi),
                    json!(gi),
                    (clean.len() * 10 + ins.len()) as u64,
                ));
            }
        }
    }
    (out, evals, nontrivial)
}

/// noise on the joined side: the joined file with noise lines inserted must give the same output
fn joined_side(w: &World) -> (Vec<Failure>, u64) {
    let mut out = Vec::new();
    let mut n = 0;
    let clean: Vec<&str> = w.joined_clean.lines().collect();
    let noise = jnoise();
    let main: Vec<&str> = vec![jlines()[0], jlines()[2], jlines()[3], jlines()[4], jlines()[1]];
    for text_t in ["SELECT t.k, v, y FROM t INNER JOIN u::'{}' ON t.k = u.k", "SELECT t.k, y FROM t OUTER JOIN u::'{}' ON t.k = u.k", "SELECT t.k, COUNT(*), SUM(y) FROM t INNER JOIN u::'{}' ON t.k = u.k GROUP BY t.k"] {
        let mut base: Option<Obs> = None;
        for ins in std::iter::once(vec![]).chain(insertions(clean.len(), noise.len(), true)) {
            let jl = apply(&clean, &ins, &noise);
            let jf = sut::files_from(&jl, &[jl.len()]);
            let tmp = sut::TempFiles::new(&[jf[0].as_slice()]);
            let text = text_t.replace("{}", &tmp.paths[0]);
            let o = batch(w, &text, &main);
            n += 1;
            match (&base, &o) {
                (None, Some(b)) => base = Some(b.clone()),
                (Some(b), Some(g)) if b.printed == g.printed && g.result_ok == b.result_ok => {}
                _ => out.push(fail(
                    "noise-visible:joined-side".into(),
                    format!("`{}`: output changes when non-admitted lines are inserted into the joined file at {:?}", text_t, ins),
                    json!({"layer": "joined", "statement": text_t, "insertions": ins}),
                    json!(base.as_ref().map(|b| b.printed.clone())),
                    json!(o.map(|g| g.printed)),
                    ins.len() as u64,
                )),
            }
        }
    }
    (out, n)
}

/// the iff half: which texts are rows. Observed through `SELECT input` / COUNT(*) on tables n (NOT NULL), d (DEFAULT), o (single column)
fn admission(w: &World) -> (Vec<Failure>, u64) {
    let mut out = Vec::new();
    let texts = ["a 1", "a ", "b 22", "zzz 9x", "", "A 1", "a  1", "q "];
    // reference: pattern ^([a-z]+) ([0-9]+)?$ ; k = group1, v = group2 parsed as INT
    let re = regex::Regex::new("^([a-z]+) ([0-9]+)?$").unwrap();
    let mut n = 0;
    for t in texts {
        let caps = re.captures(t);
        let k = caps.as_ref().and_then(|c| c.get(1)).is_some();
        let v = caps.as_ref().and_then(|c| c.get(2)).and_then(|m| m.as_str().parse::<i64>().ok()).is_some();
        // table n: v NOT NULL -> row iff v ; table d: DEFAULT 7 counts as a value -> always a row; table o: only v -> row iff v
        let v_tail = regex::Regex::new("([0-9]+)$").unwrap().captures(t).and_then(|c| c.get(1)).and_then(|m| m.as_str().parse::<i64>().ok()).is_some();
        for (table, expect) in [("n", v && (k || v)), ("d", true), ("o", v), ("nd", k), ("dn", v_tail)] {
            let st = sut::parse(&format!("SELECT COUNT(*) FROM {}", table)).unwrap();
            let r = sut::run_batch(&w.tables, &st, &[t]);
            n += 1;
            let rows = match &r {
                Outcome::Ok(tb) => tb.rows.get(0).map(|r| matches!(r[0], sut::RVal::Int(1))).unwrap_or(false),
                _ => false,
            };
            if rows != expect {
                out.push(fail(
                    format!("admission-rule:{}:{}", table, if expect { "row-missing" } else { "unexpected-row" }),
                    format!("line {:?} on table {}: admitted={} but the rule (>=1 non-NULL column incl. DEFAULT, every NOT NULL column non-NULL) says {}", t, table, rows, expect),
                    json!({"layer": "admission", "table": table, "line": t}),
                    json!(expect),
                    json!(rows),
                    t.len() as u64,
                ));
            }
        }
    }
    (out, n)
}

/// generated tables: every ordered choice of 2..3 columns out of {JSON .a, JSON .b, inline regex k} x {-, NOT NULL, DEFAULT}
/// x a line alphabet; reference: row iff >= 1 column non-NULL (DEFAULT counts) and every NOT NULL column non-NULL
fn admission_generated() -> (Vec<Failure>, u64) {
    let mut out = Vec::new();
    let lines = ["{\"a\":1,\"b\":2,\"k\":\"z\"}", "{\"a\":1}", "{\"b\":2}", "{\"k\":\"z\"}", "{}", "{\"a\":null,\"b\":2}", "{\"a\":\"x\",\"b\":2}", "{\"a\":1,\"k\":\"z\"}", "{\"b\":2,\"k\":\"z\"}", "not json \"k\":\"z\"", "not json", "", "flag=on", "flag=", "{\"a\":1} flag=", "n=9999999999999999999", "n=12 flag=on", "{\"a\":1} n=9223372036854775808"];
    let kinds = ["a", "b", "k", "f", "n"];
    let mods = ["", " NOT NULL", " DEFAULT"];
    let mut specs: Vec<Vec<(usize, usize)>> = Vec::new();
    for x in 0..5 {
        for y in 0..5 {
            if x == y {
                continue;
            }
            for mx in 0..3 {
                for my in 0..3 {
                    specs.push(vec![(x, mx), (y, my)]);
                    for z in 0..5 {
                        if z != x && z != y {
                            for mz in 0..3 {
                                specs.push(vec![(x, mx), (y, my), (z, mz)]);
                            }
                        }
                    }
                }
            }
        }
    }
    let kre = regex::Regex::new("\"k\":\"([a-z]+)\"").unwrap();
    let mut n = 0u64;
    for spec in &specs {
        let cols: Vec<String> = spec
            .iter()
            .map(|(k, m)| {
                let m_text = match (kinds[*k], mods[*m]) {
                    ("k", " DEFAULT") => " DEFAULT 'd'".to_string(),
                    ("f", " DEFAULT") => " DEFAULT TRUE".to_string(),
                    (_, " DEFAULT") => " DEFAULT 7".to_string(),
                    (_, x) => x.to_string(),
                };
                if kinds[*k] == "k" {
                    format!("'\"k\":\"([a-z]+)\"' => k TEXT{}", m_text)
                } else if kinds[*k] == "n" {
                    // INT from a run of digits: a number outside the INT range is not a value
                    format!("'n=([0-9]+)' => n INT{}", m_text)
                } else if kinds[*k] == "f" {
                    // BOOLEAN: whether the group took part, NULL (or the DEFAULT) when the pattern did not match at all
                    format!("'flag=(on)?' => f BOOLEAN{}", m_text)
                } else {
                    format!("{{ .{} }} => {} INT{}", kinds[*k], kinds[*k], m_text)
                }
            })
            .collect();
        let def = format!("CREATE TABLE g({});", cols.join(", "));
        let tables = match sut::make_tables(&def) {
            Ok(t) => t,
            Err(e) => {
                out.push(fail("admission-generated:definition-rejected".into(), format!("`{}` rejected: {}", def, e), json!({"layer": "admission-generated", "definition": def}), json!("accepted"), json!(e), 0));
                continue;
            }
        };
        let st = sut::parse("SELECT COUNT(*) FROM g").unwrap();
        for line in lines {
            let doc: Option<J> = serde_json::from_str(line).ok();
            let mut any = false;
            let mut all_required = true;
            for (k, m) in spec {
                let nre = regex::Regex::new("n=([0-9]+)").unwrap();
                let ncap = nre.captures(line).map(|c| c[1].to_string());
                let present = if kinds[*k] == "k" { kre.is_match(line) } else if kinds[*k] == "f" { line.contains("flag=") } else if kinds[*k] == "n" { ncap.is_some() } else { doc.as_ref().and_then(|d| d.get(kinds[*k])).is_some() };
                let value = if kinds[*k] == "k" || kinds[*k] == "f" { present } else if kinds[*k] == "n" { ncap.as_ref().map(|t| t.parse::<i64>().is_ok()).unwrap_or(false) } else { doc.as_ref().and_then(|d| d.get(kinds[*k])).map(|v| v.is_i64()).unwrap_or(false) };
                let non_null = value || (!present && mods[*m] == " DEFAULT");
                any |= non_null;
                if mods[*m] == " NOT NULL" && !non_null {
                    all_required = false;
                }
            }
            let expect = any && all_required;
            n += 1;
            let got = match sut::run_batch(&tables, &st, &[line]) {
                Outcome::Ok(tb) => tb.rows.get(0).map(|r| matches!(r[0], sut::RVal::Int(1))).unwrap_or(false),
                _ => false,
            };
            if got != expect {
                out.push(fail(
                    format!("admission-generated:{}:{}", spec.iter().map(|(k, m)| format!("{}{}", kinds[*k], mods[*m].replace(' ', "_"))).collect::<Vec<_>>().join(","), if expect { "row-missing" } else { "unexpected-row" }),
                    format!("line {:?} on `{}`: admitted={} but the rule says {}", line, def, got, expect),
                    json!({"layer": "admission-generated", "definition": def, "line": line}),
                    json!(expect),
                    json!(got),
                    (def.len() + line.len()) as u64,
                ));
            }
        }
    }
    (out, n)
}

pub fn run(ctx: &Ctx) -> i32 {
    let col = Collector::new();
    let w = world();
    let maxlen = ctx.tier.pick(2, 4) as u32;
    let two = true;
    let k = 5u64;
    let nseq = seq_count(k, maxlen);
    let nst = w.stmts.len() as u64;
    let describe = |idx: u64| {
        let si = (idx % nst) as usize;
        let seq = seq_decode(idx / nst, k, maxlen);
        json!({"hang": true, "stmt": si, "statement": w.stmts[si].0, "seq": seq, "note": "one of the noise insertions for this (statement, clean sequence) did not return"})
    };
    let (done, complete) = par_for_watch(ctx, nseq * nst, 4, &describe, |idx| {
        let si = (idx % nst) as usize;
        let seq = seq_decode(idx / nst, k, maxlen);
        let (fs, evals, nt) = check_case(&w, si, &seq, None, two);
        col.eval(evals);
        for i in 0..nt {
            col.nontrivial(h64(&(si, &seq, i)));
        }
        col.outcome(h64(&(si, fs.len(), nt)));
        if idx % 397 == 11 {
            col.sample(json!({"statement": w.stmts[si].0, "clean_lines": seq, "noise": "every single and double insertion of the noise alphabet at every position"}));
        }
        for f in fs {
            col.fail(f);
        }
    });
    col.layer("noise insertion (main input)", done, complete, json!({"statements": nst, "max_len": maxlen, "json_noise": jnoise(), "regex_noise": rnoise()}));
    let (fs, n) = joined_side(&w);
    col.eval(n);
    for f in fs {
        col.fail(f);
    }
    col.layer("noise insertion (joined file)", n, true, json!({}));
    let (fs, n) = admission(&w);
    col.eval(n);
    for f in fs {
        col.fail(f);
    }
    col.layer("admission rule (iff half)", n, true, json!({}));
    // statements over inputs with non-admitted lines, through every driver
    {
        let defs = format!("{}\n{}\n{}", JDEF, JDEF_U, RDEF);
        let jl = jlines();
        let jn = jnoise();
        let jin: Vec<String> = vec![jn[0].to_string(), jl[0].to_string(), jn[1 % jn.len()].to_string(), jl[2].to_string(), jl[1].to_string(), jn[2 % jn.len()].to_string()];
        let rl = rlines();
        let rn = rnoise();
        let rin: Vec<String> = vec![rl[0].to_string(), rn[1].to_string(), rl[1].to_string(), rn[3].to_string(), rl[2].to_string(), rn[2].to_string()];
        let mut cases: Vec<(String, String, Vec<String>, bool)> = Vec::new();
        for (i, (text, json_table)) in w.stmts.iter().enumerate() {
            cases.push((defs.clone(), text.clone(), if *json_table { jin.clone() } else { rin.clone() }, i % 2 == 0));
        }
        crate::drivers::run_layer(&col, &cases, &|s| if s.contains("JOIN") { "join".to_string() } else if s.contains("GROUP BY") || s.contains("COUNT(") { "aggregate".to_string() } else { "select".to_string() });
    }
    let (fs, n) = admission_generated();
    col.eval(n);
    for f in fs {
        col.fail(f);
    }
    col.layer("admission rule (generated tables)", n, true, json!({"columns": "2..3 of {JSON .a, JSON .b, inline regex k TEXT, inline regex f BOOLEAN} in every order", "modifiers": ["", "NOT NULL", "DEFAULT"], "lines": 15}));
    finish(
        ctx,
        &col,
        Finish {
            level: "exploration",
            rule: "metamorphic: for every statement of the corpus x every clean line sequence up to the bound x every single and double insertion of every noise line at every position x {batch FileExecutor, incremental engine}: identical printed output / visible result; noise inserted into the joined file; admission rule on NOT NULL / DEFAULT / single-column tables. Non-trivial: the noise-free run outputs >= 1 record and the noise is inserted before the last admitted line.".into(),
            exhaustive: true,
            assumptions: vec!["same-build metamorphic oracle; the admission rule itself is additionally checked against C01's reference".into()],
            bounds: json!({"max_clean_lines": maxlen, "insertions": "1 and 2"}),
        },
    )
}

pub fn replay(case: &J) -> Vec<Failure> {
    let w = world();
    match case["layer"].as_str() {
        Some("joined") => joined_side(&w).0,
        Some("admission") => admission(&w).0,
        Some("admission-generated") => admission_generated().0.into_iter().filter(|f| f.case == *case).collect(),
        _ => {
            let seq: Vec<u8> = case["seq"].as_array().unwrap().iter().map(|x| x.as_u64().unwrap() as u8).collect();
            let ins: Vec<(usize, usize)> = case["insertions"].as_array().unwrap().iter().map(|p| (p[0].as_u64().unwrap() as usize, p[1].as_u64().unwrap() as usize)).collect();
            let drv = case["driver"].as_str().unwrap_or("batch").to_string();
            check_case(&w, case["stmt"].as_u64().unwrap() as usize, &seq, Some(&ins), true).0.into_iter().filter(|f| f.case["driver"].as_str() == Some(&drv)).collect()
        }
    }
}
