//! C16 — value equality, ordering and hashing agree and form a total order.
//!
//! Layer A: laws on `sqlgrep::model::Value`'s own `==`, `<`, `>`, `cmp`, `partial_cmp`, `Hash`
//!          for all same-type pairs and triples of a value domain.
//! Layer B: consumers (GROUP BY, DISTINCT, COUNT(DISTINCT), array_unique, JOIN lookup, WHERE comparisons,
//!          INT-vs-REAL comparisons) on all sequences of <=3 values of REAL / INT / TEXT token domains.

use std::cmp::Ordering;
use std::collections::hash_map::DefaultHasher;
use std::hash::{Hash, Hasher};

use chrono::TimeZone;
use serde_json::{json, Value as J};

use sqlgrep::model::{Float, Value, ValueType};

use crate::checks::fail;
use crate::core::*;
use crate::sut::{self, Outcome, RVal};

fn ts(secs: i64, micros: u32) -> Value {
    Value::Timestamp(chrono::Local.timestamp_opt(secs, micros * 1000).unwrap())
}

fn domain() -> Vec<(String, Value)> {
    let f = |x: f64| Value::Float(Float(x));
    let nan2 = f64::from_bits(f64::NAN.to_bits() | 1);
    let s = |x: &str| Value::String(x.to_string());
    let arr = |t: ValueType, v: Vec<Value>| Value::Array(t, v);
    let iv = |ms: i64| Value::Interval(chrono::Duration::milliseconds(ms));
    let mut d: Vec<(String, Value)> = vec![
        ("NULL".into(), Value::Null),
        ("INT:min".into(), Value::Int(i64::MIN)),
        ("INT:-1".into(), Value::Int(-1)),
        ("INT:0".into(), Value::Int(0)),
        ("INT:1".into(), Value::Int(1)),
        ("INT:2^53".into(), Value::Int(1 << 53)),
        ("INT:2^53+1".into(), Value::Int((1 << 53) + 1)),
        ("INT:max".into(), Value::Int(i64::MAX)),
        ("REAL:-inf".into(), f(f64::NEG_INFINITY)),
        ("REAL:-1.0".into(), f(-1.0)),
        ("REAL:-0.0".into(), f(-0.0)),
        ("REAL:0.0".into(), f(0.0)),
        ("REAL:5e-324".into(), f(5e-324)),
        ("REAL:0.5".into(), f(0.5)),
        ("REAL:0.5+1ulp".into(), f(f64::from_bits(0.5f64.to_bits() + 1))),
        ("REAL:0.5+2ulp".into(), f(f64::from_bits(0.5f64.to_bits() + 2))),
        ("REAL:1.0".into(), f(1.0)),
        ("REAL:2^53".into(), f(9007199254740992.0)),
        ("REAL:9.3e18".into(), f(9.3e18)),
        ("REAL:inf".into(), f(f64::INFINITY)),
        ("REAL:NaN".into(), f(f64::NAN)),
        ("REAL:NaN'".into(), f(nan2)),
        ("BOOLEAN:false".into(), Value::Bool(false)),
        ("BOOLEAN:true".into(), Value::Bool(true)),
        ("TEXT:''".into(), s("")),
        ("TEXT:a".into(), s("a")),
        ("TEXT:A".into(), s("A")),
        ("TEXT:é".into(), s("é")),
        ("TEXT:aa".into(), s("aa")),
        ("INT[]:{}".into(), arr(ValueType::Int, vec![])),
        ("INT[]:{1}".into(), arr(ValueType::Int, vec![Value::Int(1)])),
        ("INT[]:{1,2}".into(), arr(ValueType::Int, vec![Value::Int(1), Value::Int(2)])),
        ("INT[]:{NULL,2}".into(), arr(ValueType::Int, vec![Value::Null, Value::Int(2)])),
        ("INT[]:{2}".into(), arr(ValueType::Int, vec![Value::Int(2)])),
        ("REAL[]:{0.0}".into(), arr(ValueType::Float, vec![f(0.0)])),
        ("REAL[]:{-0.0}".into(), arr(ValueType::Float, vec![f(-0.0)])),
        ("REAL[]:{NaN}".into(), arr(ValueType::Float, vec![f(f64::NAN)])),
        ("REAL[]:{1.0}".into(), arr(ValueType::Float, vec![f(1.0)])),
        ("INT[][]:{{1}}".into(), arr(ValueType::Array(Box::new(ValueType::Int)), vec![arr(ValueType::Int, vec![Value::Int(1)])])),
        ("INT[][]:{{}}".into(), arr(ValueType::Array(Box::new(ValueType::Int)), vec![arr(ValueType::Int, vec![])])),
        ("TIMESTAMP:t0".into(), ts(1_600_000_000, 0)),
        ("TIMESTAMP:t0'".into(), Value::Timestamp(chrono::Local.from_local_datetime(&chrono::DateTime::from_timestamp(1_600_000_000, 0).unwrap().naive_utc()).unwrap())),
        ("TIMESTAMP:t0+1us".into(), ts(1_600_000_000, 1)),
        ("TIMESTAMP:t1".into(), ts(1_700_000_000, 0)),
        ("TIMESTAMP:epoch".into(), ts(0, 0)),
        ("INTERVAL:0".into(), iv(0)),
        ("INTERVAL:1s".into(), iv(1000)),
        ("INTERVAL:1000ms".into(), Value::Interval(chrono::Duration::seconds(1))),
        ("INTERVAL:-1s".into(), iv(-1000)),
    ];
    d.shrink_to_fit();
    d
}

fn type_of(label: &str) -> &str {
    label.split(':').next().unwrap()
}

fn sip(v: &Value) -> u64 {
    let mut h = DefaultHasher::new();
    v.hash(&mut h);
    h.finish()
}

fn fnvh(v: &Value) -> u64 {
    let mut h = fnv::FnvHasher::default();
    v.hash(&mut h);
    h.finish()
}

/// kind of a value for signatures: keeps NaN / zeros / infinities apart, lumps the rest
fn kind(label: &str) -> String {
    let (t, v) = label.split_once(':').unwrap_or((label, ""));
    let k = if v.contains("NaN") {
        "NaN"
    } else if v.contains("-0.0") {
        "-0.0"
    } else if v.contains("0.0") && !v.contains("1") {
        "0.0"
    } else if v.contains("inf") {
        "inf"
    } else {
        "x"
    };
    format!("{}:{}", t, k)
}

fn pair_laws(la: &str, a: &Value, lb: &str, b: &Value) -> Vec<(String, String)> {
    let mut out = Vec::new();
    let lt = a < b;
    let eq = a == b;
    let gt = a > b;
    let c = a.cmp(b);
    let sig = |law: &str| format!("law:{}:{}|{}", law, kind(la), kind(lb));
    if (lt as u8 + eq as u8 + gt as u8) != 1 {
        out.push((sig("trichotomy"), format!("a<b={} a==b={} a>b={} (exactly one must hold)", lt, eq, gt)));
    }
    if a.partial_cmp(b) != Some(c) {
        out.push((sig("partial_cmp=cmp"), format!("partial_cmp={:?} cmp={:?}", a.partial_cmp(b), c)));
    }
    if b.cmp(a) != c.reverse() {
        out.push((sig("antisymmetry"), format!("cmp(a,b)={:?} cmp(b,a)={:?}", c, b.cmp(a))));
    }
    if eq != (c == Ordering::Equal) {
        out.push((sig("eq-iff-cmp-equal"), format!("a==b is {} but cmp is {:?}", eq, c)));
    }
    if eq || c == Ordering::Equal {
        if sip(a) != sip(b) {
            out.push((sig("equal-hash-sip"), "values are equal (== or cmp) but SipHash differs".into()));
        }
        if fnvh(a) != fnvh(b) {
            out.push((sig("equal-hash-fnv"), "values are equal (== or cmp) but FNV hash differs".into()));
        }
    }
    out
}

fn le(o: Ordering) -> bool {
    o != Ordering::Greater
}

fn triple_laws(l: [&str; 3], v: [&Value; 3]) -> Vec<(String, String)> {
    let mut out = Vec::new();
    let (ab, bc, ac) = (v[0].cmp(v[1]), v[1].cmp(v[2]), v[0].cmp(v[2]));
    let sig = |law: &str| format!("law:{}:{}|{}|{}", law, kind(l[0]), kind(l[1]), kind(l[2]));
    if le(ab) && le(bc) && !le(ac) {
        out.push((sig("transitivity"), format!("a<=b, b<=c but cmp(a,c)={:?}", ac)));
    }
    if ab == Ordering::Equal && bc == Ordering::Equal && ac != Ordering::Equal {
        out.push((sig("eq-transitivity-cmp"), format!("cmp(a,b)=cmp(b,c)=Equal but cmp(a,c)={:?}", ac)));
    }
    if v[0] == v[1] && v[1] == v[2] && v[0] != v[2] {
        out.push((sig("eq-transitivity"), "a==b, b==c but a!=c".into()));
    }
    // strictness: a<b and b<c implies a<c with the operators
    if v[0] < v[1] && v[1] < v[2] && !(v[0] < v[2]) {
        out.push((sig("lt-transitivity"), "a<b, b<c but not a<c".into()));
    }
    out
}

fn layer_a_case(i: usize, j: usize, k: Option<usize>) -> Vec<Failure> {
    let d = domain();
    let mut out = Vec::new();
    let case = json!({"layer": "A", "i": i, "j": j, "k": k, "labels": [d[i].0, d[j].0, k.map(|k| d[k].0.clone())]});
    let res = catch(|| match k {
        None => pair_laws(&d[i].0, &d[i].1, &d[j].0, &d[j].1),
        Some(k) => triple_laws([&d[i].0, &d[j].0, &d[k].0], [&d[i].1, &d[j].1, &d[k].1]),
    });
    match res {
        Ok(v) => {
            for (sig, what) in v {
                out.push(fail(sig, format!("{} for {:?}", what, case["labels"]), case.clone(), json!("law holds"), json!(what), (i * 100 + j) as u64));
            }
        }
        Err(p) => out.push(fail(panic_signature(&p), format!("panic comparing {:?}: {}", case["labels"], p.msg), case.clone(), json!("no panic"), json!(p.msg), 0)),
    }
    out
}

// ---------------------------------------------------------------------------------------------
// Layer B: consumers

const DEF_R: &str = "CREATE TABLE t(line = '^(\\\\S+) (\\\\S+) (\\\\S+) (\\\\S+)$', line[1] => k TEXT, line[2] => a REAL, line[3] => b REAL, line[4] => c REAL);";
const DEF_I: &str = "CREATE TABLE t(line = '^(\\\\S+) (\\\\S+) (\\\\S+) (\\\\S+)$', line[1] => k TEXT, line[2] => a INT, line[3] => b INT, line[4] => c INT);";
const DEF_T: &str = "CREATE TABLE t(line = '^(\\\\S+) (\\\\S+) (\\\\S+) (\\\\S+)$', line[1] => k TEXT, line[2] => a TEXT, line[3] => b TEXT, line[4] => c TEXT);";
const DEF_IR: &str = "CREATE TABLE t(line = '^(\\\\S+) (\\\\S+) (\\\\S+) (\\\\S+)$', line[1] => k TEXT, line[2] => a INT, line[3] => b REAL, line[4] => c REAL);";
const DEF_U: &str = "CREATE TABLE u(line = '^(\\\\S+) (\\\\S+)$', line[1] => uk TEXT, line[2] => y REAL);";

fn tokens(ty: &str) -> Vec<&'static str> {
    match ty {
        "REAL" => vec!["0.0", "-0.0", "1.0", "1", "NaN", "inf", "-inf", "x", "1e308", "-1.5", "1e19", "2e19"],
        "INT" => vec!["0", "1", "-1", "9223372036854775807", "-9223372036854775808", "x", "007", "7", "9007199254740993", "9007199254740992"],
        "TEXT" => vec!["a", "A", "é", "aa", "b"],
        _ => unreachable!(),
    }
}

/// reference parse of a token into a class key (None = NULL)
fn ref_class(ty: &str, tok: &str) -> Option<String> {
    match ty {
        "REAL" => match tok.parse::<f64>() {
            Ok(x) if x.is_nan() => Some("NaN".into()),
            Ok(x) if x == 0.0 => Some("0".into()),
            Ok(x) => Some(format!("{:?}", x)),
            Err(_) => None,
        },
        "INT" => tok.parse::<i64>().ok().map(|x| x.to_string()),
        "TEXT" => Some(tok.to_string()),
        _ => unreachable!(),
    }
}

fn classes(ty: &str, toks: &[&str]) -> (usize, bool) {
    let mut set = std::collections::BTreeSet::new();
    let mut null = false;
    for t in toks {
        match ref_class(ty, t) {
            Some(c) => {
                set.insert(c);
            }
            None => null = true,
        }
    }
    (set.len(), null)
}

fn count_rows(o: &Outcome<sut::Table>) -> Result<usize, String> {
    match o {
        Outcome::Ok(t) => Ok(t.rows.len()),
        Outcome::Err(e) => Err(format!("error: {}", e)),
        Outcome::Panic(p) => Err(format!("panic: {}", p.msg)),
    }
}

fn layer_b_case(ty: &str, seq: &[u8]) -> (Vec<Failure>, bool) {
    let toks = tokens(ty);
    let vals: Vec<&str> = seq.iter().map(|i| toks[*i as usize]).collect();
    let def = match ty {
        "REAL" => DEF_R,
        "INT" => DEF_I,
        _ => DEF_T,
    };
    let tables = sut::make_tables(def).expect("def");
    let lines: Vec<String> = vals.iter().enumerate().map(|(i, v)| format!("k{} {} {} {}", i, v, v, v)).collect();
    let lrefs: Vec<&str> = lines.iter().map(|s| s.as_str()).collect();
    let (ncls, has_null) = classes(ty, &vals);
    let case = json!({"layer": "B", "type": ty, "seq": seq, "tokens": vals});
    let mut out = Vec::new();
    let kinds: Vec<String> = {
        let mut k: Vec<String> = vals.iter().map(|v| ref_class(ty, v).map(|c| if c == "NaN" || c == "0" { format!("{}({})", c, v) } else { "x".into() }).unwrap_or("NULL".into())).collect();
        k.sort();
        k.dedup();
        k
    };
    let mut check = |name: &str, stmt: &str, expected: usize, col_sum: Option<usize>| {
        let st = sut::parse(stmt).expect(stmt);
        let o = sut::run_batch(&tables, &st, &lrefs);
        let got = count_rows(&o);
        let okv = match (&got, col_sum, &o) {
            (Ok(n), None, _) => *n == expected,
            (Ok(n), Some(total), Outcome::Ok(t)) => {
                let sum: i64 = t.rows.iter().map(|r| if let RVal::Int(c) = r[r.len() - 1] { c } else { -1000 }).sum();
                *n == expected && sum == total as i64
            }
            _ => false,
        };
        if !okv {
            out.push(fail(
                format!("consumer:{}:{}:{}", name, ty, kinds.join(",")),
                format!("{} over {} values {:?}: expected {} classes, got {:?}", name, ty, vals, expected, got),
                json!({"layer": "B", "type": ty, "seq": seq, "tokens": vals, "statement": stmt}),
                json!(expected),
                sut::outcome_json(&o, |t| t.to_json()),
                seq.len() as u64 * 1000 + seq.iter().map(|x| *x as u64).sum::<u64>(),
            ));
        }
    };
    let groups = ncls + has_null as usize;
    if !vals.is_empty() {
        check("group-by", "SELECT a, COUNT(*) FROM t GROUP BY a", groups, Some(vals.len()));
        check("distinct", "SELECT DISTINCT a FROM t", groups, None);
    }
    // two columns: rows (v, v) - equal columns in one row - and, for two values, the swapped pairs (v0, v1), (v1, v0)
    if !vals.is_empty() {
        check("distinct-two-equal-columns", "SELECT DISTINCT a, b FROM t", groups, None);
        check("group-by-two-equal-columns", "SELECT a, b, COUNT(*) FROM t GROUP BY a, b", groups, Some(vals.len()));
    }
    if vals.len() == 2 {
        let l0 = format!("k0 {} {} {}", vals[0], vals[1], vals[1]);
        let l1 = format!("k1 {} {} {}", vals[1], vals[0], vals[0]);
        let (c0, c1) = (ref_class(ty, vals[0]), ref_class(ty, vals[1]));
        // (v0, v1) and (v1, v0) are the same row only when v0 and v1 fall in one class (or both are NULL)
        let expected = if c0 == c1 { 1 } else { 2 };
        for (name, stmt) in [("distinct-swapped-pair", "SELECT DISTINCT a, b FROM t"), ("group-by-swapped-pair", "SELECT a, b, COUNT(*) FROM t GROUP BY a, b"), ("distinct-swapped-pair-agg", "SELECT DISTINCT MIN(a), MAX(b) FROM t GROUP BY k")] {
            let st = sut::parse(stmt).expect(stmt);
            let o = sut::run_batch(&tables, &st, &[&l0, &l1]);
            let got = count_rows(&o);
            if got != Ok(expected) {
                out.push(fail(
                    format!("consumer:{}:{}:{}", name, ty, kinds.join(",")),
                    format!("{} over the rows ({}, {}) and ({}, {}): expected {} rows, got {:?}", name, vals[0], vals[1], vals[1], vals[0], expected, got),
                    json!({"layer": "B", "type": ty, "seq": seq, "tokens": vals, "statement": stmt}),
                    json!(expected),
                    sut::outcome_json(&o, |t| t.to_json()),
                    seq.len() as u64 * 1000 + 9,
                ));
            }
        }
    }
    // COUNT(DISTINCT a): one row whose value is ncls
    if !vals.is_empty() {
        let st = sut::parse("SELECT COUNT(*), COUNT(DISTINCT a) FROM t").unwrap();
        let o = sut::run_batch(&tables, &st, &lrefs);
        let good = matches!(&o, Outcome::Ok(t) if t.rows.len() == 1 && matches!(t.rows[0].get(1), Some(RVal::Int(n)) if *n == ncls as i64));
        if !good {
            out.push(fail(
                format!("consumer:count-distinct:{}:{}", ty, kinds.join(",")),
                format!("COUNT(DISTINCT a) over {:?}: expected {}", vals, ncls),
                json!({"layer": "B", "type": ty, "seq": seq, "tokens": vals, "statement": "SELECT COUNT(*), COUNT(DISTINCT a) FROM t"}),
                json!(ncls),
                sut::outcome_json(&o, |t| t.to_json()),
                seq.len() as u64 * 1000,
            ));
        }
    }
    // MIN / MAX / PERCENTILE use the same total order: the result must not depend on the arrival order of the values,
    // PERCENTILE(0.0) must equal MIN and PERCENTILE(1.0) must equal MAX (reference equality: -0.0 = 0.0, NaN = NaN)
    if vals.len() >= 2 && ncls >= 1 {
        let st = sut::parse("SELECT MIN(a), MAX(a), PERCENTILE(a, 0.0), PERCENTILE(a, 1.0) FROM t").unwrap();
        let mut results: Vec<Vec<RVal>> = Vec::new();
        for perm in permutations(lines.len()) {
            let pl: Vec<&str> = perm.iter().map(|i| lrefs[*i]).collect();
            if let Outcome::Ok(t) = sut::run_batch(&tables, &st, &pl) {
                if let Some(r) = t.rows.get(0) {
                    results.push(r.clone());
                }
            }
            // the same with a result also taken after the first line (values arrive after a result was produced)
            if let Outcome::Ok(t) = sut::run_batch_with_results(&tables, &st, &pl, &[1]) {
                if let Some(r) = t.rows.get(0) {
                    results.push(r.clone());
                }
            }
        }
        let consistent = results.len() == 2 * permutations(lines.len()).len() && results.iter().all(|r| crate::refmodel::tuple_eq(r, &results[0])) && results.iter().all(|r| crate::refmodel::ref_eq(&r[0], &r[2]) && crate::refmodel::ref_eq(&r[1], &r[3]));
        if !consistent {
            out.push(fail(
                format!("consumer:min-max-percentile-order:{}:{}", ty, kinds.join(",")),
                format!("MIN / MAX / PERCENTILE over {:?}: results differ between arrival orders or PERCENTILE(0/1) != MIN/MAX: {:?}", vals, results),
                json!({"layer": "B", "type": ty, "seq": seq, "tokens": vals, "statement": "min-max-percentile"}),
                json!("one result for every arrival order"),
                json!(format!("{:?}", results)),
                seq.len() as u64 * 1000 + 7,
            ));
        }
    }
    // array_unique over one row holding the (first three) values in a, b, c
    if vals.len() == 3 && !has_null {
        let line = format!("k {} {} {}", vals[0], vals[1], vals[2]);
        let st = sut::parse("SELECT array_length(array_unique(array[a, b, c])) FROM t").unwrap();
        let o = sut::run_batch(&tables, &st, &[&line]);
        let good = matches!(&o, Outcome::Ok(t) if t.rows.len() == 1 && matches!(t.rows[0][0], RVal::Int(n) if n == ncls as i64));
        if !good {
            out.push(fail(
                format!("consumer:array_unique:{}:{}", ty, kinds.join(",")),
                format!("array_unique over {:?}: expected {} elements", vals, ncls),
                json!({"layer": "B", "type": ty, "seq": seq, "tokens": vals, "statement": "array_unique", "line": line}),
                json!(ncls),
                sut::outcome_json(&o, |t| t.to_json()),
                3000,
            ));
        }
    }
    // WHERE comparisons on one row (a vs b): trichotomy at the consumer level for non-NULL operands
    if vals.len() == 2 {
        let line = format!("k {} {} {}", vals[0], vals[1], vals[1]);
        let ca = ref_class(ty, vals[0]);
        let cb = ref_class(ty, vals[1]);
        if ca.is_some() && cb.is_some() {
            let mut truths = Vec::new();
            for op in ["<", "=", ">"] {
                let st = sut::parse(&format!("SELECT k FROM t WHERE a {} b", op)).unwrap();
                let o = sut::run_batch(&tables, &st, &[&line]);
                truths.push(count_rows(&o));
            }
            let n_true = truths.iter().filter(|t| matches!(t, Ok(1))).count();
            let any_err = truths.iter().any(|t| t.is_err());
            let eq_expected = ca == cb;
            let eq_got = matches!(truths[1], Ok(1));
            if any_err || n_true != 1 || eq_expected != eq_got {
                out.push(fail(
                    format!("consumer:where-trichotomy:{}:{}", ty, kinds.join(",")),
                    format!("WHERE a<b / a=b / a>b on ({}, {}) gave {:?}; exactly one must hold and '=' must be {}", vals[0], vals[1], truths, eq_expected),
                    json!({"layer": "B", "type": ty, "seq": seq, "tokens": vals, "statement": "where-trichotomy", "line": line}),
                    json!({"exactly_one": true, "equal": eq_expected}),
                    json!(format!("{:?}", truths)),
                    2000,
                ));
            }
        }
        // join lookup (REAL only): main row key a=vals[0], joined row key y=vals[1] -> match iff same class (non-NULL)
        if ty == "REAL" || ty == "INT" {
            let both = if ty == "REAL" { format!("{}\n{}", DEF_R, DEF_U) } else { format!("{}\n{}", DEF_I, DEF_U.replace("y REAL", "y INT")) };
            let jt = sut::make_tables(&both).expect("defs");
            let tmp = sut::TempFiles::new(&[format!("u {}\n", vals[1]).as_bytes()]);
            let stmt = format!("SELECT k, y FROM t INNER JOIN u::'{}' ON t.a = u.y", tmp.paths[0]);
            let st = sut::parse(&stmt).unwrap();
            let o = sut::run_batch(&jt, &st, &[&line]);
            let expect = if ca.is_some() && ca == cb { 1 } else { 0 };
            let got = count_rows(&o);
            if got != Ok(expect) {
                out.push(fail(
                    format!("consumer:join-lookup:{}:{}", ty, kinds.join(",")),
                    format!("join on {} keys ({}, {}) produced {:?} rows, expected {}", ty, vals[0], vals[1], got, expect),
                    json!({"layer": "B", "type": ty, "seq": seq, "tokens": vals, "statement": "join-lookup"}),
                    json!(expect),
                    sut::outcome_json(&o, |t| t.to_json()),
                    2500,
                ));
            }
        }
    }
    let nontrivial = ncls >= 1 && vals.len() >= 2 && (ncls + has_null as usize) < vals.len() + 1 && vals.iter().collect::<std::collections::BTreeSet<_>>().len() >= 2;
    (out, nontrivial)
}

/// exact numeric comparison of an i64 with an f64
fn cmp_int_real(i: i64, r: f64) -> Option<Ordering> {
    if r.is_nan() {
        return None;
    }
    if r == f64::INFINITY {
        return Some(Ordering::Less);
    }
    if r == f64::NEG_INFINITY {
        return Some(Ordering::Greater);
    }
    // |r| < 2^63 can be split into integer and fractional part exactly
    if r >= 9223372036854775808.0 {
        return Some(Ordering::Less);
    }
    if r < -9223372036854775808.0 {
        return Some(Ordering::Greater);
    }
    let fl = r.floor();
    let fi = fl as i64; // exact: fl is integral and in range
    match i.cmp(&fi) {
        Ordering::Equal => {
            if r > fl {
                Some(Ordering::Less)
            } else {
                Some(Ordering::Equal)
            }
        }
        o => Some(o),
    }
}

fn layer_c_case(it: &str, rt: &str) -> Vec<Failure> {
    // INT column a against REAL column b in WHERE: numeric comparison expected
    let tables = sut::make_tables(DEF_IR).unwrap();
    let line = format!("k {} {} {}", it, rt, rt);
    let i: i64 = it.parse().unwrap();
    let r: f64 = rt.parse().unwrap();
    let expected = cmp_int_real(i, r);
    let mut out = Vec::new();
    let mut got = Vec::new();
    for (op, want) in [("<", expected == Some(Ordering::Less)), ("=", expected == Some(Ordering::Equal)), (">", expected == Some(Ordering::Greater)), ("<=", matches!(expected, Some(Ordering::Less | Ordering::Equal))), (">=", matches!(expected, Some(Ordering::Greater | Ordering::Equal))), ("!=", matches!(expected, Some(Ordering::Less | Ordering::Greater)))] {
        for (l, rr, opx) in [("a", "b", op.to_string()), ("b", "a", flip(op))] {
            let stmt = format!("SELECT k FROM t WHERE {} {} {}", l, opx, rr);
            let st = sut::parse(&stmt).unwrap();
            let o = sut::run_batch(&tables, &st, &[&line]);
            let n = count_rows(&o);
            // an error report is acceptable for NaN (no numeric order); otherwise the truth value must match
            // NaN has no numeric order: any outcome consistent with "NaN is ordered after (or before) every
            // number and differs from it" is accepted, as is an error report
            let nan_less = matches!(op, "<" | "<=" | "!=");
            let nan_greater = matches!(op, ">" | ">=" | "!=");
            let good = match (&n, expected) {
                (Ok(c), Some(_)) => (*c == 1) == want,
                (Ok(c), None) => *c == 0 || (*c == 1 && (nan_less || nan_greater)),
                (Err(e), None) => e.starts_with("error"),
                (Err(_), Some(_)) => false,
            };
            got.push(format!("{} -> {:?}", stmt, n));
            if !good {
                out.push(fail(
                    format!("consumer:int-vs-real:{}", if expected.is_none() { "NaN" } else { "numeric" }),
                    format!("INT {} vs REAL {}: `{}` gave {:?}, numeric comparison says {}", it, rt, stmt, n, want),
                    json!({"layer": "C", "int": it, "real": rt}),
                    json!({"numeric_order": format!("{:?}", expected)}),
                    json!(got.clone()),
                    (it.len() + rt.len()) as u64,
                ));
            }
        }
    }
    // IN / NOT IN with short and long literal lists use the `=` above: membership by numeric value
    if let (Some(_), true) = (expected, r.is_finite()) {
        let eq = expected == Some(Ordering::Equal);
        for fill in [0usize, 2, 7, 8, 12] {
            // fillers equal to no INT token: x.5 values
            let mut items: Vec<String> = (0..fill).map(|i| format!("{}.5", 1000 + i)).collect();
            items.insert(fill / 2, if rt.contains('.') || rt.contains('e') { rt.to_string() } else { format!("{}.0", rt) });
            for (neg, want) in [(false, eq), (true, !eq)] {
                let stmt = format!("SELECT k FROM t WHERE a {}IN ({})", if neg { "NOT " } else { "" }, items.join(", "));
                let st = match sut::parse(&stmt) {
                    Ok(s) => s,
                    Err(_) => continue, // a literal form the tokenizer does not take: not this layer's business
                };
                let n = count_rows(&sut::run_batch(&tables, &st, &[&line]));
                if n != Ok(if want { 1 } else { 0 }) {
                    out.push(fail(
                        format!("consumer:int-vs-real:in-list:{}", if fill >= 7 { "long" } else { "short" }),
                        format!("INT {} against a list of {} REAL literals containing {}: `{}` gave {:?}, `=` says {}", it, fill + 1, rt, stmt, n, want),
                        json!({"layer": "C", "int": it, "real": rt}),
                        json!(want),
                        json!(format!("{:?}", n)),
                        (it.len() + rt.len() + fill) as u64,
                    ));
                }
            }
        }
    }
    out
}

const DEF_ARR: &str = "CREATE TABLE t(line = '^(\\\\S+) (\\\\S+)$', line[1], line[2] => ai INT[], line[1], line[2] => ar REAL[], line[1], line[2] => at TEXT[], line[1] => k TEXT);";
/// array-valued operands with their element kind (i = INT, r = REAL, t = TEXT, n = nested)
const ARR_OPERANDS: [(&str, char); 9] = [("ai", 'i'), ("ar", 'r'), ("at", 't'), ("ARRAY[1, 2]", 'i'), ("ARRAY[1.0, 2.0]", 'r'), ("ARRAY['1', '2']", 't'), ("ARRAY[ARRAY[1]]", 'n'), ("ARRAY[2, 1]", 'i'), ("ARRAY[1.0]", 'r')];

/// layer D: two array operands in WHERE. Same element type: exactly one of <, =, > holds and the other operators follow
/// from it; different element types: an error (INT[] against REAL[] may instead compare numerically, consistently);
/// never a truth value derived from the types
fn layer_d_case(x: usize, y: usize, line: &str) -> Vec<Failure> {
    let tables = sut::make_tables(DEF_ARR).unwrap();
    let (lx, kx) = ARR_OPERANDS[x];
    let (ly, ky) = ARR_OPERANDS[y];
    let mut truth: Vec<Result<bool, String>> = Vec::new();
    for op in ["<", "=", ">", "<=", ">=", "!="] {
        let stmt = format!("SELECT k FROM t WHERE {} {} {}", lx, op, ly);
        let st = sut::parse(&stmt).expect(&stmt);
        truth.push(count_rows(&sut::run_batch(&tables, &st, &[line])).map(|n| n == 1));
    }
    let case = json!({"layer": "D", "x": x, "y": y, "line": line});
    let all_err = truth.iter().all(|t| t.is_err());
    let all_ok = truth.iter().all(|t| t.is_ok());
    let mut out = Vec::new();
    let same = kx == ky;
    let numeric_mix = (kx == 'i' && ky == 'r') || (kx == 'r' && ky == 'i');
    let consistent = || {
        let t: Vec<bool> = truth.iter().map(|t| *t.as_ref().unwrap()).collect();
        let (lt, eq, gt, le, ge, ne) = (t[0], t[1], t[2], t[3], t[4], t[5]);
        (lt as u8 + eq as u8 + gt as u8) == 1 && le == (lt || eq) && ge == (gt || eq) && ne == !eq
    };
    let good = if same { all_ok && consistent() } else if numeric_mix { all_err || (all_ok && consistent()) } else { all_err };
    if !good {
        out.push(fail(
            format!("consumer:array-comparison:{}-vs-{}:{}", kx, ky, if all_ok { "truth-values" } else if all_err { "errors" } else { "mixed" }),
            format!("`{}` against `{}` on {:?}: <, =, >, <=, >=, != gave {:?}", lx, ly, line, truth),
            case,
            json!(if same { "exactly one of <, =, > and the derived operators" } else { "an error for every operator" }),
            json!(format!("{:?}", truth)),
            (x + y) as u64,
        ));
    }
    if numeric_mix && all_ok {
        // numeric comparison element by element: [1, 2] against [1.0, 2.0] must be equal
        let (a, b): (Vec<f64>, Vec<f64>) = (arr_numbers(lx, line), arr_numbers(ly, line));
        if !a.is_empty() && !b.is_empty() {
            let eq_expected = a == b;
            if truth[1] != Ok(eq_expected) {
                out.push(fail("consumer:array-comparison:int-vs-real:not-numeric".into(), format!("`{} = {}` on {:?} gave {:?}; by numeric value the arrays are {}", lx, ly, line, truth[1], if eq_expected { "equal" } else { "different" }), json!({"layer": "D", "x": x, "y": y, "line": line}), json!(eq_expected), json!(format!("{:?}", truth[1])), (x + y) as u64));
            }
        }
    }
    out
}

fn arr_numbers(operand: &str, line: &str) -> Vec<f64> {
    if operand.starts_with("ARRAY[") {
        operand.trim_start_matches("ARRAY[").trim_end_matches(']').split(',').filter_map(|t| t.trim().parse::<f64>().ok()).collect()
    } else {
        line.split(' ').filter_map(|t| t.parse::<f64>().ok()).collect()
    }
}

fn flip(op: &str) -> String {
    match op {
        "<" => ">",
        ">" => "<",
        "<=" => ">=",
        ">=" => "<=",
        o => o,
    }
    .to_string()
}

const INT_TOKS: [&str; 8] = ["0", "1", "-1", "2", "9007199254740992", "9007199254740993", "9223372036854775807", "-9223372036854775808"];
const REAL_TOKS: [&str; 14] = ["-0.5", "-1.5", "0.0", "-0.0", "1.0", "1.5", "-1.0", "0.5", "9007199254740992.0", "9223372036854775808.0", "-9223372036854775808.0", "inf", "-inf", "NaN"];

/// Layer TS: instants extracted from lines (micro- and millisecond fractions), all sequences of <= 3 lines from 7
/// different instants of which several fall into one millisecond / one second: DISTINCT rows, GROUP BY groups,
/// COUNT(DISTINCT), MIN < MAX and WHERE ts = ts' all follow the same equality (two different tokens = two different instants)
fn layer_ts(col: &Collector) {
    let def_us = "CREATE TABLE t(line = '([0-9]+)-([0-9]+)-([0-9]+) ([0-9]+):([0-9]+):([0-9]+)[.]([0-9]+) ([a-z]+)', line[1], line[2], line[3], line[4], line[5], line[6], line[7] => ts TIMESTAMP MICROSECONDS, line[8] => k TEXT);";
    let def_ms = def_us.replace(" MICROSECONDS", "");
    let mut n = 0u64;
    for (def, toks) in [
        (def_us.to_string(), ["05.000000", "05.000001", "05.000999", "05.001000", "05.001001", "05.999999", "06.000000"]),
        (def_ms, ["05.000", "05.001", "05.009", "05.010", "05.999", "06.000", "06.001"]),
    ] {
        let tables = sut::make_tables(&def).expect("TS def");
        let k = toks.len() as u64;
        for idx in 0..seq_count(k, 3) {
            let seq = seq_decode(idx, k, 3);
            if seq.is_empty() {
                continue;
            }
            let lines: Vec<String> = seq.iter().map(|i| format!("2024-01-02 03:04:{} a", toks[*i as usize])).collect();
            let lrefs: Vec<&str> = lines.iter().map(|s| s.as_str()).collect();
            let distinct = seq.iter().collect::<std::collections::BTreeSet<_>>().len() as i64;
            let rows_of = |q: &str| -> Result<Vec<Vec<RVal>>, String> {
                match sut::run_batch(&tables, &sut::parse(q).unwrap(), &lrefs) {
                    Outcome::Ok(t) => Ok(t.rows),
                    Outcome::Err(e) => Err(e),
                    Outcome::Panic(p) => Err(format!("panic: {}", p.msg)),
                }
            };
            let mut got: Vec<(String, String)> = Vec::new();
            got.push(("DISTINCT rows".into(), format!("{:?}", rows_of("SELECT DISTINCT ts FROM t").map(|r| r.len() as i64))));
            got.push(("GROUP BY groups".into(), format!("{:?}", rows_of("SELECT ts, COUNT(*) FROM t GROUP BY ts").map(|r| r.len() as i64))));
            got.push(("COUNT(DISTINCT)".into(), format!("{:?}", rows_of("SELECT COUNT(DISTINCT ts) FROM t").map(|r| match r.get(0).and_then(|x| x.get(0)) { Some(RVal::Int(i)) => *i, _ => -1 }))));
            got.push(("k, COUNT(DISTINCT) per group".into(), format!("{:?}", rows_of("SELECT k, COUNT(DISTINCT ts) FROM t GROUP BY k").map(|r| match r.get(0).and_then(|x| x.get(1)) { Some(RVal::Int(i)) => *i, _ => -1 }))));
            got.push(("array_length(array_unique(ARRAY_AGG))".into(), format!("{:?}", rows_of("SELECT array_length(array_unique(ARRAY_AGG(ts))) FROM t").map(|r| match r.get(0).and_then(|x| x.get(0)) { Some(RVal::Int(i)) => *i, _ => -1 }))));
            n += 1;
            col.eval(got.len() as u64);
            if distinct < seq.len() as i64 || distinct >= 2 {
                col.nontrivial(h64(&("TS", &def.len(), &seq)));
            }
            let want = format!("{:?}", Ok::<i64, String>(distinct));
            for (name, g) in &got {
                if *g != want {
                    col.fail(fail(
                        format!("consumer:instants:{}", name),
                        format!("{} over the instants {:?} gave {}, expected {} (different tokens are different instants)", name, lines, g, distinct),
                        json!({"layer": "TS", "definition": def, "lines": lines, "consumer": name}),
                        json!(distinct),
                        json!(g),
                        seq.len() as u64,
                    ));
                }
            }
            // MIN < MAX exactly when there are two different instants
            if let Ok(r) = rows_of("SELECT COUNT(*) FROM t WHERE 1 = 1 HAVING MIN(ts) < MAX(ts)") {
                let lt = !r.is_empty();
                col.eval(1);
                if lt != (distinct >= 2) {
                    col.fail(fail("consumer:instants:min-max".into(), format!("HAVING MIN(ts) < MAX(ts) over {:?} is {}, but there are {} different instants", lines, lt, distinct), json!({"layer": "TS", "definition": def, "lines": lines, "consumer": "min-max"}), json!(distinct >= 2), json!(lt), seq.len() as u64));
                }
            }
        }
    }
    col.layer("TS-instants from lines (micro / millisecond fractions): every deduplicating consumer", n, true, json!({"instants_per_table": 7, "max_len": 3}));
}

/// Layer DF: a column whose values come partly from its DEFAULT (literal of the column's type, and - where the definition
/// is accepted at all - literals of another type: `REAL DEFAULT 0`, `INT DEFAULT 0.0`, ...): the groups of GROUP BY x are
/// the classes of WHERE x = key (the count of every group equals the number of rows WHERE finds equal to its key), the
/// keys ascend by numeric value, DISTINCT / COUNT(DISTINCT) see as many values as there are groups
fn layer_df(col: &Collector) -> Vec<Failure> {
    let mut out = Vec::new();
    let mut accepted = 0u64;
    let mut rejected = 0u64;
    let lines = ["k=a x=-1.5", "k=a x=0.0", "k=a", "k=a x=2.5", "k=b", "k=b x=-0.25", "k=a x=0", "k=b x=1", "k=b x=1.0"];
    for (ty, dflt) in [("REAL", "0.0"), ("REAL", "0"), ("REAL", "-1"), ("REAL", "1"), ("INT", "0"), ("INT", "1"), ("INT", "0.0"), ("INT", "1.5"), ("REAL", "TRUE"), ("INT", "'1'"), ("REAL", "'0.0'")] {
        let def = format!("CREATE TABLE d('k=([a-z]+)' => k TEXT, 'x=([^ ]+)' => x {} DEFAULT {});", ty, dflt);
        let tables = match sut::make_tables(&def) {
            Ok(t) => t,
            Err(_) => {
                rejected += 1;
                continue;
            }
        };
        accepted += 1;
        col.eval(1);
        col.nontrivial(h64(&("DF", ty, dflt)));
        let rows_of = |q: &str| -> Result<Vec<Vec<RVal>>, String> {
            match sut::run_batch(&tables, &sut::parse(q).map_err(|e| format!("{:?}", e))?, &lines) {
                Outcome::Ok(t) => Ok(t.rows),
                Outcome::Err(e) => Err(e),
                Outcome::Panic(p) => Err(format!("panic: {}", p.msg)),
            }
        };
        let mut problems: Vec<String> = Vec::new();
        let num = |v: &RVal| -> Option<f64> { match v { RVal::Int(i) => Some(*i as f64), RVal::Real(r) => Some(*r), _ => None } };
        match rows_of("SELECT x, COUNT(*) FROM d GROUP BY x") {
            Ok(groups) => {
                for w in groups.windows(2) {
                    if let (Some(a), Some(b)) = (num(&w[0][0]), num(&w[1][0])) {
                        if !(a < b) {
                            problems.push(format!("group keys {:?} and {:?} are not ascending", w[0][0], w[1][0]));
                        }
                    }
                }
                for g in &groups {
                    let lit = match &g[0] { RVal::Int(i) => i.to_string(), RVal::Real(r) => format!("{:?}", r), _ => continue };
                    let cnt = match &g[1] { RVal::Int(i) => *i, _ => -1 };
                    match rows_of(&format!("SELECT COUNT(*) FROM d WHERE x = {}", lit)) {
                        Ok(r) => {
                            let w = match r.get(0).and_then(|x| x.get(0)) { Some(RVal::Int(i)) => *i, _ => 0 };
                            if w != cnt {
                                problems.push(format!("the group of key {} has {} rows, WHERE x = {} finds {}", lit, cnt, lit, w));
                            }
                        }
                        Err(e) => problems.push(format!("WHERE x = {}: {}", lit, e)),
                    }
                }
                let ng = groups.len() as i64;
                for (q, what) in [("SELECT DISTINCT x FROM d", "DISTINCT rows"), ("SELECT COUNT(DISTINCT x) FROM d", "COUNT(DISTINCT x)")] {
                    match rows_of(q) {
                        Ok(r) => {
                            let n = if what == "DISTINCT rows" { r.len() as i64 } else { match r.get(0).and_then(|x| x.get(0)) { Some(RVal::Int(i)) => *i, _ => -1 } };
                            let want = if what == "DISTINCT rows" { ng } else { groups.iter().filter(|g| !g[0].is_null()).count() as i64 };
                            if n != want {
                                problems.push(format!("{} = {}, groups = {}", what, n, want));
                            }
                        }
                        Err(e) => problems.push(format!("{}: {}", what, e)),
                    }
                }
                if let Ok(r) = rows_of("SELECT MIN(x), MAX(x) FROM d") {
                    if let (Some(lo), Some(hi), Some(first), Some(last)) = (r.get(0).and_then(|x| num(&x[0])), r.get(0).and_then(|x| num(&x[1])), groups.first().and_then(|g| num(&g[0])), groups.last().and_then(|g| num(&g[0]))) {
                        if lo != first || hi != last {
                            problems.push(format!("MIN / MAX = {} / {}, first / last group key = {} / {}", lo, hi, first, last));
                        }
                    }
                }
            }
            Err(e) => problems.push(format!("GROUP BY x: {}", e)),
        }
        if !problems.is_empty() {
            out.push(fail(
                format!("consumer:default-values:{} DEFAULT {}", ty, if dflt.contains('.') || dflt.starts_with('\'') || dflt == "TRUE" { "literal-of-the-type-or-other" } else { "integer-literal" }),
                format!("column `x {} DEFAULT {}` over {:?}: {}", ty, dflt, lines, problems.iter().take(4).cloned().collect::<Vec<_>>().join("; ")),
                json!({"layer": "DF", "type": ty, "default": dflt, "definition": def}),
                json!("groups = classes of WHERE equality, ascending keys"),
                json!(problems),
                accepted,
            ));
        }
    }
    col.layer("DF-columns filled partly from their DEFAULT (literal of the type / of another type where accepted)", accepted, true, json!({"definitions_accepted": accepted, "definitions_rejected": rejected}));
    out
}

pub fn run(ctx: &Ctx) -> i32 {
    let col = Collector::new();
    layer_ts(&col);
    for f in layer_df(&col) {
        col.fail(f);
    }
    let d = domain();
    let n = d.len();
    // Layer A pairs
    let mut pairs = Vec::new();
    for i in 0..n {
        for j in 0..n {
            if type_of(&d[i].0) == type_of(&d[j].0) {
                pairs.push((i, j));
            }
        }
    }
    par_for(pairs.len() as u64, |x| {
        let (i, j) = pairs[x as usize];
        col.eval(1);
        let fs = layer_a_case(i, j, None);
        if i != j {
            col.nontrivial(h64(&("A", i, j)));
        }
        col.outcome(h64(&(d[i].1.cmp(&d[j].1) as i8, d[i].1 == d[j].1, fs.len())));
        for f in fs {
            col.fail(f);
        }
    });
    col.layer("A-pairs", pairs.len() as u64, true, json!({"domain_values": n}));
    let mut triples = Vec::new();
    for i in 0..n {
        for j in 0..n {
            for k in 0..n {
                if type_of(&d[i].0) == type_of(&d[j].0) && type_of(&d[j].0) == type_of(&d[k].0) {
                    triples.push((i, j, k));
                }
            }
        }
    }
    par_for(triples.len() as u64, |x| {
        let (i, j, k) = triples[x as usize];
        col.eval(1);
        if !(i == j && j == k) {
            col.nontrivial(h64(&("A3", i, j, k)));
        }
        for f in layer_a_case(i, j, Some(k)) {
            col.fail(f);
        }
    });
    col.layer("A-triples", triples.len() as u64, true, json!({}));
    col.sample(json!({"layer": "A", "pair": [d[9].0, d[10].0], "cmp": format!("{:?}", d[9].1.cmp(&d[10].1))}));
    col.sample(json!({"layer": "A", "triple": [d[10].0, d[11].0, d[16].0]}));

    // Layer B consumers
    let maxlen = ctx.tier.pick(3, 5);
    for ty in ["REAL", "INT", "TEXT"] {
        let k = tokens(ty).len() as u64;
        let ml = if ty == "REAL" { maxlen } else if ctx.tier == Tier::Thorough { 4 } else { 3.min(maxlen) };
        let total = seq_count(k, ml);
        par_for(total, |idx| {
            let seq = seq_decode(idx, k, ml);
            let (fs, nontrivial) = layer_b_case(ty, &seq);
            col.eval(1);
            if nontrivial {
                col.nontrivial(h64(&("B", ty, &seq)));
            }
            col.outcome(h64(&(ty, fs.len(), classes(ty, &seq.iter().map(|i| tokens(ty)[*i as usize]).collect::<Vec<_>>()))));
            if idx % 97 == 5 {
                col.sample(json!({"layer": "B", "type": ty, "tokens": seq.iter().map(|i| tokens(ty)[*i as usize]).collect::<Vec<_>>()}));
            }
            for f in fs {
                col.fail(f);
            }
        });
        col.layer(&format!("B-{}", ty), total, true, json!({"max_len": ml, "tokens": tokens(ty)}));
    }
    // Layer C INT vs REAL
    let mut n_c = 0;
    for it in INT_TOKS {
        for rt in REAL_TOKS {
            n_c += 1;
            col.eval(12);
            col.nontrivial(h64(&("C", it, rt)));
            for f in layer_c_case(it, rt) {
                col.fail(f);
            }
        }
    }
    col.layer("C-int-vs-real", n_c, true, json!({"ints": INT_TOKS, "reals": REAL_TOKS}));
    col.sample(json!({"layer": "C", "int": "9007199254740993", "real": "9007199254740992.0"}));

    let mut n_d = 0;
    for x in 0..ARR_OPERANDS.len() {
        for y in 0..ARR_OPERANDS.len() {
            for line in ["1 2", "2 1", "1 1"] {
                n_d += 1;
                col.eval(6);
                col.nontrivial(h64(&("D", x, y, line)));
                for f in layer_d_case(x, y, line) {
                    col.fail(f);
                }
            }
        }
    }
    col.layer("D-array-operands", n_d, true, json!({"operands": ARR_OPERANDS.iter().map(|o| o.0).collect::<Vec<_>>(), "lines": ["1 2", "2 1", "1 1"]}));

    finish(
        ctx,
        &col,
        Finish {
            level: "exploration",
            rule: "Layer D: all ordered pairs of 9 array-valued operands (INT[], REAL[], TEXT[] columns and constructors, nested) x 3 rows x 6 comparison operators in WHERE. Layer A: all same-type pairs and triples of a labelled Value domain, laws evaluated on Value's own operators (non-trivial: not all elements identical). Layer B: all token sequences up to the length bound per type through GROUP BY / DISTINCT / COUNT(DISTINCT) / array_unique / WHERE / JOIN (non-trivial: >=2 different tokens of which at least two fall in one reference class or a NULL is present). Layer C: all INT x REAL token pairs x 6 comparison operators x both operand orders.".into(),
            exhaustive: true,
            assumptions: vec!["TZ=UTC".into(), "reference equality: numeric equality with all NaNs in one class and -0.0 = 0.0; text by code point".into()],
            bounds: json!({"domain": d.iter().map(|x| x.0.clone()).collect::<Vec<_>>(), "consumer_max_len": maxlen}),
        },
    )
}

pub fn replay(case: &J) -> Vec<Failure> {
    match case["layer"].as_str() {
        Some("A") => layer_a_case(case["i"].as_u64().unwrap() as usize, case["j"].as_u64().unwrap() as usize, case["k"].as_u64().map(|k| k as usize)),
        Some("DF") => layer_df(&Collector::new()).into_iter().filter(|f| f.case == *case).collect(),
        Some("TS") => {
            let c = Collector::new();
            layer_ts(&c);
            let all: Vec<Failure> = c.failures.lock().unwrap().values().flatten().cloned().collect();
            all.into_iter().filter(|f| f.case["consumer"] == case["consumer"]).collect()
        }
        Some("D") => layer_d_case(case["x"].as_u64().unwrap() as usize, case["y"].as_u64().unwrap() as usize, case["line"].as_str().unwrap()),
        Some("B") => {
            let seq: Vec<u8> = case["seq"].as_array().unwrap().iter().map(|x| x.as_u64().unwrap() as u8).collect();
            let ty = case["type"].as_str().unwrap().to_string();
            let ty: &'static str = Box::leak(ty.into_boxed_str());
            let want = case.get("statement").and_then(|s| s.as_str()).map(|s| s.to_string());
            layer_b_case(ty, &seq).0.into_iter().filter(|f| want.is_none() || f.case.get("statement").and_then(|s| s.as_str()).map(|s| s.to_string()) == want).collect()
        }
        Some("C") => layer_c_case(case["int"].as_str().unwrap(), case["real"].as_str().unwrap()),
        _ => vec![],
    }
}
