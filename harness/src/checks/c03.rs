//! C03 — SELECT/WHERE: one output row per qualifying row, evaluated on that row alone.
//!
//! Layer D1: every expression node kind over all tuples of ~24 leaves (11 typed nullable columns + literals of every
//!           type), ill-typed combinations included, evaluated on all rows of the product domain of the columns it mentions.
//! Layer D2: every binary node with one D1 child and one leaf child (either position) and every unary / cast node over a D1
//!           child (quick: over an 8-leaf subset; thorough: a larger subset), rows from a reduced column domain.
//! Both as `SELECT (e) AS x FROM t` and `SELECT m FROM t WHERE (e)`. Oracle: the reference evaluator (value / no value
//! -> error must be reported / open -> not compared).
//! Layer S: statement shapes — projection lists x filters x all line sequences up to 3 lines: one output row per qualifying
//!           row, in input order, `*` in definition order, column names alias / column / p<i>.

use serde_json::{json, Value as J};

use sqlgrep::data_model::Tables;
use sqlgrep::execution::execution_engine::{ExecutionConfig, ExecutionEngine};

use crate::checks::fail;
use crate::core::*;
use crate::refmodel::expr::*;
use crate::sut::{self, from_value, RVal};

pub const DEF: &str = "CREATE TABLE t({ .m } => m TEXT, { .i } => i INT, { .j } => j INT, { .r } => r REAL, { .s } => s REAL, { .t } => t TEXT, { .u } => u TEXT, { .b } => b BOOLEAN, { .a } => a INT[], { .x } => x TEXT[], { .ts } => ts TIMESTAMP CONVERT, { .iv } => iv INTERVAL CONVERT);";

const TS1: &str = "2021-03-04 05:06:07";
const TS2: &str = "1999-12-31 23:59:59";

/// per-column value domain as (json text fragment or None for absent, reference value)
fn col_domain(c: &str, reduced: bool) -> Vec<(Option<String>, RVal)> {
    let int = |x: i64| (Some(x.to_string()), RVal::Int(x));
    let real = |s: &str, x: f64| (Some(s.to_string()), RVal::Real(x));
    let text = |s: &str| (Some(format!("{:?}", s)), RVal::Text(s.to_string()));
    let full: Vec<(Option<String>, RVal)> = match c {
        "i" | "j" => vec![(None, RVal::Null), int(0), int(1), int(2), int(-1), int(i64::MAX), int(i64::MIN)],
        "r" | "s" => vec![(None, RVal::Null), real("0.0", 0.0), real("1.0", 1.0), real("1.5", 1.5), real("2.0", 2.0), real("-1.0", -1.0), real("1e308", 1e308), real("-0.0", -0.0), real("-0.5", -0.5), real("-1.5", -1.5)],
        "t" | "u" => vec![(None, RVal::Null), text(""), text("a"), text("b"), text("A"), text("é"), text("10"), text("9")],
        "b" => vec![(None, RVal::Null), (Some("true".into()), RVal::Bool(true)), (Some("false".into()), RVal::Bool(false))],
        "a" => vec![(None, RVal::Null), (Some("[]".into()), RVal::Array(vec![])), (Some("[1,2]".into()), RVal::Array(vec![RVal::Int(1), RVal::Int(2)])), (Some("[null,3]".into()), RVal::Array(vec![RVal::Null, RVal::Int(3)]))],
        "x" => vec![(None, RVal::Null), (Some("[\"p\"]".into()), RVal::Array(vec![RVal::Text("p".into())])), (Some("[\"p\",\"q\"]".into()), RVal::Array(vec![RVal::Text("p".into()), RVal::Text("q".into())])), (Some("[null,\"1\"]".into()), RVal::Array(vec![RVal::Null, RVal::Text("1".into())]))],
        "ts" => vec![(None, RVal::Null), (Some(format!("{:?}", TS1)), RVal::Ts(parse_ts(TS1).unwrap())), (Some(format!("{:?}", TS2)), RVal::Ts(parse_ts(TS2).unwrap()))],
        "iv" => vec![(None, RVal::Null), (Some("\"1:30:00\"".into()), RVal::Iv(5_400_000_000)), (Some("\"0:00:01\"".into()), RVal::Iv(1_000_000))],
        "m" => vec![text("m")],
        _ => unreachable!("{}", c),
    };
    if reduced {
        let keep: Vec<usize> = match c {
            "i" | "j" => vec![0, 2, 5, 6],
            "r" | "s" => vec![0, 3, 6, 7],
            "t" | "u" => vec![0, 2, 6],
            _ => (0..full.len()).collect(),
        };
        keep.into_iter().map(|k| full[k].clone()).collect()
    } else {
        full
    }
}

const COLS: [&str; 11] = ["i", "j", "r", "s", "t", "u", "b", "a", "x", "ts", "iv"];

pub fn leaves() -> Vec<E> {
    let mut v: Vec<E> = COLS.iter().map(|c| E::Col(c.to_string())).collect();
    v.extend(vec![
        E::Lit(Lit::Null),
        E::Lit(Lit::Int(0)),
        E::Lit(Lit::Int(1)),
        E::Lit(Lit::Int(2)),
        E::Lit(Lit::Int(i64::MAX)),
        E::Lit(Lit::Real(1.5)),
        E::Lit(Lit::Real(0.0)),
        E::Lit(Lit::Text("a".into())),
        E::Lit(Lit::Text("".into())),
        E::Lit(Lit::Text("10".into())),
        E::Lit(Lit::Bool(true)),
        E::Lit(Lit::Bool(false)),
        E::Lit(Lit::Text(TS1.into())),
        E::Lit(Lit::Text("hour".into())),
    ]);
    v
}

pub fn small_leaves() -> Vec<E> {
    vec![E::Col("i".into()), E::Col("r".into()), E::Col("t".into()), E::Col("b".into()), E::Lit(Lit::Int(1)), E::Lit(Lit::Null), E::Lit(Lit::Text("a".into())), E::Lit(Lit::Bool(true))]
}

fn medium_leaves() -> Vec<E> {
    let mut v = small_leaves();
    v.extend(vec![E::Col("j".into()), E::Col("a".into()), E::Col("ts".into()), E::Col("iv".into()), E::Lit(Lit::Real(1.5)), E::Lit(Lit::Int(i64::MAX)), E::Lit(Lit::Int(0))]);
    v
}

const UNARY_FNS: [&str; 8] = ["abs", "sqrt", "length", "upper", "lower", "array_length", "array_unique", "nosuchfn"];
const BINARY_FNS: [&str; 8] = ["greatest", "least", "pow", "regexp_matches", "array_cat", "array_append", "array_prepend", "date_trunc"];
const CAST_TYPES: [&str; 6] = ["int", "real", "text", "boolean", "timestamp", "interval"];
const EXTRACT_PARTS: [&str; 7] = ["year", "month", "day", "hour", "minute", "second", "epoch"];

/// every node kind over the given leaves
pub fn d1(ls: &[E], subset: &[E]) -> Vec<E> {
    let mut out = Vec::new();
    for x in ls {
        for y in ls {
            for op in Bin::all() {
                out.push(E::Bin(op, b(x.clone()), b(y.clone())));
            }
            out.push(E::Index(b(x.clone()), b(y.clone())));
            for f in BINARY_FNS {
                out.push(E::Call(f, vec![x.clone(), y.clone()]));
            }
        }
        out.push(E::IsNull(b(x.clone()), false));
        out.push(E::IsNull(b(x.clone()), true));
        out.push(E::Not(b(x.clone())));
        out.push(E::Neg(b(x.clone())));
        for t in CAST_TYPES {
            out.push(E::Cast(b(x.clone()), t));
        }
        for p in EXTRACT_PARTS {
            out.push(E::Extract(p, b(x.clone())));
        }
        for f in UNARY_FNS {
            out.push(E::Call(f, vec![x.clone()]));
        }
        for y in ls {
            out.push(E::In(b(x.clone()), vec![y.clone()], false));
            out.push(E::In(b(x.clone()), vec![y.clone()], true));
        }
        for y in subset {
            for z in subset {
                out.push(E::In(b(x.clone()), vec![y.clone(), z.clone()], false));
                out.push(E::In(b(x.clone()), vec![y.clone(), z.clone()], true));
                out.push(E::Case(vec![(x.clone(), y.clone())], b(z.clone())));
                out.push(E::Array(vec![x.clone(), y.clone(), z.clone()]));
            }
        }
    }
    // CASE with two branches, IN with three elements, make_timestamp
    for x in subset {
        for y in subset {
            out.push(E::Case(vec![(x.clone(), E::Lit(Lit::Int(1))), (y.clone(), E::Lit(Lit::Int(2)))], b(E::Lit(Lit::Int(3)))));
            out.push(E::In(b(x.clone()), vec![E::Lit(Lit::Int(7)), y.clone(), E::Lit(Lit::Int(1))], false));
        }
    }
    let l = |i: i64| E::Lit(Lit::Int(i));
    for args in [vec![l(4294969321), l(1), l(1), l(0), l(0), l(0), l(0)], vec![l(2021), l(4294967297), l(1), l(0), l(0), l(0), l(0)], vec![l(2021), l(1), l(4294967297), l(0), l(0), l(0), l(0)], vec![l(2021), l(1), l(1), l(4294967296), l(4294967296), l(4294967296), l(4294967296)], vec![l(2021), l(1), l(1), l(0), l(0), l(0), l(1000000)], vec![l(2021), l(13), l(1), l(0), l(0), l(0), l(0)], vec![l(2021), l(1), l(1), l(-1), l(0), l(0), l(0)], vec![l(2021), E::Col("i".into()), E::Col("j".into()), l(0), l(0), l(0), l(0)], vec![l(2021), l(1), l(2), l(3), l(4), l(5), l(6)], vec![l(2021), l(2), l(29), l(0), l(0), l(0), l(0)], vec![E::Col("i".into()), l(1), l(1), l(0), l(0), l(0), l(0)], vec![l(2020), l(2), l(29), l(23), l(59), l(59), l(999999)]] {
        out.push(E::Call("make_timestamp", args));
    }
    // CASE: only the conditions up to the first true one (and only the chosen result) are evaluated
    let div0 = E::Bin(Bin::Eq, b(E::Bin(Bin::Div, b(E::Col("i".into())), b(l(0)))), b(l(1)));
    let badfn = E::Bin(Bin::Gt, b(E::Call("length", vec![E::Col("i".into())])), b(l(0)));
    let unknown = E::Bin(Bin::Eq, b(E::Col("nosuchcolumn".into())), b(l(1)));
    for bad in [div0, badfn, unknown] {
        let cond = E::Bin(Bin::Gt, b(E::Col("j".into())), b(l(0)));
        out.push(E::Case(vec![(cond.clone(), l(1)), (bad.clone(), l(2))], b(l(3))));
        out.push(E::Case(vec![(E::Col("b".into()), l(1)), (bad.clone(), l(2)), (cond.clone(), l(4))], b(l(3))));
        out.push(E::Case(vec![(cond.clone(), l(1))], b(E::Bin(Bin::Div, b(l(1)), b(l(0))))));
        out.push(E::Case(vec![(cond.clone(), E::Bin(Bin::Div, b(l(1)), b(l(0)))), (E::Lit(Lit::Bool(true)), l(2))], b(l(3))));
        out.push(E::Bin(Bin::Or, b(cond.clone()), b(bad.clone())));
        out.push(E::Bin(Bin::And, b(cond.clone()), b(bad.clone())));
    }
    out.push(E::Call("abs", vec![]));
    out.push(E::Call("abs", vec![l(1), l(2)]));
    out.push(E::Col("nosuchcolumn".into()));
    out
}

fn d2(base: &[E], ls: &[E]) -> Vec<(E, Vec<E>)> {
    // (expression, its D1 children that must agree for the row to count)
    let mut out = Vec::new();
    for c in base {
        for l in ls {
            for op in Bin::all() {
                out.push((E::Bin(op, b(c.clone()), b(l.clone())), vec![c.clone()]));
                out.push((E::Bin(op, b(l.clone()), b(c.clone())), vec![c.clone()]));
            }
        }
        out.push((E::IsNull(b(c.clone()), false), vec![c.clone()]));
        out.push((E::Not(b(c.clone())), vec![c.clone()]));
        out.push((E::Neg(b(c.clone())), vec![c.clone()]));
        for t in ["int", "text", "real"] {
            out.push((E::Cast(b(c.clone()), t), vec![c.clone()]));
        }
        out.push((E::Case(vec![(c.clone(), E::Lit(Lit::Int(1)))], b(E::Lit(Lit::Int(0)))), vec![c.clone()]));
        out.push((E::In(b(c.clone()), vec![E::Lit(Lit::Int(1)), E::Lit(Lit::Bool(true))], false), vec![c.clone()]));
        out.push((E::Call("abs", vec![c.clone()]), vec![c.clone()]));
        out.push((E::Call("upper", vec![c.clone()]), vec![c.clone()]));
    }
    out
}

/// rows (json line, reference row) over the product of the domains of the mentioned columns
pub fn rows_for(cols: &[String], reduced: bool) -> Vec<(String, Row)> {
    let doms: Vec<Vec<(Option<String>, RVal)>> = cols.iter().map(|c| col_domain(c, reduced)).collect();
    let mut out = Vec::new();
    let mut idx = vec![0usize; cols.len()];
    loop {
        let mut parts = vec!["\"m\":\"m\"".to_string()];
        let mut row = Row::new();
        row.insert("m".into(), RVal::Text("m".into()));
        for c in COLS {
            row.insert(c.to_string(), RVal::Null);
        }
        for (k, c) in cols.iter().enumerate() {
            let (frag, v) = &doms[k][idx[k]];
            if let Some(f) = frag {
                parts.push(format!("\"{}\":{}", c, f));
            }
            row.insert(c.clone(), v.clone());
        }
        out.push((format!("{{{}}}", parts.join(",")), row));
        let mut k = 0;
        loop {
            if k == cols.len() {
                return out;
            }
            idx[k] += 1;
            if idx[k] < doms[k].len() {
                break;
            }
            idx[k] = 0;
            k += 1;
        }
    }
}

fn class(v: &RVal) -> &'static str {
    v.type_name()
}

fn kind_sig(e: &E, row: &Row) -> String {
    let ty = |x: &E| match eval(x, row) {
        Ev::Val(v) => class(&v).to_string(),
        Ev::NoValue(_) => "novalue".into(),
        Ev::Open(_) => "open".into(),
    };
    match e {
        E::Bin(op, l, r) => format!("Bin({}):{},{}", op.text(), ty(l), ty(r)),
        E::IsNull(x, n) => format!("Is{}Null:{}", if *n { "Not" } else { "" }, ty(x)),
        E::Not(x) => format!("Not:{}", ty(x)),
        E::Neg(x) => format!("Neg:{}", ty(x)),
        E::In(x, vs, n) => format!("{}In:{}:[{}]", if *n { "Not" } else { "" }, ty(x), vs.iter().map(|v| ty(v)).collect::<Vec<_>>().join(",")),
        E::Case(cl, _) => format!("Case:{}", cl.iter().map(|(c, _)| ty(c)).collect::<Vec<_>>().join(",")),
        E::Cast(x, t) => format!("Cast({}):{}", t, ty(x)),
        E::Index(a, i) => format!("Index:{},{}", ty(a), ty(i)),
        E::Call(f, args) => format!("Call({}):{}", f, args.iter().map(|v| ty(v)).collect::<Vec<_>>().join(",")),
        E::Extract(p, x) => format!("Extract({}):{}", p, ty(x)),
        E::Array(xs) => format!("Array:{}", xs.iter().map(|v| ty(v)).collect::<Vec<_>>().join(",")),
        E::Lit(_) => "Lit".into(),
        E::Col(_) => "Col".into(),
    }
}

#[derive(Debug)]
enum Got {
    Val(RVal),
    NoRow,
    Err(String),
    Panic(PanicRec),
}

/// run one statement over lines one at a time (one execute per line on one engine) -> per line outcome
fn run_rows(tables: &Tables, text: &str, lines: &[&str]) -> Result<Vec<Got>, String> {
    let st = sut::parse(text)?;
    let mut engine = ExecutionEngine::new(tables, &st);
    let cfg = ExecutionConfig::default();
    let mut out = Vec::new();
    for l in lines {
        let r = catch(|| engine.execute((*l).to_string(), &cfg));
        out.push(match r {
            Err(p) => {
                engine = ExecutionEngine::new(tables, &st);
                Got::Panic(p)
            }
            Ok(Err(e)) => Got::Err(format!("{}", e)),
            Ok(Ok(o)) => match o.result_row {
                Some(rr) if !rr.data.is_empty() => Got::Val(from_value(&rr.data[0].columns[0])),
                _ => Got::NoRow,
            },
        });
    }
    Ok(out)
}

fn describe(g: &Got) -> String {
    match g {
        Got::Val(v) => format!("value {:?}", v),
        Got::NoRow => "no row".into(),
        Got::Err(e) => format!("error: {}", e),
        Got::Panic(p) => format!("panic: {}", p.msg),
    }
}

fn out_class(g: &Got) -> &'static str {
    match g {
        Got::Val(_) => "value",
        Got::NoRow => "no-row",
        Got::Err(_) => "error",
        Got::Panic(_) => "panic",
    }
}

/// returns (failures, nontrivial, evaluations)
fn judge_expr(tables: &Tables, e: &E, guards: &[E], reduced: bool, layer: &str, only_line: Option<&str>) -> (Vec<Failure>, bool, u64) {
    let mut cols = Vec::new();
    e.columns(&mut cols);
    cols.retain(|c| COLS.contains(&c.as_str()));
    if cols.len() > 3 {
        return (vec![], false, 0);
    }
    let rows = rows_for(&cols, reduced);
    let rows: Vec<&(String, Row)> = rows.iter().filter(|(l, _)| only_line.map(|o| o == l).unwrap_or(true)).collect();
    let lines: Vec<&str> = rows.iter().map(|(l, _)| l.as_str()).collect();
    let sel_text = format!("SELECT ({}) AS x FROM t", e.full());
    let whr_text = format!("SELECT m FROM t WHERE ({})", e.full());
    let mut out = Vec::new();
    let sel = run_rows(tables, &sel_text, &lines);
    let whr = run_rows(tables, &whr_text, &lines);
    let mut evals = 0u64;
    let mut outcomes = std::collections::BTreeSet::new();
    // guards: D1 children evaluated alone through the implementation; rows where they disagree are skipped
    let guard_runs: Vec<(E, Result<Vec<Got>, String>)> = guards.iter().map(|g| (g.clone(), run_rows(tables, &format!("SELECT ({}) AS x FROM t", g.full()), &lines))).collect();
    let (sel, whr) = match (sel, whr) {
        (Ok(s), Ok(w)) => (s, w),
        (s, w) => {
            // the statement is rejected at parse time: acceptable only if the reference says "no value" on every row
            // (e.g. unknown function) — otherwise a rejected valid expression
            let all_novalue = rows.iter().all(|(_, r)| !matches!(eval(e, r), Ev::Val(_)));
            if !all_novalue {
                let msg = s.err().or(w.err()).unwrap_or_default();
                out.push(fail(
                    format!("rejected-at-parse:{}", kind_sig(e, &rows[0].1)),
                    format!("`{}` is rejected by the parser ({}) although it has a value on some row", e.full(), msg),
                    json!({"layer": layer, "expr": e.full(), "reduced": reduced}),
                    json!("parses"),
                    json!(msg),
                    e.full().len() as u64,
                ));
            }
            return (out, false, 1);
        }
    };
    for (k, (line, row)) in rows.iter().enumerate() {
        evals += 2;
        let expect = eval(e, row);
        // skip rows on which a guard (child) already disagrees with the reference
        let mut guard_bad = false;
        for (g, run) in &guard_runs {
            if let Ok(r) = run {
                let ge = eval(g, row);
                let ok = match (&ge, &r[k]) {
                    (Ev::Val(v), Got::Val(x)) => x.close(v),
                    (Ev::NoValue(_), Got::Err(_)) => true,
                    (Ev::Open(_), _) => false,
                    _ => false,
                };
                if !ok {
                    guard_bad = true;
                }
            }
        }
        if guard_bad {
            continue;
        }
        match &expect {
            Ev::Open(_) => {
                outcomes.insert("open".to_string());
                continue;
            }
            Ev::Val(v) => {
                outcomes.insert(format!("{:?}", v));
                let ok = matches!(&sel[k], Got::Val(x) if x.close(v));
                if !ok {
                    out.push(fail(
                        format!("select:{}:expected {} got {}", kind_sig(e, row), if v.is_null() { "NULL".to_string() } else { format!("value({})", class(v)) }, match &sel[k] { Got::Val(x) if class(x) != class(v) => format!("value({})", class(x)), g => out_class(g).to_string() }),
                        format!("`{}` on row {}: reference value {:?}, implementation: {}", e.full(), line, v, describe(&sel[k])),
                        json!({"layer": layer, "expr": e.full(), "line": line, "reduced": reduced, "form": "select"}),
                        v.to_json(),
                        json!(describe(&sel[k])),
                        e.full().len() as u64,
                    ));
                }
                // WHERE: selected iff the value is TRUE (non-BOOLEAN values: coercion is open)
                match v {
                    RVal::Bool(t) => {
                        let got_sel = matches!(&whr[k], Got::Val(_));
                        let ok = match &whr[k] {
                            Got::Val(_) | Got::NoRow => got_sel == *t,
                            _ => false,
                        };
                        if !ok {
                            out.push(fail(
                                format!("where:{}:expected {} got {}", kind_sig(e, row), if *t { "row" } else { "no-row" }, out_class(&whr[k])),
                                format!("WHERE `{}` on row {}: condition is {}, implementation: {}", e.full(), line, t, describe(&whr[k])),
                                json!({"layer": layer, "expr": e.full(), "line": line, "reduced": reduced, "form": "where"}),
                                json!(t),
                                json!(describe(&whr[k])),
                                e.full().len() as u64,
                            ));
                        }
                    }
                    _ => {}
                }
            }
            Ev::NoValue(why) => {
                outcomes.insert("novalue".to_string());
                for (form, got) in [("select", &sel[k]), ("where", &whr[k])] {
                    if !matches!(got, Got::Err(_)) {
                        out.push(fail(
                            format!("{}:{}:expected error got {}", form, kind_sig(e, row), out_class(got)),
                            format!("`{}` on row {} has no value ({}): the query must report an error, implementation: {}", e.full(), line, why, describe(got)),
                            json!({"layer": layer, "expr": e.full(), "line": line, "reduced": reduced, "form": form}),
                            json!({"error": why}),
                            json!(describe(got)),
                            e.full().len() as u64,
                        ));
                    }
                }
            }
        }
    }
    (out, outcomes.len() >= 2, evals)
}

// ---------------------------------------------------------------------------------------------
// statement shapes

const SDEF: &str = "CREATE TABLE t(line = '^([a-z]*) ([0-9]*) ?(.*)$', line[1] => k TEXT, line[2] => v INT, line[3] => s TEXT);";

const EDEF: &str = "CREATE TABLE e('^(.*)$' => x TEXT);\nCREATE TABLE d('k=([a-z]+)' => k TEXT DEFAULT 'none', '^(zzz)$' => z TEXT);";
const EMPTY_STMTS: [&str; 6] = ["SELECT x FROM e", "SELECT input, x FROM e WHERE x != 'a'", "SELECT length(x) FROM e", "SELECT k FROM d", "SELECT input FROM d WHERE k = 'none'", "SELECT * FROM d"];

fn empty_line_case(tables: &Tables, si: usize, seq: &[u8]) -> Vec<Failure> {
    let el = ["a", "", "k=b", " "];
    let lines: Vec<&str> = seq.iter().map(|i| el[*i as usize]).collect();
    let text = EMPTY_STMTS[si];
    let st = sut::parse(text).expect(text);
    let kre = regex::Regex::new("k=([a-z]+)").unwrap();
    let mut expected: Vec<Vec<RVal>> = Vec::new();
    for l in &lines {
        let k = kre.captures(l).map(|c| c[1].to_string()).unwrap_or("none".into());
        match si {
            0 => expected.push(vec![RVal::Text(l.to_string())]),
            1 => {
                if *l != "a" {
                    expected.push(vec![RVal::Text(l.to_string()), RVal::Text(l.to_string())]);
                }
            }
            2 => expected.push(vec![RVal::Int(l.chars().count() as i64)]),
            3 => expected.push(vec![RVal::Text(k)]),
            4 => {
                if k == "none" {
                    expected.push(vec![RVal::Text(l.to_string())]);
                }
            }
            _ => expected.push(vec![RVal::Text(k), RVal::Null]),
        }
    }
    let got = sut::run_batch(tables, &st, &lines);
    if matches!(&got, sut::Outcome::Ok(t) if sut::rows_same(&t.rows, &expected)) {
        return vec![];
    }
    vec![fail(
        format!("shape:empty-line-table:{}", text),
        format!("`{}` over {:?}: expected rows {:?}", text, lines, expected),
        json!({"layer": "S-empty", "si": si, "seq": seq, "statement": text, "lines": lines}),
        sut::rows_json(&expected),
        sut::outcome_json(&got, |t| t.to_json()),
        seq.len() as u64,
    )]
}

fn shape_lines() -> Vec<&'static str> {
    vec!["a 1 x", "b 2 y", "a 3", "c  z", "###"]
}

fn shape_case(tables: &Tables, pi: usize, fi: usize, seq: &[u8]) -> Vec<Failure> {
    let projections: [(&str, Vec<&str>); 8] = [
        ("*", vec!["k", "v", "s"]),
        ("input", vec!["input"]),
        ("v", vec!["v"]),
        ("v AS x", vec!["x"]),
        ("v + 1", vec!["p0"]),
        ("t.v", vec!["t.v"]),
        ("k, v + 1, s AS z, upper(k)", vec!["k", "p1", "z", "p3"]),
        ("input, k", vec!["input", "k"]),
    ];
    let filters: [&str; 4] = ["", "WHERE v > 1", "WHERE k = 'a'", "WHERE s IS NOT NULL AND v IS NOT NULL"];
    let al = shape_lines();
    let lines: Vec<&str> = seq.iter().map(|i| al[*i as usize]).collect();
    let (proj, names) = &projections[pi];
    let text = format!("SELECT {} FROM t {}", proj, filters[fi]);
    let st = match sut::parse(&text) {
        Ok(s) => s,
        Err(e) => return vec![fail("shape:rejected".into(), format!("`{}` rejected: {}", text, e), json!({"layer": "S", "pi": pi, "fi": fi, "seq": seq}), json!("parses"), json!(e), 0)],
    };
    // reference: extraction by the stated pattern, filter, projection
    let re = regex::Regex::new("^([a-z]*) ([0-9]*) ?(.*)$").unwrap();
    let mut expected: Vec<Vec<RVal>> = Vec::new();
    for l in &lines {
        let caps = match re.captures(l) {
            Some(c) => c,
            None => continue,
        };
        let k = RVal::Text(caps[1].to_string());
        let v = caps[2].parse::<i64>().map(RVal::Int).unwrap_or(RVal::Null);
        let s = RVal::Text(caps[3].to_string());
        let vi = if let RVal::Int(x) = v { Some(x) } else { None };
        let keep = match fi {
            0 => true,
            1 => vi.map(|x| x > 1).unwrap_or(false),
            2 => caps[1] == *"a",
            _ => vi.is_some(),
        };
        if !keep {
            continue;
        }
        let plus1 = vi.map(|x| RVal::Int(x + 1)).unwrap_or(RVal::Null);
        expected.push(match pi {
            0 => vec![k, v, s],
            1 => vec![RVal::Text(l.to_string())],
            2 | 3 | 5 => vec![v],
            4 => vec![plus1],
            6 => vec![k.clone(), plus1, s, RVal::Text(caps[1].to_uppercase())],
            _ => vec![RVal::Text(l.to_string()), k],
        });
    }
    let got = sut::run_batch(tables, &st, &lines);
    let ok = match &got {
        sut::Outcome::Ok(t) => sut::rows_same(&t.rows, &expected) && (t.rows.is_empty() || t.columns.iter().map(|s| s.as_str()).collect::<Vec<_>>() == *names),
        _ => false,
    };
    if !ok {
        let dev = match &got {
            sut::Outcome::Ok(t) if t.rows.len() != expected.len() => "row-count",
            sut::Outcome::Ok(t) if !sut::rows_same(&t.rows, &expected) => "row-content-or-order",
            sut::Outcome::Ok(_) => "column-names",
            sut::Outcome::Err(_) => "error",
            sut::Outcome::Panic(_) => "panic",
        };
        return vec![fail(
            format!("shape:{}:{}", dev, proj),
            format!("`{}` over {:?}: expected rows {:?} with columns {:?}", text, lines, expected, names),
            json!({"layer": "S", "pi": pi, "fi": fi, "seq": seq, "statement": text, "lines": lines}),
            json!({"columns": names, "rows": sut::rows_json(&expected)}),
            sut::outcome_json(&got, |t| t.to_json()),
            seq.len() as u64,
        )];
    }
    vec![]
}

/// Z: date_trunc / EXTRACT under time zones with daylight saving (child processes, TZ from tzdata names and POSIX rules):
/// the instants of the two change days before and after the change and ordinary days. The printed local text of
/// date_trunc(part, ts) is the printed text of ts with the smaller fields set to their first value, and EXTRACT gives
/// the fields of the printed text (zones with whole-hour offsets; local midnight exists on all chosen days).
fn tz_layer(col: &Collector) {
    let def = "CREATE TABLE z('ts=<([^>]*)>' => ts TIMESTAMP, 'k=(\\w+)' => k TEXT);";
    let stamps = ["2021-03-28 01:30:15", "2021-03-28 03:30:15", "2021-03-28 15:00:00", "2021-03-14 01:30:00", "2021-03-14 03:30:00", "2021-03-14 23:59:59", "2021-10-31 01:30:15", "2021-10-31 03:30:15", "2021-10-31 15:45:10", "2021-11-07 00:30:00", "2021-11-07 03:30:00", "2021-11-07 22:10:05", "2021-06-15 12:34:56", "2021-01-01 00:00:00", "2021-12-31 23:59:59"];
    let data: String = stamps.iter().map(|t| format!("k=a ts=<{}>\n", t)).collect();
    let q = "SELECT ts AS t, date_trunc('day', ts) AS d, date_trunc('month', ts) AS m, date_trunc('year', ts) AS y, date_trunc('hour', ts) AS h, date_trunc('minute', ts) AS mi, EXTRACT(HOUR FROM ts) AS eh, EXTRACT(DAY FROM ts) AS ed, EXTRACT(MONTH FROM ts) AS em FROM z";
    let qw = "SELECT ts AS t FROM z WHERE date_trunc('day', ts) <= ts AND EXTRACT(DAY FROM date_trunc('day', ts)) = EXTRACT(DAY FROM ts) AND EXTRACT(HOUR FROM date_trunc('day', ts)) = 0";
    let mut n = 0u64;
    for tz in ["UTC", "Europe/Stockholm", "America/New_York", "CET-1CEST,M3.5.0,M10.5.0/3", "EST5EDT,M3.2.0,M11.1.0", "XXX-3"] {
        n += 1;
        col.eval(stamps.len() as u64);
        col.nontrivial(h64(&("Z", tz)));
        let out = sut::run_stmt_child_env(def, q, "json", &[Some(data.as_bytes())], 30, &[("TZ", tz)]);
        let printed: Vec<String> = match &out {
            crate::sut::ChildOut::Done(j) => j["run"]["printed"].as_array().map(|a| a.iter().filter_map(|x| x.as_str().map(|s| s.to_string())).collect()).unwrap_or_default(),
            _ => vec![],
        };
        let rows: Vec<J> = printed.iter().filter_map(|l| serde_json::from_str::<J>(l).ok()).collect();
        let mut problems: Vec<String> = Vec::new();
        if rows.len() != stamps.len() {
            problems.push(format!("{} rows for {} lines", rows.len(), stamps.len()));
        }
        for (r, src) in rows.iter().zip(stamps.iter()) {
            let t = r["t"].as_str().unwrap_or("");
            if !t.starts_with(src) || t.len() < 23 {
                problems.push(format!("ts of line <{}> printed as {:?}", src, t));
                continue;
            }
            let want = [("d", format!("{} 00:00:00.000", &t[..10])), ("m", format!("{}-01 00:00:00.000", &t[..7])), ("y", format!("{}-01-01 00:00:00.000", &t[..4])), ("h", format!("{}:00:00.000", &t[..13])), ("mi", format!("{}:00.000", &t[..16]))];
            for (c, w) in want {
                if r[c].as_str() != Some(w.as_str()) {
                    problems.push(format!("date_trunc {} of {} is {} (expected {})", c, t, r[c], w));
                }
            }
            let wi = [("eh", t[11..13].parse::<i64>().unwrap_or(-1)), ("ed", t[8..10].parse::<i64>().unwrap_or(-1)), ("em", t[5..7].parse::<i64>().unwrap_or(-1))];
            for (c, w) in wi {
                if r[c].as_i64() != Some(w) {
                    problems.push(format!("EXTRACT {} of {} is {} (expected {})", c, t, r[c], w));
                }
            }
        }
        // the WHERE form: every line passes
        let outw = sut::run_stmt_child_env(def, qw, "json", &[Some(data.as_bytes())], 30, &[("TZ", tz)]);
        if let crate::sut::ChildOut::Done(j) = &outw {
            let nrows = j["run"]["printed"].as_array().map(|a| a.iter().filter(|x| x.as_str().map(|s| !s.is_empty()).unwrap_or(false)).count()).unwrap_or(0);
            if nrows != stamps.len() {
                problems.push(format!("WHERE on date_trunc('day') keeps {} of {} lines", nrows, stamps.len()));
            }
        } else {
            problems.push("WHERE statement did not finish".into());
        }
        if !problems.is_empty() {
            col.fail(fail(
                format!("Z:time-zone:{}", problems[0].split(' ').take(2).collect::<Vec<_>>().join("-")),
                format!("under TZ={}: {}", tz, problems.iter().take(4).cloned().collect::<Vec<_>>().join("; ")),
                json!({"layer": "Z", "tz": tz, "statement": q}),
                json!("fields of the printed local time"),
                json!(problems),
                n,
            ));
        }
    }
    col.layer("Z-date_trunc / EXTRACT under daylight-saving time zones (child processes)", n, true, json!({"zones": 6, "instants": stamps.len()}));
}

pub fn run(ctx: &Ctx) -> i32 {
    let col = Collector::new();
    tz_layer(&col);
    let tables = sut::make_tables(DEF).unwrap();
    // D1
    let ls = leaves();
    let sub = small_leaves();
    let exprs = d1(&ls, &sub);
    let total = exprs.len() as u64;
    let (done, complete) = par_for_budget(ctx, total, 32, |idx| {
        let e = &exprs[idx as usize];
        let (fs, nt, evals) = judge_expr(&tables, e, &[], false, "D1", None);
        col.eval(evals);
        if nt {
            col.nontrivial(h64(&e.full()));
        }
        col.outcome(h64(&(fs.len(), kind_sig(e, &Row::new()))));
        if idx % 2111 == 17 {
            col.sample(json!({"layer": "D1", "statement": format!("SELECT ({}) AS x FROM t", e.full()), "rows": "product of the domains of the mentioned columns"}));
        }
        for f in fs {
            col.fail(f);
        }
    });
    col.layer("D1", done, complete, json!({"expressions": total, "leaves": ls.len()}));
    // D2
    let d2_leaves = if ctx.tier == Tier::Thorough { medium_leaves() } else { small_leaves() };
    let base = d1(&d2_leaves, &d2_leaves[..4.min(d2_leaves.len())]);
    let exprs2 = d2(&base, &d2_leaves);
    let total2 = exprs2.len() as u64;
    let (done2, complete2) = par_for_budget(ctx, total2, 64, |idx| {
        let (e, guards) = &exprs2[idx as usize];
        let (fs, nt, evals) = judge_expr(&tables, e, guards, true, "D2", None);
        col.eval(evals);
        if nt {
            col.nontrivial(h64(&e.full()));
        }
        if idx % 50021 == 17 {
            col.sample(json!({"layer": "D2", "statement": format!("SELECT m FROM t WHERE ({})", e.full())}));
        }
        for f in fs {
            col.fail(f);
        }
    });
    col.layer("D2", done2, complete2, json!({"expressions": total2, "d1_base": base.len(), "leaves": d2_leaves.len()}));
    // M: type-correct operator chains written with minimal parentheses (the text a user writes), evaluated against the
    // reference tree: three arithmetic / comparison / boolean operators in all five shapes
    {
        let arith = [Bin::Add, Bin::Sub, Bin::Mul, Bin::Div];
        let mut chains: Vec<E> = Vec::new();
        // (a second leaf set ends in two literals: nothing may be computed ahead of the column it applies to)
        for leaves3 in [[E::Col("i".into()), E::Lit(Lit::Int(7)), E::Col("j".into()), E::Lit(Lit::Int(3))], [E::Col("i".into()), E::Col("j".into()), E::Lit(Lit::Int(3)), E::Lit(Lit::Int(2))], [E::Lit(Lit::Int(4)), E::Lit(Lit::Int(3)), E::Col("i".into()), E::Lit(Lit::Int(2))]] {
        for o1 in arith {
            for o2 in arith {
                for o3 in arith {
                    let l = |n: usize| leaves3[n].clone();
                    chains.push(E::Bin(o3, b(E::Bin(o2, b(E::Bin(o1, b(l(0)), b(l(1)))), b(l(2)))), b(l(3))));
                    chains.push(E::Bin(o1, b(l(0)), b(E::Bin(o2, b(l(1)), b(E::Bin(o3, b(l(2)), b(l(3))))))));
                    chains.push(E::Bin(o2, b(E::Bin(o1, b(l(0)), b(l(1)))), b(E::Bin(o3, b(l(2)), b(l(3))))));
                    chains.push(E::Bin(o3, b(E::Bin(o1, b(l(0)), b(E::Bin(o2, b(l(1)), b(l(2)))))), b(l(3))));
                    chains.push(E::Bin(o1, b(l(0)), b(E::Bin(o3, b(E::Bin(o2, b(l(1)), b(l(2)))), b(l(3))))));
                    // comparison of two arithmetic sides, and boolean combination
                    chains.push(E::Bin(Bin::Lt, b(E::Bin(o1, b(l(0)), b(l(1)))), b(E::Bin(o2, b(l(2)), b(l(3))))));
                    chains.push(E::Bin(Bin::Or, b(E::Bin(Bin::Eq, b(E::Bin(o1, b(l(0)), b(l(1)))), b(l(3)))), b(E::Bin(Bin::And, b(E::Col("b".into())), b(E::Bin(Bin::Gt, b(E::Bin(o3, b(l(2)), b(l(3)))), b(l(1))))))));
                }
            }
        }
        }
        let mut n_m = 0u64;
        for e in &chains {
            let mut cols = Vec::new();
            e.columns(&mut cols);
            let rows = rows_for(&cols, true);
            let lines: Vec<&str> = rows.iter().map(|(l, _)| l.as_str()).collect();
            let text = format!("SELECT {} AS x FROM t", e.min());
            if let Ok(got) = run_rows(&tables, &text, &lines) {
                for (k, (line, row)) in rows.iter().enumerate() {
                    n_m += 1;
                    if let Ev::Val(v) = eval(e, row) {
                        if !matches!(&got[k], Got::Val(x) if x.close(&v)) {
                            col.fail(fail(
                                format!("minimal-text:{}", kind_sig(e, row)),
                                format!("`{}` (meaning `{}`) on row {}: reference {:?}, implementation {}", e.min(), e.full(), line, v, describe(&got[k])),
                                json!({"layer": "M", "expr": e.full(), "minimal": e.min(), "line": line}),
                                v.to_json(),
                                json!(describe(&got[k])),
                                e.min().len() as u64,
                            ));
                            break;
                        }
                    }
                }
            } else {
                col.fail(fail("minimal-text:rejected".into(), format!("`{}` is rejected", text), json!({"layer": "M", "expr": e.full(), "minimal": e.min()}), json!("parses"), json!("rejected"), 0));
            }
            col.nontrivial(h64(&("M", e.min())));
        }
        col.eval(n_m);
        col.layer("M-minimal-text-chains", chains.len() as u64, true, json!({"chains": chains.len()}));
        col.sample(json!({"layer": "M", "statement": "SELECT i - 7 * j + 3 AS x FROM t"}));
    }
    // statement shapes
    let stables = sut::make_tables(SDEF).unwrap();
    let k = shape_lines().len() as u64;
    let maxlen = 3u32;
    let nseq = seq_count(k, maxlen);
    let mut n_s = 0u64;
    for idx in 0..nseq {
        let seq = seq_decode(idx, k, maxlen);
        for pi in 0..8 {
            for fi in 0..4 {
                for f in shape_case(&stables, pi, fi, &seq) {
                    col.fail(f);
                }
                col.eval(1);
                n_s += 1;
                if seq.len() >= 2 {
                    col.nontrivial(h64(&("S", &seq, pi, fi)));
                }
            }
        }
    }
    // tables on which an empty line is a row (catch-all pattern, DEFAULT column): every line gives exactly one output row
    {
        let etables = sut::make_tables(EDEF).unwrap();
        let el = ["a", "", "k=b", " "];
        let ke = el.len() as u64;
        for idx in 0..seq_count(ke, 3) {
            let seq = seq_decode(idx, ke, 3);
            for si in 0..EMPTY_STMTS.len() {
                for f in empty_line_case(&etables, si, &seq) {
                    col.fail(f);
                }
                col.eval(1);
                n_s += 1;
                if seq.iter().any(|i| *i == 1) && seq.len() >= 2 {
                    col.nontrivial(h64(&("S-empty", &seq, si)));
                }
            }
        }
    }
    // the statement shapes through every driver (files split, pipe, CRLF, CSV / text, command line, follow mode)
    {
        let projections = ["*", "input", "v", "v AS x", "v + 1", "t.v", "k, v + 1, s AS z, upper(k)", "input, k"];
        let filters = ["", "WHERE v > 1", "WHERE k = 'a'", "WHERE s IS NOT NULL AND v IS NOT NULL"];
        let inputs: [Vec<&str>; 2] = [vec!["a 1 x", "b 2 y", "###", "a 3"], vec!["c  z", "a 1 x", "a 1 x"]];
        let mut cases: Vec<(String, String, Vec<String>, bool)> = Vec::new();
        for (pi, p) in projections.iter().enumerate() {
            for (fi, f) in filters.iter().enumerate() {
                for (ii, inp) in inputs.iter().enumerate() {
                    cases.push((SDEF.to_string(), format!("SELECT {} FROM t {}", p, f).trim().to_string(), inp.iter().map(|s| s.to_string()).collect(), ii == 0 && (pi + fi) % 2 == 0));
                }
            }
        }
        for s in EMPTY_STMTS {
            cases.push((EDEF.to_string(), s.to_string(), vec!["a".into(), "".into(), "k=b".into(), " ".into()], true));
        }
        crate::drivers::run_layer(&col, &cases, &|_| "select".to_string());
    }
    col.layer("S-statement-shapes", n_s, true, json!({"projections": 8, "filters": 4, "line_sequences": nseq}));
    col.sample(json!({"layer": "S", "statement": "SELECT k, v + 1, s AS z, upper(k) FROM t WHERE v > 1", "lines": ["a 1 x", "###", "b 2 y"]}));
    finish(
        ctx,
        &col,
        Finish {
            level: "exploration",
            rule: "D1: every node kind (12 binary operators, IS [NOT] NULL, NOT, unary minus, IN / NOT IN with 1-3 elements, CASE, 6 casts, 7 EXTRACT parts, subscripts, 16 functions, array construction) over all tuples of 24 leaves, ill-typed combinations included, on all rows of the product domain of the mentioned columns; D2: binary/unary/cast nodes over D1 children (leaf subset), rows where a child already disagrees are skipped; both as projection and as WHERE; oracle: reference evaluator (value / error / open). S: projection lists x filters x all line sequences <= 3. Non-trivial: the expression takes >= 2 different reference outcomes over its rows.".into(),
            exhaustive: true,
            assumptions: vec!["TZ=UTC".into(), "open points of DESIGN.md §4 are not compared".into(), "REAL results compared with relative tolerance 1e-9".into()],
            bounds: json!({"d1_leaves": ls.len(), "d2_leaves": d2_leaves.len()}),
        },
    )
}

pub fn replay(case: &J) -> Vec<Failure> {
    if case["layer"].as_str() == Some("Z") {
        let col = Collector::new();
        tz_layer(&col);
        let f = col.failures.lock().unwrap();
        return f.values().flat_map(|v| v.iter().cloned()).filter(|f| f.case["tz"] == case["tz"]).collect();
    }
    if case["layer"].as_str() == Some("S-empty") {
        let seq: Vec<u8> = case["seq"].as_array().unwrap().iter().map(|x| x.as_u64().unwrap() as u8).collect();
        return empty_line_case(&sut::make_tables(EDEF).unwrap(), case["si"].as_u64().unwrap() as usize, &seq);
    }
    if case["layer"].as_str() == Some("S") {
        let stables = sut::make_tables(SDEF).unwrap();
        let seq: Vec<u8> = case["seq"].as_array().unwrap().iter().map(|x| x.as_u64().unwrap() as u8).collect();
        return shape_case(&stables, case["pi"].as_u64().unwrap() as usize, case["fi"].as_u64().unwrap() as usize, &seq);
    }
    let tables = sut::make_tables(DEF).unwrap();
    let want = case["expr"].as_str().unwrap_or("");
    let line = case["line"].as_str();
    let form = case["form"].as_str().unwrap_or("").to_string();
    let ls = leaves();
    let sub = small_leaves();
    for e in d1(&ls, &sub) {
        if e.full() == want {
            return judge_expr(&tables, &e, &[], false, "D1", line).0.into_iter().filter(|f| form.is_empty() || f.case["form"].as_str() == Some(&form)).collect();
        }
    }
    let ml = medium_leaves();
    let base = d1(&ml, &ml[..4]);
    for (e, g) in d2(&base, &ml) {
        if e.full() == want {
            return judge_expr(&tables, &e, &g, true, "D2", line).0.into_iter().filter(|f| form.is_empty() || f.case["form"].as_str() == Some(&form)).collect();
        }
    }
    vec![]
}
