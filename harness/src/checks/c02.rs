//! C02 — JSON-path extraction yields exactly the addressed JSON value, typed.
//!
//! Enumerated: column specs (7 paths x 7 types x {-, CONVERT, DEFAULT, NOT NULL}) alone and in ordered pairs (independence),
//! each next to a regex column on the raw line, x all JSON documents up to depth 2 (3 along the path in the thorough tier)
//! over a 15-leaf alphabet incl. numbers beyond i64 / f64, plus textual variants (duplicate keys, whitespace, trailing
//! garbage, every prefix of every small document, non-JSON lines).
//! Oracle: serde_json as the trusted parser -> reference path walker -> reference conversion table.

use serde_json::{json, Value as J};

use crate::checks::fail;
use crate::core::*;
use crate::refmodel::expr::parse_literal;
use crate::sut::{self, Outcome, RVal};

#[derive(Clone, Debug)]
enum Step {
    Field(&'static str),
    Index(usize),
}

#[derive(Clone, Debug)]
struct Spec {
    path_text: &'static str,
    path: Vec<Step>,
    ty: &'static str, // int real text boolean timestamp(convert only) + "[]" suffix for arrays
    modifier: &'static str, // "", "CONVERT", "DEFAULT", "NOT NULL"
}

fn paths() -> Vec<(&'static str, Vec<Step>)> {
    vec![
        (".a", vec![Step::Field("a")]),
        (".b", vec![Step::Field("b")]),
        (".a.b", vec![Step::Field("a"), Step::Field("b")]),
        (".a[0]", vec![Step::Field("a"), Step::Index(0)]),
        (".a[1].b", vec![Step::Field("a"), Step::Index(1), Step::Field("b")]),
        ("[0]", vec![Step::Index(0)]),
        ("[1].a", vec![Step::Index(1), Step::Field("a")]),
        (".a[1][0]", vec![Step::Field("a"), Step::Index(1), Step::Index(0)]),
        ("[0][1]", vec![Step::Index(0), Step::Index(1)]),
        (".b.a", vec![Step::Field("b"), Step::Field("a")]),
    ]
}

fn specs() -> Vec<Spec> {
    let mut out = Vec::new();
    for (pt, p) in paths() {
        for ty in ["int", "real", "text", "boolean", "int[]", "text[]", "real[]", "int[][]", "text[][]"] {
            for m in ["", "CONVERT", "DEFAULT", "NOT NULL"] {
                if ty.ends_with("[]") && (m == "DEFAULT" || m == "CONVERT") {
                    continue;
                }
                out.push(Spec { path_text: pt, path: p.clone(), ty, modifier: m });
            }
        }
        out.push(Spec { path_text: pt, path: p.clone(), ty: "timestamp", modifier: "CONVERT" });
        out.push(Spec { path_text: pt, path: p.clone(), ty: "interval", modifier: "CONVERT" });
    }
    out
}

fn default_literal(ty: &str) -> (&'static str, RVal) {
    match ty {
        "int" => ("7", RVal::Int(7)),
        "real" => ("2.5", RVal::Real(2.5)),
        "text" => ("'dflt'", RVal::Text("dflt".into())),
        _ => ("TRUE", RVal::Bool(true)),
    }
}

fn spec_sql(s: &Spec, name: &str) -> String {
    let m = match s.modifier {
        "DEFAULT" => format!(" DEFAULT {}", default_literal(s.ty).0),
        "" => String::new(),
        o => format!(" {}", o),
    };
    format!("{{ {} }} => {} {}{}", s.path_text, name, s.ty.to_uppercase(), m)
}

fn walk<'a>(v: &'a J, path: &[Step]) -> Option<&'a J> {
    let mut cur = v;
    for st in path {
        cur = match st {
            Step::Field(f) => cur.as_object()?.get(*f)?,
            Step::Index(i) => cur.as_array()?.get(*i)?,
        };
    }
    Some(cur)
}

fn convert_scalar(ty: &str, v: &J) -> RVal {
    match ty {
        "int" => match v {
            J::Number(n) if n.is_i64() => RVal::Int(n.as_i64().unwrap()),
            _ => RVal::Null,
        },
        "real" => match v {
            J::Number(n) => n.as_f64().map(RVal::Real).unwrap_or(RVal::Null),
            _ => RVal::Null,
        },
        "text" => v.as_str().map(|s| RVal::Text(s.to_string())).unwrap_or(RVal::Null),
        "boolean" => v.as_bool().map(RVal::Bool).unwrap_or(RVal::Null),
        _ => RVal::Null,
    }
}

/// reference value of a spec on a line
fn ref_value(s: &Spec, doc: &Option<J>) -> RVal {
    let default = if s.modifier == "DEFAULT" { default_literal(s.ty).1 } else { RVal::Null };
    let doc = match doc {
        Some(d) => d,
        None => return default,
    };
    let v = match walk(doc, &s.path) {
        Some(v) => v,
        None => return default,
    };
    if s.modifier == "CONVERT" {
        return match v.as_str() {
            Some(text) => parse_literal(s.ty, text).unwrap_or(RVal::Null),
            None => RVal::Null,
        };
    }
    convert_typed(s.ty, v)
}

/// arrays element-wise (arrays of arrays: each element converted as an array of the inner type)
fn convert_typed(ty: &str, v: &J) -> RVal {
    if let Some(el) = ty.strip_suffix("[]") {
        return match v.as_array() {
            Some(items) => RVal::Array(items.iter().map(|x| convert_typed(el, x)).collect()),
            None => RVal::Null,
        };
    }
    convert_scalar(ty, v)
}

const LEAVES: [&str; 15] = ["null", "true", "false", "0", "-1", "9223372036854775807", "9223372036854775808", "18446744073709551616", "1.5", "1e308", "\"s\"", "\"12\"", "\"1.5\"", "\"\"", "\"2021-01-01 00:00:00\""];

fn depth1() -> Vec<String> {
    let mut v: Vec<String> = LEAVES.iter().map(|s| s.to_string()).collect();
    v.push("[]".into());
    v.push("{}".into());
    for a in LEAVES {
        v.push(format!("[{}]", a));
        v.push(format!("{{\"a\":{}}}", a));
        v.push(format!("{{\"b\":{}}}", a));
        for bq in ["null", "1", "\"s\"", "1.5", "true"] {
            v.push(format!("[{},{}]", a, bq));
            v.push(format!("[{},{}]", bq, a));
            v.push(format!("{{\"a\":{},\"b\":{}}}", a, bq));
            v.push(format!("{{\"b\":{},\"a\":{}}}", a, bq));
        }
    }
    v
}

fn documents(thorough: bool) -> Vec<String> {
    let d1 = depth1();
    let mut v = d1.clone();
    for x in &d1 {
        v.push(format!("{{\"a\":{}}}", x));
        v.push(format!("[{}]", x));
        v.push(format!("[0,{}]", x));
        v.push(format!("{{\"a\":{},\"b\":2}}", x));
        v.push(format!("{{\"a\":[0,{}]}}", x));
        v.push(format!("{{\"a\":[1,[{},2]]}}", x));
        v.push(format!("[[0,{}],1]", x));
        v.push(format!("{{\"b\":{{\"a\":{}}}}}", x));
        if thorough {
            v.push(format!("{{\"a\":{{\"b\":{}}}}}", x));
            v.push(format!("{{\"a\":[{},{{\"b\":{}}}]}}", x, x));
            v.push(format!("[{{\"a\":1}},{{\"a\":{}}}]", x));
            v.push(format!("{{\"b\":{},\"a\":[{}]}}", x, x));
        }
    }
    // an index step must not select an object member named like the index, a key step not an array element
    for x in ["1", "\"s\""] {
        v.push(format!("{{\"0\":{}}}", x));
        v.push(format!("{{\"1\":{}}}", x));
        v.push(format!("{{\"a\":{{\"0\":{},\"1\":{}}}}}", x, x));
        v.push(format!("{{\"l\":{{\"1\":{}}}}}", x));
        v.push(format!("[{{\"0\":{}}},{{\"1\":{}}}]", x, x));
        v.push(format!("{{\"a\":[{{\"1\":{}}},{{\"0\":{}}}]}}", x, x));
    }
    // textual variants
    let small = ["{\"a\":1}", "{\"a\":[1,{\"b\":\"x\"}]}", "[1,{\"a\":true}]", "{\"a\":{\"b\":1.5}}", "{\"a\":\"12\",\"b\":null}"];
    for s in small {
        let chars: Vec<char> = s.chars().collect();
        for i in 0..chars.len() {
            v.push(chars[..i].iter().collect());
        }
        v.push(format!("  {}  ", s));
        v.push(format!("\t{}", s));
        v.push(format!("{} trailing", s));
        v.push(format!("{}{}", s, s));
        v.push(format!("x{}", s));
    }
    for s in ["{\"a\":1,\"a\":2}", "{\"a\":2,\"a\":\"s\"}", "{\"a\":{\"b\":1},\"a\":{\"b\":2}}", "{\"a\":1e400}", "{\"a\":-1e400}", "{\"a\":01}", "{'a':1}", "{\"a\":NaN}", "{\"a\":1,}", "zzz", "", " ", "null", "{\"a\":\"\\u0041\\n\"}", "{\"a\":\"é😀\"}", "{\"a\":-0}", "{\"a\":-0.0}", "{\"a\":1.0}", "{\"a\":1E2}", "{\"a\":-9223372036854775808}", "{\"a\":-9223372036854775809}", "{\"a\":\" 12\"}", "{\"a\":\"true\"}", "{\"a\":\"TRUE\"}", "{\"a\":\"1:02:03\"}", "{\"a\":\"2021-02-30 00:00:00\"}"] {
        v.push(s.to_string());
    }
    v
}

fn judge(spec_list: &[&Spec], line: &str, rank: u64) -> (Vec<Failure>, bool, u64) {
    let cols: Vec<String> = spec_list.iter().enumerate().map(|(i, s)| spec_sql(s, &format!("c{}", i))).collect();
    let def = format!("CREATE TABLE t('^(.)' => first TEXT, {});", cols.join(", "));
    let case = json!({"definition": def, "line": line});
    let tables = match sut::make_tables(&def) {
        Ok(t) => t,
        Err(e) => return (vec![fail(format!("definition-rejected:{}", msg_class(&e)), format!("{} rejected: {}", def, e), case, json!("parses"), json!(e), 0)], false, 0),
    };
    let st = sut::parse("SELECT * FROM t").unwrap();
    let doc: Option<J> = serde_json::from_str(line).ok();
    let first = line.chars().next().filter(|c| *c != '\n').map(|c| RVal::Text(c.to_string())).unwrap_or(RVal::Null);
    let mut expected: Vec<RVal> = vec![first];
    let mut cut = false;
    for s in spec_list {
        let v = ref_value(s, &doc);
        if v.is_null() && s.modifier == "NOT NULL" {
            cut = true;
        }
        expected.push(v);
    }
    let admitted = !cut && expected.iter().any(|v| !v.is_null());
    let got = sut::run_batch(&tables, &st, &[line]);
    let mut out = Vec::new();
    let okey = h64(&format!("{:?}", expected));
    match &got {
        Outcome::Ok(t) => {
            let ok = if admitted { t.rows.len() == 1 && t.rows[0].len() == expected.len() && t.rows[0].iter().zip(&expected).all(|(a, b)| a.same(b)) } else { t.rows.is_empty() };
            if !ok {
                // classify by the first differing column
                let mut sig = if admitted { "row-missing".to_string() } else { "unexpected-row".to_string() };
                if admitted && t.rows.len() == 1 {
                    for (i, (a, b)) in t.rows[0].iter().zip(&expected).enumerate() {
                        if !a.same(b) {
                            let s = if i == 0 { None } else { Some(spec_list[i - 1]) };
                            let src = s.and_then(|s| doc.as_ref().and_then(|d| walk(d, &s.path))).map(|v| match v { J::Null => "null", J::Bool(_) => "bool", J::Number(n) => if n.is_i64() { "integer" } else if n.is_u64() { "integer>i64" } else { "float" }, J::String(_) => "string", J::Array(_) => "array", J::Object(_) => "object" }).unwrap_or(if doc.is_none() { "invalid-json" } else { "absent" });
                            sig = format!("value:{}:{}:{}:from {}:expected {} got {}", s.map(|s| s.ty).unwrap_or("regex-column"), s.map(|s| s.modifier).unwrap_or(""), if spec_list.len() > 1 { "multi-column" } else { "single" }, src, b.type_name(), a.type_name());
                            break;
                        }
                    }
                }
                out.push(fail(format!("json-extract:{}", sig), format!("{} on line {:?}: expected {:?} (admitted={}), got {:?}", def, line, expected, admitted, t.rows), case, json!({"admitted": admitted, "row": expected.iter().map(|v| v.to_json()).collect::<Vec<_>>()}), t.to_json(), rank));
            }
        }
        Outcome::Err(e) => out.push(fail(format!("json-extract:error:{}", msg_class(e)), format!("{} on line {:?}: error {}", def, line, e), case, json!("row or no row"), json!(e), rank)),
        Outcome::Panic(p) => out.push(fail(panic_signature(p), format!("{} on line {:?}: panic {}", def, line, p.msg), case, json!("row or no row"), json!(p.msg), rank)),
    }
    // non-trivial: the path resolves on the document
    let resolves = spec_list.iter().any(|s| doc.as_ref().and_then(|d| walk(d, &s.path)).is_some());
    (out, resolves, okey)
}

pub fn run(ctx: &Ctx) -> i32 {
    let col = Collector::new();
    let sp = specs();
    let docs = documents(ctx.tier == Tier::Thorough);
    let nd = docs.len() as u64;
    let ns = sp.len() as u64;
    let (done, complete) = par_for_budget(ctx, ns * nd, 256, |idx| {
        let s = &sp[(idx % ns) as usize];
        let d = &docs[(idx / ns) as usize];
        let (fs, nt, okey) = judge(&[s], d, d.len() as u64);
        col.eval(1);
        if nt {
            col.nontrivial(h64(&(idx % ns, d)));
        }
        col.outcome(okey);
        if idx % 40009 == 5 {
            col.sample(json!({"column": spec_sql(s, "c0"), "line": d}));
        }
        for f in fs {
            col.fail(f);
        }
    });
    col.layer("single specs x documents", done, complete, json!({"specs": ns, "documents": nd}));
    // pairs (independence + NOT NULL cut) over a spec subset and a document subset
    let sub: Vec<&Spec> = sp.iter().filter(|s| matches!(s.path_text, ".a" | ".a.b" | "[0]") && matches!((s.ty, s.modifier), ("int", "") | ("text", "NOT NULL") | ("real", "DEFAULT") | ("int[]", "") | ("boolean", "CONVERT"))).collect();
    let dsub: Vec<&String> = docs.iter().step_by(if ctx.tier == Tier::Thorough { 1 } else { 11 }).collect();
    let np = (sub.len() * sub.len()) as u64;
    let (done2, complete2) = par_for_budget(ctx, np * dsub.len() as u64, 256, |idx| {
        let p = (idx % np) as usize;
        let (a, bq) = (sub[p / sub.len()], sub[p % sub.len()]);
        let d = dsub[(idx / np) as usize];
        let (fs, nt, okey) = judge(&[a, bq], d, d.len() as u64 + 1);
        col.eval(1);
        if nt {
            col.nontrivial(h64(&("pair", p, d)));
        }
        col.outcome(okey);
        for f in fs {
            col.fail(f);
        }
    });
    // JSON tables through every driver (files split, pipe, CRLF, CSV / text, command line, follow mode incl. fragmented appends)
    {
        let def = "CREATE TABLE t('^(.)' => first TEXT, { .a } => a INT, { .b.c } => bc TEXT DEFAULT 'd', { .l[1] } => l1 REAL, { .ts } => ts TIMESTAMP CONVERT);";
        let input: Vec<String> = vec!["{\"a\":1,\"b\":{\"c\":\"x\"},\"l\":[1,2.5]}".into(), "not json".into(), "{\"a\":null,\"ts\":\"2021-01-01 00:00:01\"}".into(), " {\"a\": 3} ".into(), "".into(), "{\"a\":4,\"l\":[0]}".into(), "{\"a\":\"é\",\"b\":{\"c\":\"ü\"}}".into()];
        let mut cases: Vec<(String, String, Vec<String>, bool)> = Vec::new();
        for st in ["SELECT * FROM t", "SELECT a, bc FROM t WHERE a > 1", "SELECT bc, COUNT(*), SUM(a) FROM t GROUP BY bc", "SELECT input FROM t WHERE l1 IS NOT NULL", "SELECT DISTINCT bc FROM t", "SELECT a FROM t LIMIT 2"] {
            cases.push((def.to_string(), st.to_string(), input.clone(), true));
        }
        crate::drivers::run_layer(&col, &cases, &|_| "json-table".to_string());
    }
    col.layer("spec pairs x documents", done2, complete2, json!({"specs": sub.len(), "documents": dsub.len()}));
    col.sample(json!({"columns": [spec_sql(sub[0], "c0"), spec_sql(sub[1], "c1")], "line": "{\"a\":{\"b\":1}}"}));
    finish(
        ctx,
        &col,
        Finish {
            level: "exploration",
            rule: "every column spec (7 paths x 7 types x modifiers, plus TIMESTAMP/INTERVAL CONVERT) next to a regex column, alone and in ordered pairs of a subset, x all JSON documents up to depth 2 over a 15-leaf alphabet and textual variants (all prefixes of small documents, duplicate keys, whitespace, trailing garbage, out-of-range numbers, non-JSON); oracle: serde_json parse -> reference walker -> reference conversion / DEFAULT / NOT NULL / admission. Non-trivial: the path resolves on the document.".into(),
            exhaustive: true,
            assumptions: vec!["serde_json is the trusted JSON parser (number classification integer / float, duplicate keys: last wins)".into(), "TZ=UTC".into()],
            bounds: json!({"documents": nd, "specs": ns}),
        },
    )
}

pub fn replay(case: &J) -> Vec<Failure> {
    let def = case["definition"].as_str().unwrap_or("");
    let line = case["line"].as_str().unwrap_or("");
    let sp = specs();
    // find the spec list that renders to this definition
    for a in &sp {
        if format!("CREATE TABLE t('^(.)' => first TEXT, {});", spec_sql(a, "c0")) == def {
            return judge(&[a], line, 0).0;
        }
    }
    for a in &sp {
        for bq in &sp {
            if format!("CREATE TABLE t('^(.)' => first TEXT, {}, {});", spec_sql(a, "c0"), spec_sql(bq, "c1")) == def {
                return judge(&[a, bq], line, 0).0;
            }
        }
    }
    vec![]
}
