//! Independent reference semantics (shares no code with sqlgrep).

use std::cmp::Ordering;

use crate::sut::RVal;

pub mod expr;

/// exact numeric comparison of an i64 with an f64 (None when the float is NaN)
pub fn cmp_int_real(i: i64, r: f64) -> Option<Ordering> {
    if r.is_nan() {
        return None;
    }
    if r >= 9223372036854775808.0 {
        return Some(Ordering::Less);
    }
    if r < -9223372036854775808.0 {
        return Some(Ordering::Greater);
    }
    let fl = r.floor();
    let fi = fl as i64;
    match i.cmp(&fi) {
        Ordering::Equal => Some(if r > fl { Ordering::Less } else { Ordering::Equal }),
        o => Some(o),
    }
}

/// reference equality of two values as used for grouping / DISTINCT / joins: NULL equals NULL here (callers that
/// need SQL comparison semantics treat NULL before calling), numbers by value, all NaNs in one class
pub fn ref_eq(a: &RVal, b: &RVal) -> bool {
    match (a, b) {
        (RVal::Null, RVal::Null) => true,
        (RVal::Int(x), RVal::Int(y)) => x == y,
        (RVal::Real(x), RVal::Real(y)) => (x.is_nan() && y.is_nan()) || x == y,
        (RVal::Int(x), RVal::Real(y)) | (RVal::Real(y), RVal::Int(x)) => cmp_int_real(*x, *y) == Some(Ordering::Equal),
        (RVal::Bool(x), RVal::Bool(y)) => x == y,
        (RVal::Text(x), RVal::Text(y)) => x == y,
        (RVal::Ts(x), RVal::Ts(y)) => x == y,
        (RVal::Iv(x), RVal::Iv(y)) => x == y,
        (RVal::Array(x), RVal::Array(y)) => x.len() == y.len() && x.iter().zip(y).all(|(p, q)| ref_eq(p, q)),
        _ => false,
    }
}

pub fn tuple_eq(a: &[RVal], b: &[RVal]) -> bool {
    a.len() == b.len() && a.iter().zip(b).all(|(x, y)| ref_eq(x, y))
}

/// reference order within one type (None: not comparable / different types). NULL sorts first. NaN sorts after every number.
pub fn ref_cmp(a: &RVal, b: &RVal) -> Option<Ordering> {
    match (a, b) {
        (RVal::Null, RVal::Null) => Some(Ordering::Equal),
        (RVal::Null, _) => Some(Ordering::Less),
        (_, RVal::Null) => Some(Ordering::Greater),
        (RVal::Int(x), RVal::Int(y)) => Some(x.cmp(y)),
        (RVal::Real(x), RVal::Real(y)) => Some(match (x.is_nan(), y.is_nan()) {
            (true, true) => Ordering::Equal,
            (true, false) => Ordering::Greater,
            (false, true) => Ordering::Less,
            _ => x.partial_cmp(y).unwrap(),
        }),
        (RVal::Int(x), RVal::Real(y)) => Some(cmp_int_real(*x, *y).unwrap_or(Ordering::Less)),
        (RVal::Real(x), RVal::Int(y)) => Some(cmp_int_real(*y, *x).map(|o| o.reverse()).unwrap_or(Ordering::Greater)),
        (RVal::Bool(x), RVal::Bool(y)) => Some(x.cmp(y)),
        (RVal::Text(x), RVal::Text(y)) => Some(x.as_bytes().cmp(y.as_bytes())), // UTF-8 byte order == code point order
        (RVal::Ts(x), RVal::Ts(y)) => Some(x.cmp(y)),
        (RVal::Iv(x), RVal::Iv(y)) => Some(x.cmp(y)),
        (RVal::Array(x), RVal::Array(y)) => {
            for (p, q) in x.iter().zip(y) {
                match ref_cmp(p, q)? {
                    Ordering::Equal => {}
                    o => return Some(o),
                }
            }
            Some(x.len().cmp(&y.len()))
        }
        _ => None,
    }
}

/// first-occurrence filter with reference tuple equality
pub fn distinct_rows(rows: &[Vec<RVal>]) -> Vec<Vec<RVal>> {
    let mut out: Vec<Vec<RVal>> = Vec::new();
    for r in rows {
        if !out.iter().any(|o| tuple_eq(o, r)) {
            out.push(r.clone());
        }
    }
    out
}
