//! Reference expression AST, renderers (fully / minimally parenthesised) and evaluator.
//! Semantics follow property C03 and the README; everything the properties leave open evaluates to `Ev::Open`
//! (no comparison is made for such cases).

use std::cmp::Ordering;
use std::collections::HashMap;

use crate::refmodel::{cmp_int_real, ref_cmp, ref_eq};
use crate::sut::RVal;

#[derive(Clone, Debug, PartialEq)]
pub enum Lit {
    Null,
    Int(i64),
    Real(f64),
    Text(String),
    Bool(bool),
}

#[derive(Clone, Copy, Debug, PartialEq, Eq, Hash)]
pub enum Bin {
    Add,
    Sub,
    Mul,
    Div,
    Eq,
    Ne,
    Lt,
    Le,
    Gt,
    Ge,
    And,
    Or,
}

impl Bin {
    pub fn text(&self) -> &'static str {
        match self {
            Bin::Add => "+",
            Bin::Sub => "-",
            Bin::Mul => "*",
            Bin::Div => "/",
            Bin::Eq => "=",
            Bin::Ne => "!=",
            Bin::Lt => "<",
            Bin::Le => "<=",
            Bin::Gt => ">",
            Bin::Ge => ">=",
            Bin::And => "AND",
            Bin::Or => "OR",
        }
    }
    /// precedence level of the reference grammar (higher binds tighter)
    pub fn level(&self) -> u8 {
        match self {
            Bin::Mul | Bin::Div => 7,
            Bin::Add | Bin::Sub => 6,
            Bin::Eq | Bin::Ne | Bin::Lt | Bin::Le | Bin::Gt | Bin::Ge => 5,
            Bin::And => 2,
            Bin::Or => 1,
        }
    }
    pub fn all() -> [Bin; 12] {
        [Bin::Add, Bin::Sub, Bin::Mul, Bin::Div, Bin::Eq, Bin::Ne, Bin::Lt, Bin::Le, Bin::Gt, Bin::Ge, Bin::And, Bin::Or]
    }
    pub fn is_cmp(&self) -> bool {
        matches!(self, Bin::Eq | Bin::Ne | Bin::Lt | Bin::Le | Bin::Gt | Bin::Ge)
    }
    pub fn is_arith(&self) -> bool {
        matches!(self, Bin::Add | Bin::Sub | Bin::Mul | Bin::Div)
    }
}

#[derive(Clone, Debug, PartialEq)]
pub enum E {
    Lit(Lit),
    Col(String),
    Bin(Bin, Box<E>, Box<E>),
    IsNull(Box<E>, bool), // (operand, negated)  x IS NULL / x IS NOT NULL
    Not(Box<E>),
    Neg(Box<E>),
    In(Box<E>, Vec<E>, bool),
    Case(Vec<(E, E)>, Box<E>),
    Cast(Box<E>, &'static str),
    Index(Box<E>, Box<E>),
    Call(&'static str, Vec<E>),
    Extract(&'static str, Box<E>),
    Array(Vec<E>),
}

pub fn b(e: E) -> Box<E> {
    Box::new(e)
}

fn lit_text(l: &Lit) -> String {
    match l {
        Lit::Null => "NULL".into(),
        Lit::Int(i) => i.to_string(),
        Lit::Real(r) => {
            let s = format!("{:?}", r);
            if s.contains('.') && !s.contains('e') {
                s
            } else {
                format!("{:.1}", r)
            }
        }
        Lit::Text(t) => format!("'{}'", t.replace('\\', "\\\\").replace('\'', "\\'")),
        Lit::Bool(true) => "TRUE".into(),
        Lit::Bool(false) => "FALSE".into(),
    }
}

/// level of the outermost operator (atoms = 10). NOT = 3, IS/IN = 5 (comparison level), unary minus = 8, postfix = 9
fn level(e: &E) -> u8 {
    match e {
        E::Lit(_) | E::Col(_) | E::Case(..) | E::Call(..) | E::Extract(..) | E::Array(_) => 10,
        E::Cast(..) | E::Index(..) => 9,
        E::Neg(_) => 8,
        E::Bin(op, ..) => op.level(),
        E::IsNull(..) | E::In(..) => 5,
        E::Not(_) => 3,
    }
}

impl E {
    /// every compound sub-expression in parentheses
    pub fn full(&self) -> String {
        let p = |e: &E| -> String {
            if level(e) >= 10 {
                e.full()
            } else {
                format!("({})", e.full())
            }
        };
        match self {
            E::Lit(l) => lit_text(l),
            E::Col(c) => c.clone(),
            E::Bin(op, l, r) => format!("{} {} {}", p(l), op.text(), p(r)),
            E::IsNull(x, neg) => format!("{} IS {}NULL", p(x), if *neg { "NOT " } else { "" }),
            E::Not(x) => format!("NOT {}", p(x)),
            E::Neg(x) => format!("- {}", p(x)),
            E::In(x, vs, neg) => format!("{} {}IN ({})", p(x), if *neg { "NOT " } else { "" }, vs.iter().map(|v| p(v)).collect::<Vec<_>>().join(", ")),
            E::Case(cl, el) => format!("CASE {} ELSE {} END", cl.iter().map(|(c, r)| format!("WHEN {} THEN {}", p(c), p(r))).collect::<Vec<_>>().join(" "), p(el)),
            E::Cast(x, t) => format!("{}::{}", p(x), t),
            E::Index(a, i) => format!("{}[{}]", p(a), p(i)),
            E::Call(f, args) => format!("{}({})", f, args.iter().map(|a| p(a)).collect::<Vec<_>>().join(", ")),
            E::Extract(part, x) => format!("EXTRACT({} FROM {})", part, p(x)),
            E::Array(xs) => format!("ARRAY[{}]", xs.iter().map(|a| p(a)).collect::<Vec<_>>().join(", ")),
        }
    }

    /// minimal parentheses under the reference grammar of property C13 (binary operators left-associative)
    pub fn min(&self) -> String {
        // child printed where a sub-expression of at least level `need` is required
        let c = |e: &E, need: u8| -> String {
            if level(e) >= need {
                e.min()
            } else {
                format!("({})", e.min())
            }
        };
        match self {
            E::Lit(l) => lit_text(l),
            E::Col(cn) => cn.clone(),
            E::Bin(op, l, r) => format!("{} {} {}", c(l, op.level()), op.text(), c(r, op.level() + 1)),
            E::IsNull(x, neg) => format!("{} IS {}NULL", c(x, 5), if *neg { "NOT " } else { "" }),
            E::Not(x) => format!("NOT {}", c(x, 3)),
            E::Neg(x) => {
                let s = c(x, 8);
                // "--" starts a comment: a negated operand that itself starts with a minus needs a blank
                if s.starts_with('-') {
                    format!("- {}", s)
                } else {
                    format!("-{}", s)
                }
            }
            E::In(x, vs, neg) => format!("{} {}IN ({})", c(x, 5), if *neg { "NOT " } else { "" }, vs.iter().map(|v| c(v, 1)).collect::<Vec<_>>().join(", ")),
            E::Case(cl, el) => format!("CASE {} ELSE {} END", cl.iter().map(|(k, r)| format!("WHEN {} THEN {}", c(k, 1), c(r, 1))).collect::<Vec<_>>().join(" "), c(el, 1)),
            E::Cast(x, t) => format!("{}::{}", c(x, 9), t),
            E::Index(a, i) => format!("{}[{}]", c(a, 9), c(i, 1)),
            E::Call(f, args) => format!("{}({})", f, args.iter().map(|a| c(a, 1)).collect::<Vec<_>>().join(", ")),
            E::Extract(part, x) => format!("EXTRACT({} FROM {})", part, c(x, 1)),
            E::Array(xs) => format!("ARRAY[{}]", xs.iter().map(|a| c(a, 1)).collect::<Vec<_>>().join(", ")),
        }
    }

    pub fn columns(&self, out: &mut Vec<String>) {
        match self {
            E::Lit(_) => {}
            E::Col(c) => {
                if !out.contains(c) {
                    out.push(c.clone())
                }
            }
            E::Bin(_, l, r) | E::Index(l, r) => {
                l.columns(out);
                r.columns(out)
            }
            E::IsNull(x, _) | E::Not(x) | E::Neg(x) | E::Cast(x, _) | E::Extract(_, x) => x.columns(out),
            E::In(x, vs, _) => {
                x.columns(out);
                for v in vs {
                    v.columns(out)
                }
            }
            E::Case(cl, el) => {
                for (c, r) in cl {
                    c.columns(out);
                    r.columns(out)
                }
                el.columns(out)
            }
            E::Call(_, a) | E::Array(a) => {
                for x in a {
                    x.columns(out)
                }
            }
        }
    }
}

/// result of the reference evaluation
#[derive(Clone, Debug)]
pub enum Ev {
    /// the expression has this value
    Val(RVal),
    /// the expression has no value on this row: the query must report an error
    NoValue(&'static str),
    /// the properties do not fix the outcome: nothing is compared
    Open(&'static str),
}

pub type Row = HashMap<String, RVal>;

fn truth(v: &RVal) -> Option<bool> {
    match v {
        RVal::Bool(b) => Some(*b),
        RVal::Null => Some(false),
        _ => None,
    }
}

fn compare(op: Bin, l: &RVal, r: &RVal) -> Ev {
    if l.is_null() || r.is_null() {
        return Ev::Val(RVal::Bool(false));
    }
    let ord: Option<Ordering> = match (l, r) {
        (RVal::Int(_), RVal::Int(_)) | (RVal::Real(_), RVal::Real(_)) | (RVal::Text(_), RVal::Text(_)) | (RVal::Ts(_), RVal::Ts(_)) | (RVal::Iv(_), RVal::Iv(_)) => {
            if let (RVal::Real(x), RVal::Real(y)) = (l, r) {
                if x.is_nan() || y.is_nan() {
                    return Ev::Open("NaN in comparison");
                }
            }
            ref_cmp(l, r)
        }
        (RVal::Int(x), RVal::Real(y)) => match cmp_int_real(*x, *y) {
            Some(o) => Some(o),
            None => return Ev::Open("NaN in comparison"),
        },
        (RVal::Real(x), RVal::Int(y)) => match cmp_int_real(*y, *x) {
            Some(o) => Some(o.reverse()),
            None => return Ev::Open("NaN in comparison"),
        },
        (RVal::Array(x), RVal::Array(y)) if {
            let tx = x.iter().find(|v| !v.is_null()).map(type_of);
            let ty = y.iter().find(|v| !v.is_null()).map(type_of);
            tx.is_none() || ty.is_none() || tx != ty
        } =>
        {
            let tx = x.iter().find(|v| !v.is_null()).map(type_of);
            let ty = y.iter().find(|v| !v.is_null()).map(type_of);
            return if tx.is_some() && ty.is_some() { Ev::NoValue("arrays of different element types") } else { Ev::Open("array whose element type is not evident") };
        }
        (RVal::Bool(_), RVal::Bool(_)) | (RVal::Array(_), RVal::Array(_)) => {
            return match op {
                Bin::Eq => Ev::Val(RVal::Bool(ref_eq(l, r))),
                Bin::Ne => Ev::Val(RVal::Bool(!ref_eq(l, r))),
                _ => Ev::Open("ordering of booleans / arrays"),
            };
        }
        // a text compared with a timestamp is read as a timestamp literal (README: `WHERE timestamp > '2021-...'`),
        // whichever side it is on; a text that is no timestamp literal has no value to compare
        (RVal::Ts(x), RVal::Text(t)) => match parse_ts(t) {
            Some(y) => Some(x.cmp(&y)),
            None => return Ev::NoValue("text compared with a timestamp is not a timestamp literal"),
        },
        (RVal::Text(t), RVal::Ts(y)) => match parse_ts(t) {
            Some(x) => Some(x.cmp(y)),
            None => return Ev::NoValue("text compared with a timestamp is not a timestamp literal"),
        },
        _ => return Ev::NoValue("comparison of different types"),
    };
    let o = ord.unwrap();
    Ev::Val(RVal::Bool(match op {
        Bin::Eq => o == Ordering::Equal,
        Bin::Ne => o != Ordering::Equal,
        Bin::Lt => o == Ordering::Less,
        Bin::Le => o != Ordering::Greater,
        Bin::Gt => o == Ordering::Greater,
        Bin::Ge => o != Ordering::Less,
        _ => unreachable!(),
    }))
}

fn arith(op: Bin, l: &RVal, r: &RVal) -> Ev {
    match (l, r) {
        (RVal::Null, RVal::Null) => Ev::Val(RVal::Null),
        (RVal::Null, other) | (other, RVal::Null) => match other {
            RVal::Int(_) | RVal::Real(_) | RVal::Iv(_) | RVal::Ts(_) => Ev::Val(RVal::Null),
            _ => Ev::Open("arithmetic of NULL with a non-numeric value"),
        },
        (RVal::Int(x), RVal::Int(y)) => {
            let v = match op {
                Bin::Add => x.checked_add(*y),
                Bin::Sub => x.checked_sub(*y),
                Bin::Mul => x.checked_mul(*y),
                Bin::Div => {
                    if *y == 0 {
                        return Ev::NoValue("integer division by zero");
                    }
                    x.checked_div(*y)
                }
                _ => unreachable!(),
            };
            match v {
                Some(v) => Ev::Val(RVal::Int(v)),
                None => Ev::NoValue("integer overflow"),
            }
        }
        (RVal::Real(x), RVal::Real(y)) => {
            if op == Bin::Div && *y == 0.0 {
                return Ev::Open("REAL division by zero");
            }
            let v = match op {
                Bin::Add => x + y,
                Bin::Sub => x - y,
                Bin::Mul => x * y,
                Bin::Div => x / y,
                _ => unreachable!(),
            };
            if !v.is_finite() {
                return Ev::Open("REAL overflow");
            }
            Ev::Val(RVal::Real(v))
        }
        (RVal::Int(_), RVal::Real(_)) | (RVal::Real(_), RVal::Int(_)) => Ev::Open("mixed INT/REAL arithmetic"),
        (RVal::Ts(t), RVal::Iv(i)) => match op {
            Bin::Add => t.checked_add(*i).map(|v| Ev::Val(RVal::Ts(v))).unwrap_or(Ev::NoValue("timestamp overflow")),
            Bin::Sub => t.checked_sub(*i).map(|v| Ev::Val(RVal::Ts(v))).unwrap_or(Ev::NoValue("timestamp overflow")),
            _ => Ev::NoValue("timestamp * / interval"),
        },
        (RVal::Iv(i), RVal::Ts(t)) => match op {
            Bin::Add => t.checked_add(*i).map(|v| Ev::Val(RVal::Ts(v))).unwrap_or(Ev::NoValue("timestamp overflow")),
            Bin::Sub => Ev::Open("interval - timestamp"),
            _ => Ev::NoValue("interval * / timestamp"),
        },
        (RVal::Ts(x), RVal::Ts(y)) => match op {
            Bin::Sub => x.checked_sub(*y).map(|v| Ev::Val(RVal::Iv(v))).unwrap_or(Ev::NoValue("interval overflow")),
            _ => Ev::NoValue("timestamp + * / timestamp"),
        },
        (RVal::Iv(x), RVal::Iv(y)) => match op {
            Bin::Add => x.checked_add(*y).map(|v| Ev::Val(RVal::Iv(v))).unwrap_or(Ev::NoValue("interval overflow")),
            Bin::Sub => x.checked_sub(*y).map(|v| Ev::Val(RVal::Iv(v))).unwrap_or(Ev::NoValue("interval overflow")),
            _ => Ev::NoValue("interval * / interval"),
        },
        _ => Ev::NoValue("arithmetic on non-numeric types"),
    }
}

macro_rules! val {
    ($e:expr) => {
        match $e {
            Ev::Val(v) => v,
            other => return other,
        }
    };
}

pub fn parse_ts(text: &str) -> Option<i64> {
    // "%Y-%m-%d %H:%M:%S" in UTC (harness runs with TZ=UTC); own calendar arithmetic
    let (d, t) = text.split_once(' ')?;
    let dp: Vec<&str> = d.split('-').collect();
    let tp: Vec<&str> = t.split(':').collect();
    if dp.len() != 3 || tp.len() != 3 {
        return None;
    }
    let num = |s: &str, maxlen: usize| -> Option<i64> {
        if s.is_empty() || s.len() > maxlen || !s.chars().all(|c| c.is_ascii_digit()) {
            None
        } else {
            s.parse().ok()
        }
    };
    let (y, mo, da) = (num(dp[0], 4)?, num(dp[1], 2)?, num(dp[2], 2)?);
    let (h, mi, s) = (num(tp[0], 2)?, num(tp[1], 2)?, num(tp[2], 2)?);
    civil_to_micros(y, mo, da, h, mi, s, 0)
}

pub fn is_leap(y: i64) -> bool {
    (y % 4 == 0 && y % 100 != 0) || y % 400 == 0
}

pub fn days_in_month(y: i64, m: i64) -> i64 {
    match m {
        1 | 3 | 5 | 7 | 8 | 10 | 12 => 31,
        4 | 6 | 9 | 11 => 30,
        2 => {
            if is_leap(y) {
                29
            } else {
                28
            }
        }
        _ => 0,
    }
}

/// proleptic Gregorian civil date/time (UTC) -> microseconds since the epoch; None when any part is out of range
pub fn civil_to_micros(y: i64, m: i64, d: i64, h: i64, mi: i64, s: i64, us: i64) -> Option<i64> {
    if !(1..=12).contains(&m) || d < 1 || d > days_in_month(y, m) || !(0..24).contains(&h) || !(0..60).contains(&mi) || !(0..60).contains(&s) || !(0..1_000_000).contains(&us) || !(-200_000..=200_000).contains(&y) {
        return None;
    }
    // days from civil (Howard Hinnant's algorithm)
    let yy = if m <= 2 { y - 1 } else { y };
    let era = if yy >= 0 { yy } else { yy - 399 } / 400;
    let yoe = yy - era * 400;
    let mp = (m + 9) % 12;
    let doy = (153 * mp + 2) / 5 + d - 1;
    let doe = yoe * 365 + yoe / 4 - yoe / 100 + doy;
    let days = era * 146097 + doe - 719468;
    Some(((days * 24 + h) * 60 + mi) * 60_000_000 + s * 1_000_000 + us)
}

/// microseconds since epoch -> (y, m, d, h, mi, s, us) in UTC
pub fn micros_to_civil(t: i64) -> (i64, i64, i64, i64, i64, i64, i64) {
    let us = t.rem_euclid(1_000_000);
    let secs = t.div_euclid(1_000_000);
    let sod = secs.rem_euclid(86400);
    let days = secs.div_euclid(86400);
    let z = days + 719468;
    let era = if z >= 0 { z } else { z - 146096 } / 146097;
    let doe = z - era * 146097;
    let yoe = (doe - doe / 1460 + doe / 36524 - doe / 146096) / 365;
    let y = yoe + era * 400;
    let doy = doe - (365 * yoe + yoe / 4 - yoe / 100);
    let mp = (5 * doy + 2) / 153;
    let d = doy - (153 * mp + 2) / 5 + 1;
    let m = if mp < 10 { mp + 3 } else { mp - 9 };
    let y = if m <= 2 { y + 1 } else { y };
    (y, m, d, sod / 3600, (sod % 3600) / 60, sod % 60, us)
}

pub fn parse_interval(text: &str) -> Option<i64> {
    let p: Vec<&str> = text.split(':').collect();
    if p.len() != 3 {
        return None;
    }
    let h: i64 = p[0].parse().ok()?;
    let m: i64 = p[1].parse().ok()?;
    let s: i64 = p[2].parse().ok()?;
    h.checked_mul(3_600_000_000)?.checked_add(m.checked_mul(60_000_000)?)?.checked_add(s.checked_mul(1_000_000)?)
}

/// literal grammar of the declared types (used for casts and for extraction)
pub fn parse_literal(ty: &str, text: &str) -> Option<RVal> {
    match ty {
        "int" => text.parse::<i64>().ok().map(RVal::Int),
        "real" => text.parse::<f64>().ok().map(RVal::Real),
        "boolean" => match text {
            "true" => Some(RVal::Bool(true)),
            "false" => Some(RVal::Bool(false)),
            _ => None,
        },
        "text" => Some(RVal::Text(text.to_string())),
        "timestamp" => parse_ts(text).map(RVal::Ts),
        "interval" => parse_interval(text).map(RVal::Iv),
        _ => None,
    }
}

fn type_of(v: &RVal) -> &'static str {
    match v {
        RVal::Null => "null",
        RVal::Int(_) => "int",
        RVal::Real(_) => "real",
        RVal::Bool(_) => "boolean",
        RVal::Text(_) => "text",
        RVal::Array(_) => "array",
        RVal::Ts(_) => "timestamp",
        RVal::Iv(_) => "interval",
    }
}

pub fn eval(e: &E, row: &Row) -> Ev {
    match e {
        E::Lit(l) => Ev::Val(match l {
            Lit::Null => RVal::Null,
            Lit::Int(i) => RVal::Int(*i),
            Lit::Real(r) => RVal::Real(*r),
            Lit::Text(t) => RVal::Text(t.clone()),
            Lit::Bool(x) => RVal::Bool(*x),
        }),
        E::Col(c) => match row.get(c) {
            Some(v) => Ev::Val(v.clone()),
            None => Ev::NoValue("unknown column"),
        },
        E::Bin(op, l, r) => {
            if matches!(op, Bin::And | Bin::Or) {
                // both operands are evaluated for errors only as far as the implementation may short-circuit:
                // an error in the right operand is Open when the left operand already decides the result
                let lv = val!(eval(l, row));
                let lt = match truth(&lv) {
                    Some(t) => t,
                    None => return Ev::Open("non-BOOLEAN operand of AND/OR"),
                };
                let decided = (*op == Bin::And && !lt) || (*op == Bin::Or && lt);
                let rv = match eval(r, row) {
                    Ev::Val(v) => v,
                    Ev::NoValue(w) => return if decided { Ev::Open("error in an operand that short-circuit evaluation may skip") } else { Ev::NoValue(w) },
                    o => return o,
                };
                let rt = match truth(&rv) {
                    Some(t) => t,
                    None => return Ev::Open("non-BOOLEAN operand of AND/OR"),
                };
                return Ev::Val(RVal::Bool(if *op == Bin::And { lt && rt } else { lt || rt }));
            }
            let lv = val!(eval(l, row));
            let rv = val!(eval(r, row));
            if op.is_cmp() {
                compare(*op, &lv, &rv)
            } else {
                arith(*op, &lv, &rv)
            }
        }
        E::IsNull(x, neg) => {
            let v = val!(eval(x, row));
            Ev::Val(RVal::Bool(v.is_null() != *neg))
        }
        E::Not(x) => {
            let v = val!(eval(x, row));
            match v {
                RVal::Bool(t) => Ev::Val(RVal::Bool(!t)),
                RVal::Null => Ev::Open("NOT applied to NULL"),
                _ => Ev::NoValue("NOT of a non-BOOLEAN"),
            }
        }
        E::Neg(x) => {
            let v = val!(eval(x, row));
            match v {
                RVal::Null => Ev::Val(RVal::Null),
                RVal::Int(i) => i.checked_neg().map(|v| Ev::Val(RVal::Int(v))).unwrap_or(Ev::NoValue("integer overflow")),
                RVal::Real(r) => Ev::Val(RVal::Real(-r)),
                RVal::Iv(_) => Ev::Open("negated interval"),
                _ => Ev::NoValue("unary minus on a non-numeric value"),
            }
        }
        E::In(x, vs, neg) => {
            let xv = val!(eval(x, row));
            // x IN (v1, v2) = x = v1 OR x = v2 ; x NOT IN (v1, v2) = x != v1 AND x != v2
            let mut acc = *neg;
            let mut pending_error: Option<Ev> = None;
            for v in vs {
                let vv = val!(eval(v, row));
                let c = compare(if *neg { Bin::Ne } else { Bin::Eq }, &xv, &vv);
                match c {
                    Ev::Val(RVal::Bool(t)) => {
                        if *neg {
                            acc = acc && t;
                        } else {
                            acc = acc || t;
                        }
                    }
                    other => {
                        if pending_error.is_none() {
                            pending_error = Some(other);
                        }
                    }
                }
            }
            if let Some(pe) = pending_error {
                // a type mismatch inside the list: an error unless short-circuiting already decided
                return match pe {
                    Ev::NoValue(_) => Ev::Open("type mismatch inside an IN list (short-circuit dependent)"),
                    o => o,
                };
            }
            Ev::Val(RVal::Bool(acc))
        }
        E::Case(cl, el) => {
            for (c, r) in cl {
                let cv = val!(eval(c, row));
                match truth(&cv) {
                    Some(true) => return eval(r, row),
                    Some(false) => {}
                    None => return Ev::Open("non-BOOLEAN CASE condition"),
                }
            }
            eval(el, row)
        }
        E::Cast(x, t) => {
            let v = val!(eval(x, row));
            match (&v, *t) {
                (RVal::Text(s), ty) => match parse_literal(ty, s) {
                    Some(v) => Ev::Val(v),
                    None => Ev::NoValue("text is not a literal of the target type"),
                },
                (RVal::Null, _) => Ev::Open("cast of NULL"),
                (v, ty) if type_of(v) == ty => Ev::Val(v.clone()),
                (RVal::Int(i), "text") => Ev::Val(RVal::Text(i.to_string())),
                (RVal::Bool(x), "text") => Ev::Val(RVal::Text(x.to_string())),
                (_, "text") => Ev::Open("text rendering of REAL / timestamp / interval / array"),
                (RVal::Int(_), "real") | (RVal::Real(_), "int") => Ev::Open("INT <-> REAL cast"),
                (RVal::Iv(_), "int") | (RVal::Iv(_), "real") => Ev::Open("interval to number cast"),
                _ => Ev::NoValue("cast between unrelated types"),
            }
        }
        E::Index(a, i) => {
            let av = val!(eval(a, row));
            let iv = val!(eval(i, row));
            match (av, iv) {
                (RVal::Array(xs), RVal::Int(i)) => {
                    if i >= 1 && (i as u64) <= xs.len() as u64 {
                        Ev::Val(xs[(i - 1) as usize].clone())
                    } else {
                        Ev::Open("subscript out of range")
                    }
                }
                (RVal::Null, _) | (_, RVal::Null) => Ev::Open("subscript of / with NULL"),
                _ => Ev::NoValue("subscript on a non-array or with a non-INT index"),
            }
        }
        E::Array(xs) => {
            let mut vs = Vec::new();
            for x in xs {
                vs.push(val!(eval(x, row)));
            }
            let types: Vec<&str> = vs.iter().filter(|v| !v.is_null()).map(type_of).collect();
            if types.is_empty() {
                return Ev::NoValue("array of only NULLs has no element type");
            }
            if types.iter().any(|t| *t != types[0]) {
                return Ev::NoValue("array elements of different types");
            }
            Ev::Val(RVal::Array(vs))
        }
        E::Extract(part, x) => {
            let v = val!(eval(x, row));
            match v {
                RVal::Ts(t) => {
                    let (y, m, d, h, mi, s, _) = micros_to_civil(t);
                    Ev::Val(match *part {
                        "year" => RVal::Int(y),
                        "month" => RVal::Int(m),
                        "day" => RVal::Int(d),
                        "hour" => RVal::Int(h),
                        "minute" => RVal::Int(mi),
                        "second" => RVal::Int(s),
                        "epoch" => RVal::Real((t.div_euclid(1000)) as f64 / 1000.0),
                        _ => return Ev::NoValue("unknown EXTRACT part"),
                    })
                }
                RVal::Null => Ev::Open("EXTRACT from NULL"),
                _ => Ev::NoValue("EXTRACT from a non-timestamp"),
            }
        }
        E::Call(f, args) => {
            let mut vs = Vec::new();
            for a in args {
                vs.push(val!(eval(a, row)));
            }
            call(f, &vs)
        }
    }
}

fn call(f: &str, a: &[RVal]) -> Ev {
    let any_null = a.iter().any(|v| v.is_null());
    match (f, a) {
        ("greatest", [x, y]) | ("least", [x, y]) => match (x, y) {
            (RVal::Int(_), RVal::Int(_)) | (RVal::Real(_), RVal::Real(_)) | (RVal::Iv(_), RVal::Iv(_)) => {
                if let (RVal::Real(p), RVal::Real(q)) = (x, y) {
                    if p.is_nan() || q.is_nan() {
                        return Ev::Open("NaN in greatest/least");
                    }
                }
                let o = ref_cmp(x, y).unwrap();
                let pick_x = if f == "greatest" { o != Ordering::Less } else { o != Ordering::Greater };
                let v = if pick_x { x.clone() } else { y.clone() };
                // -0.0 vs 0.0: either is acceptable
                if let (RVal::Real(p), RVal::Real(q)) = (x, y) {
                    if *p == 0.0 && *q == 0.0 {
                        return Ev::Open("greatest/least of signed zeros");
                    }
                }
                Ev::Val(v)
            }
            _ if any_null => Ev::Open("function of NULL"),
            (RVal::Ts(_), RVal::Ts(_)) => Ev::Open("greatest/least of timestamps (not in README signature)"),
            _ => Ev::NoValue("greatest/least argument types"),
        },
        ("abs", [x]) => match x {
            RVal::Int(i) => i.checked_abs().map(|v| Ev::Val(RVal::Int(v))).unwrap_or(Ev::NoValue("integer overflow")),
            RVal::Real(r) => Ev::Val(RVal::Real(r.abs())),
            RVal::Iv(i) => i.checked_abs().map(|v| Ev::Val(RVal::Iv(v))).unwrap_or(Ev::Open("interval overflow")),
            RVal::Null => Ev::Open("function of NULL"),
            _ => Ev::NoValue("abs argument type"),
        },
        ("sqrt", [x]) => match x {
            RVal::Real(r) => {
                if *r < 0.0 {
                    Ev::Open("sqrt of a negative number")
                } else {
                    Ev::Val(RVal::Real(r.sqrt()))
                }
            }
            RVal::Null => Ev::Open("function of NULL"),
            RVal::Int(_) => Ev::Open("sqrt(INT) (README: REAL)"),
            _ => Ev::NoValue("sqrt argument type"),
        },
        ("pow", [x, y]) => match (x, y) {
            (RVal::Real(p), RVal::Real(q)) => {
                let v = p.powf(*q);
                if v.is_finite() {
                    Ev::Val(RVal::Real(v))
                } else {
                    Ev::Open("REAL overflow / domain")
                }
            }
            _ if any_null => Ev::Open("function of NULL"),
            (RVal::Int(_), RVal::Int(_)) => Ev::Open("pow(INT, INT) (README: REAL)"),
            (RVal::Int(_), RVal::Real(_)) | (RVal::Real(_), RVal::Int(_)) => Ev::Open("pow with mixed INT/REAL"),
            _ => Ev::NoValue("pow argument types"),
        },
        ("regexp_matches", [x, y]) => match (x, y) {
            (RVal::Text(s), RVal::Text(p)) => match regex::Regex::new(p) {
                Ok(re) => Ev::Val(RVal::Bool(re.is_match(s))),
                Err(_) => Ev::NoValue("invalid regex"),
            },
            _ if any_null => Ev::Open("function of NULL"),
            _ => Ev::NoValue("regexp_matches argument types"),
        },
        ("length", [x]) => match x {
            RVal::Text(s) => Ev::Val(RVal::Int(s.chars().count() as i64)),
            RVal::Null => Ev::Open("function of NULL"),
            _ => Ev::NoValue("length argument type"),
        },
        ("upper", [x]) | ("lower", [x]) => match x {
            RVal::Text(s) => Ev::Val(RVal::Text(if f == "upper" { s.to_uppercase() } else { s.to_lowercase() })),
            RVal::Null => Ev::Open("function of NULL"),
            _ => Ev::NoValue("upper/lower argument type"),
        },
        ("array_length", [x]) => match x {
            RVal::Array(xs) => Ev::Val(RVal::Int(xs.len() as i64)),
            RVal::Null => Ev::Open("function of NULL"),
            _ => Ev::NoValue("array_length argument type"),
        },
        ("array_unique", [x]) => match x {
            RVal::Array(xs) => {
                let mut out: Vec<RVal> = Vec::new();
                for v in xs {
                    if !out.iter().any(|o| ref_eq(o, v)) {
                        out.push(v.clone());
                    }
                }
                out.sort_by(|p, q| ref_cmp(p, q).unwrap_or(Ordering::Equal));
                Ev::Val(RVal::Array(out))
            }
            RVal::Null => Ev::Open("function of NULL"),
            _ => Ev::NoValue("array_unique argument type"),
        },
        ("array_cat", [x, y]) => match (x, y) {
            (RVal::Array(p), RVal::Array(q)) => {
                let tp = p.iter().find(|v| !v.is_null()).map(type_of);
                let tq = q.iter().find(|v| !v.is_null()).map(type_of);
                if tp.is_some() && tq.is_some() && tp != tq {
                    return Ev::NoValue("array_cat of different element types");
                }
                if tp.is_none() || tq.is_none() {
                    return Ev::Open("array_cat with an array whose element type is not evident");
                }
                Ev::Val(RVal::Array(p.iter().chain(q.iter()).cloned().collect()))
            }
            _ if any_null => Ev::Open("function of NULL"),
            _ => Ev::NoValue("array_cat argument types"),
        },
        ("array_append", [x, y]) | ("array_prepend", [y, x]) => match (x, y) {
            (RVal::Array(p), v) if !v.is_null() => {
                let tp = p.iter().find(|v| !v.is_null()).map(type_of);
                if tp.is_none() {
                    return Ev::Open("array whose element type is not evident");
                }
                if tp != Some(type_of(v)) {
                    return Ev::NoValue("element of another type");
                }
                let mut out = p.clone();
                if f == "array_append" {
                    out.push(v.clone());
                } else {
                    out.insert(0, v.clone());
                }
                Ev::Val(RVal::Array(out))
            }
            _ if any_null => Ev::Open("function of NULL"),
            _ => Ev::NoValue("array_append/prepend argument types"),
        },
        ("make_timestamp", vs) if vs.len() == 7 => {
            let mut p = [0i64; 7];
            for (i, v) in vs.iter().enumerate() {
                match v {
                    RVal::Int(x) => p[i] = *x,
                    RVal::Null => return Ev::Open("function of NULL"),
                    _ => return Ev::NoValue("make_timestamp argument types"),
                }
            }
            match civil_to_micros(p[0], p[1], p[2], p[3], p[4], p[5], p[6]) {
                Some(t) => Ev::Val(RVal::Ts(t)),
                // a part outside its range: no timestamp (NULL, as the unchanged tree answers for month 13 or hour -1);
                // never a timestamp made from a wrapped-around part
                None => Ev::Val(RVal::Null),
            }
        }
        ("date_trunc", [x, y]) => match (x, y) {
            (RVal::Text(part), RVal::Ts(t)) => {
                let (yy, m, d, h, mi, s, us) = micros_to_civil(*t);
                let r = match part.as_str() {
                    "year" => civil_to_micros(yy, 1, 1, 0, 0, 0, 0),
                    "month" => civil_to_micros(yy, m, 1, 0, 0, 0, 0),
                    "day" => civil_to_micros(yy, m, d, 0, 0, 0, 0),
                    "hour" => civil_to_micros(yy, m, d, h, 0, 0, 0),
                    "minute" => civil_to_micros(yy, m, d, h, mi, 0, 0),
                    "second" => civil_to_micros(yy, m, d, h, mi, s, 0),
                    "milliseconds" => civil_to_micros(yy, m, d, h, mi, s, us - us % 1000),
                    "microseconds" => Some(*t),
                    _ => return Ev::NoValue("unknown date_trunc part"),
                };
                r.map(|v| Ev::Val(RVal::Ts(v))).unwrap_or(Ev::Open("date_trunc range"))
            }
            _ if any_null => Ev::Open("function of NULL"),
            _ => Ev::NoValue("date_trunc argument types"),
        },
        _ => Ev::NoValue("unknown function or wrong number of arguments"),
    }
}
