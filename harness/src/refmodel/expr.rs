// reference expression evaluator (filled in below)
