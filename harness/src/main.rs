mod core;
mod sut;
mod gen;
mod refmodel;
mod checks;
mod drivers;

use crate::core::{Ctx, Tier};

fn usage() -> ! {
    eprintln!("usage: vcheck <C01..C20> [quick|thorough] | vcheck <Cxx> --replay <file> | vcheck --child <mode> ...");
    std::process::exit(2);
}

fn main() {
    let args: Vec<String> = std::env::args().collect();
    if args.len() < 2 {
        usage();
    }
    core::install_panic_hook();
    if args[1] == "--child" {
        std::process::exit(checks::child_main(&args[2..]));
    }
    let prop = args[1].to_uppercase();
    let prop_static: &'static str = Box::leak(prop.clone().into_boxed_str());
    if args.len() >= 4 && args[2] == "--replay" {
        let rc = checks::replay(prop_static, &args[3]);
        std::process::exit(rc);
    }
    let mut tier = match args.get(2).map(|s| s.as_str()) {
        Some("thorough") => Tier::Thorough,
        Some("quick") | None => Tier::Quick,
        _ => usage(),
    };
    if let Ok(t) = std::env::var("VERIF_TIER") {
        match t.as_str() {
            "thorough" => tier = Tier::Thorough,
            "quick" => tier = Tier::Quick,
            _ => {}
        }
    }
    let seed = std::env::var("VERIF_SEED").ok().and_then(|s| s.parse::<u64>().ok()).unwrap_or(0);
    let budget = std::env::var("VERIF_BUDGET_S").ok().and_then(|s| s.parse::<f64>().ok()).unwrap_or(match tier {
        Tier::Quick => 55.0,
        Tier::Thorough => 3600.0,
    });
    let ctx = Ctx { prop: prop_static, tier, seed, start: std::time::Instant::now(), budget_s: budget };
    let rc = checks::run(&ctx);
    std::process::exit(rc);
}
