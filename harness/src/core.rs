//! Shared machinery: tiers, panic capture, parallel enumeration, collectors, known findings,
//! replay files and evidence writer.

use std::cell::RefCell;
use std::collections::{BTreeMap, HashSet};
use std::hash::{Hash, Hasher};
use std::sync::atomic::{AtomicBool, AtomicU64, Ordering};
use std::sync::Mutex;
use std::time::Instant;

use serde_json::{json, Value as J};

/// directory of the verification checkout this binary was started from (set by ./check; /verif by default)
pub fn verif_dir() -> String {
    std::env::var("VERIF_DIR").unwrap_or_else(|_| "/verif".to_string())
}

#[derive(Clone, Copy, PartialEq, Eq, Debug)]
pub enum Tier {
    Quick,
    Thorough,
}

impl Tier {
    pub fn name(&self) -> &'static str {
        match self {
            Tier::Quick => "quick",
            Tier::Thorough => "thorough",
        }
    }
    pub fn pick<T>(&self, quick: T, thorough: T) -> T {
        match self {
            Tier::Quick => quick,
            Tier::Thorough => thorough,
        }
    }
}

pub struct Ctx {
    pub prop: &'static str,
    pub tier: Tier,
    pub seed: u64,
    pub start: Instant,
    /// wall-clock budget in seconds after which optional (deeper) layers are skipped / capped
    pub budget_s: f64,
}

impl Ctx {
    pub fn elapsed(&self) -> f64 {
        self.start.elapsed().as_secs_f64()
    }
    pub fn over_budget(&self) -> bool {
        self.elapsed() > self.budget_s
    }
}

// ---------------------------------------------------------------------------------------------
// panic capture

#[derive(Clone, Debug, PartialEq)]
pub struct PanicRec {
    pub msg: String,
    pub file: String,
    pub line: u32,
}

thread_local! {
    static LAST_PANIC: RefCell<Option<PanicRec>> = RefCell::new(None);
    static QUIET: RefCell<bool> = RefCell::new(false);
}

pub fn install_panic_hook() {
    let default = std::panic::take_hook();
    std::panic::set_hook(Box::new(move |info| {
        let msg = if let Some(s) = info.payload().downcast_ref::<&str>() {
            s.to_string()
        } else if let Some(s) = info.payload().downcast_ref::<String>() {
            s.clone()
        } else {
            "<non-string panic>".to_string()
        };
        let (file, line) = info.location().map(|l| (l.file().to_string(), l.line())).unwrap_or(("?".into(), 0));
        let quiet = QUIET.with(|q| *q.borrow());
        LAST_PANIC.with(|p| *p.borrow_mut() = Some(PanicRec { msg, file, line }));
        if !quiet {
            default(info);
        }
    }));
}

/// Runs `f`, converting a panic into a record (message + location). Panics inside are silent.
pub fn catch<T, F: FnOnce() -> T>(f: F) -> Result<T, PanicRec> {
    QUIET.with(|q| *q.borrow_mut() = true);
    LAST_PANIC.with(|p| *p.borrow_mut() = None);
    let r = std::panic::catch_unwind(std::panic::AssertUnwindSafe(f));
    QUIET.with(|q| *q.borrow_mut() = false);
    match r {
        Ok(v) => Ok(v),
        Err(_) => Err(LAST_PANIC.with(|p| p.borrow_mut().take()).unwrap_or(PanicRec { msg: "<unknown>".into(), file: "?".into(), line: 0 })),
    }
}

/// Signature of a panic site that does not depend on line numbers: file (relative to the crate
/// it lives in) + trimmed source text of the panicking line + message class.
pub fn panic_signature(p: &PanicRec) -> String {
    let rel = rel_file(&p.file);
    let src = source_line(&p.file, p.line);
    format!("panic@{}:`{}`:{}", rel, src, msg_class(&p.msg))
}

fn rel_file(file: &str) -> String {
    if let Some(i) = file.find("/registry/src/") {
        // dependency: keep crate dir + path
        let rest = &file[i + "/registry/src/".len()..];
        let rest = rest.splitn(2, '/').nth(1).unwrap_or(rest);
        return format!("dep:{}", rest);
    }
    if let Some(i) = file.find("/rustc/") {
        let rest = &file[i + "/rustc/".len()..];
        let rest = rest.splitn(2, '/').nth(1).unwrap_or(rest);
        return format!("std:{}", rest);
    }
    file.trim_start_matches("/repo/").to_string()
}

fn source_line(file: &str, line: u32) -> String {
    let path = if file.starts_with('/') { file.to_string() } else { format!("/repo/{}", file) };
    if let Ok(text) = std::fs::read_to_string(&path) {
        if let Some(l) = text.lines().nth((line as usize).saturating_sub(1)) {
            return l.trim().to_string();
        }
    }
    format!("line {}", line)
}

/// Collapse numbers / quoted data in a panic message so that the signature names the kind of failure.
pub fn msg_class(msg: &str) -> String {
    let mut out = String::new();
    let mut last_digit = false;
    for c in msg.chars() {
        if c.is_ascii_digit() {
            if !last_digit {
                out.push('#');
            }
            last_digit = true;
        } else {
            last_digit = false;
            out.push(c);
        }
    }
    if out.len() > 120 {
        let mut cut = 120;
        while !out.is_char_boundary(cut) {
            cut -= 1;
        }
        out.truncate(cut);
    }
    out
}

// ---------------------------------------------------------------------------------------------
// hashing helper

pub fn h64<T: Hash + ?Sized>(t: &T) -> u64 {
    let mut h = fnv::FnvHasher::default();
    t.hash(&mut h);
    h.finish()
}

// ---------------------------------------------------------------------------------------------
// failures and collector

#[derive(Clone, Debug)]
pub struct Failure {
    /// narrow classifier signature (see DESIGN.md §3)
    pub signature: String,
    /// human readable description of what failed
    pub what: String,
    /// complete case, replayable by `--replay`
    pub case: J,
    pub expected: J,
    pub actual: J,
    /// simplest-first rank: lower is reported first
    pub rank: u64,
}

const SHARDS: usize = 64;

pub struct Collector {
    pub evaluations: AtomicU64,
    pub states: AtomicU64,
    pub transitions: AtomicU64,
    pub traces_validated: AtomicU64,
    nontrivial: Vec<Mutex<HashSet<u64>>>,
    outcomes: Vec<Mutex<HashSet<u64>>>,
    pub failures: Mutex<BTreeMap<String, Vec<Failure>>>,
    pub samples: Mutex<Vec<J>>,
    pub notes: Mutex<Vec<String>>,
    pub layers: Mutex<Vec<J>>,
    pub capped: AtomicBool,
    pub machinery_error: Mutex<Option<String>>,
}

impl Collector {
    pub fn new() -> Collector {
        Collector {
            evaluations: AtomicU64::new(0),
            states: AtomicU64::new(0),
            transitions: AtomicU64::new(0),
            traces_validated: AtomicU64::new(0),
            nontrivial: (0..SHARDS).map(|_| Mutex::new(HashSet::new())).collect(),
            outcomes: (0..SHARDS).map(|_| Mutex::new(HashSet::new())).collect(),
            failures: Mutex::new(BTreeMap::new()),
            samples: Mutex::new(Vec::new()),
            notes: Mutex::new(Vec::new()),
            layers: Mutex::new(Vec::new()),
            capped: AtomicBool::new(false),
            machinery_error: Mutex::new(None),
        }
    }
    pub fn eval(&self, n: u64) {
        self.evaluations.fetch_add(n, Ordering::Relaxed);
    }
    /// record a distinct non-trivial case (keyed by a hash of its identity)
    pub fn nontrivial(&self, key: u64) {
        self.nontrivial[(key as usize) % SHARDS].lock().unwrap().insert(key);
    }
    pub fn nontrivial_count(&self) -> u64 {
        self.nontrivial.iter().map(|s| s.lock().unwrap().len() as u64).sum()
    }
    pub fn outcome(&self, key: u64) {
        let mut s = self.outcomes[(key as usize) % SHARDS].lock().unwrap();
        if s.len() < 20000 {
            s.insert(key);
        }
    }
    pub fn outcome_count(&self) -> u64 {
        self.outcomes.iter().map(|s| s.lock().unwrap().len() as u64).sum()
    }
    pub fn sample(&self, j: J) {
        let mut s = self.samples.lock().unwrap();
        if s.len() < 12 {
            s.push(j);
        }
    }
    pub fn sample_count(&self) -> usize {
        self.samples.lock().unwrap().len()
    }
    pub fn note(&self, s: String) {
        self.notes.lock().unwrap().push(s);
    }
    pub fn layer(&self, name: &str, cases: u64, complete: bool, extra: J) {
        self.layers.lock().unwrap().push(json!({"layer": name, "cases": cases, "complete": complete, "detail": extra}));
        if !complete {
            self.capped.store(true, Ordering::Relaxed);
        }
    }
    pub fn fail(&self, f: Failure) {
        let mut m = self.failures.lock().unwrap();
        let v = m.entry(f.signature.clone()).or_insert_with(Vec::new);
        v.push(f);
        v.sort_by_key(|f| f.rank);
        v.truncate(3);
    }
    pub fn machinery(&self, msg: String) {
        let mut m = self.machinery_error.lock().unwrap();
        if m.is_none() {
            *m = Some(msg);
        }
    }
}

// ---------------------------------------------------------------------------------------------
// parallel enumeration over an index space (static interleaving; deterministic results)

pub fn par_for<F: Fn(u64) + Sync>(n: u64, f: F) {
    use rayon::prelude::*;
    (0..n).into_par_iter().for_each(|i| f(i));
}

/// Parallel loop that stops handing out work once the budget is exhausted. Returns number of
/// indexes fully processed (== n when complete). Indexes are processed in ascending chunks so the
/// completed part is a prefix of the space up to chunk granularity.
pub fn par_for_budget<F: Fn(u64) + Sync>(ctx: &Ctx, n: u64, chunk: u64, f: F) -> (u64, bool) {
    par_for_watch(ctx, n, chunk, &|i| json!({"index": i}), f)
}

/// set when a harness worker thread itself panicked (a bug of the machinery, never a verdict)
pub static HARNESS_PANIC: AtomicBool = AtomicBool::new(false);

/// seconds after which a single case that has not returned is reported as a hang
pub const HANG_SECS: u64 = 60;

// ---------------------------------------------------------------------------------------------
// process-wide watchdog for cases that run outside `par_for_watch` (sequential layers): `watch(description, f)` registers
// the case while `f` runs; a case that has not returned after HANG_SECS is reported as a violation and the process
// exits 1 (a computation that does not terminate cannot be interrupted from inside).

static WATCHED: Mutex<Option<std::collections::HashMap<u64, (Instant, String)>>> = Mutex::new(None);
static WATCH_PROP: Mutex<String> = Mutex::new(String::new());
static WATCH_IDS: AtomicU64 = AtomicU64::new(1);

pub fn install_watchdog(prop: &str) {
    *WATCH_PROP.lock().unwrap() = prop.to_string();
    let mut w = WATCHED.lock().unwrap();
    if w.is_some() {
        return;
    }
    *w = Some(std::collections::HashMap::new());
    std::thread::spawn(|| loop {
        std::thread::sleep(std::time::Duration::from_millis(500));
        let hung: Option<String> = {
            let w = WATCHED.lock().unwrap();
            w.as_ref().and_then(|m| m.values().find(|(t, _)| t.elapsed().as_secs() >= HANG_SECS).map(|(_, d)| d.clone()))
        };
        if let Some(desc) = hung {
            let prop = WATCH_PROP.lock().unwrap().clone();
            let sig = "hang:case did not return".to_string();
            let name = format!("{}/replays/{}-{:016x}.json", verif_dir(), prop, h64(&(sig.clone(), &desc)));
            std::fs::create_dir_all(format!("{}/replays", verif_dir())).ok();
            let case: J = serde_json::from_str(&desc).unwrap_or(json!({"case": desc}));
            let body = json!({"property": prop, "signature": sig, "what": format!("a single case did not return within {} s (execution must terminate)", HANG_SECS), "case": case});
            std::fs::write(&name, serde_json::to_string_pretty(&body).unwrap()).ok();
            println!("VIOLATION property={} replay={}", prop, name);
            println!("  signature: {}", sig);
            println!("  what: a single case did not return within {} s: {}", HANG_SECS, desc.chars().take(300).collect::<String>());
            std::process::exit(1);
        }
    });
}

/// run `f` registered under `description` (a JSON text of the case, used for the replay file should it hang)
pub fn watch<T>(description: &dyn Fn() -> String, f: impl FnOnce() -> T) -> T {
    let id = WATCH_IDS.fetch_add(1, Ordering::Relaxed);
    let registered = {
        let mut w = WATCHED.lock().unwrap();
        match w.as_mut() {
            Some(m) => {
                m.insert(id, (Instant::now(), description()));
                true
            }
            None => false,
        }
    };
    let r = f();
    if registered {
        if let Some(m) = WATCHED.lock().unwrap().as_mut() {
            m.remove(&id);
        }
    }
    r
}

/// Like par_for_budget, with a watchdog: every worker publishes the index it is working on; a case that does not
/// return within HANG_SECS is a violation ("never hangs"): the replay file is written from `describe(index)`, the
/// VIOLATION line is printed and the process exits with status 1 (a stuck thread cannot be cancelled).
pub fn par_for_watch<F: Fn(u64) + Sync>(ctx: &Ctx, n: u64, chunk: u64, describe: &(dyn Fn(u64) -> J + Sync), f: F) -> (u64, bool) {
    let next = AtomicU64::new(0);
    let done = AtomicU64::new(0);
    let stop = AtomicBool::new(false);
    let finished = AtomicBool::new(false);
    let threads = std::thread::available_parallelism().map(|x| x.get()).unwrap_or(8);
    // slot = (index + 1, start time in ms since ctx.start); 0 = idle
    let slots: Vec<(AtomicU64, AtomicU64)> = (0..threads).map(|_| (AtomicU64::new(0), AtomicU64::new(0))).collect();
    std::thread::scope(|s| {
        let mut workers = Vec::new();
        for t in 0..threads {
            let (next, done, stop, slots, f) = (&next, &done, &stop, &slots, &f);
            workers.push(s.spawn(move || loop {
                if stop.load(Ordering::Relaxed) {
                    break;
                }
                let start = next.fetch_add(chunk, Ordering::Relaxed);
                if start >= n {
                    break;
                }
                let end = (start + chunk).min(n);
                for i in start..end {
                    slots[t].1.store(ctx.start.elapsed().as_millis() as u64, Ordering::Relaxed);
                    slots[t].0.store(i + 1, Ordering::Release);
                    f(i);
                    slots[t].0.store(0, Ordering::Release);
                }
                done.fetch_add(end - start, Ordering::Relaxed);
                if ctx.over_budget() {
                    stop.store(true, Ordering::Relaxed);
                }
            }));
        }
        let (slots, finished) = (&slots, &finished);
        s.spawn(move || {
            while !finished.load(Ordering::Relaxed) {
                std::thread::sleep(std::time::Duration::from_millis(250));
                let now = ctx.start.elapsed().as_millis() as u64;
                for sl in slots.iter() {
                    let idx = sl.0.load(Ordering::Acquire);
                    let st = sl.1.load(Ordering::Relaxed);
                    if idx != 0 && now.saturating_sub(st) > HANG_SECS * 1000 && sl.0.load(Ordering::Acquire) == idx {
                        let case = describe(idx - 1);
                        let sig = "hang:case did not return".to_string();
                        let name = format!("{}/replays/{}-{:016x}.json", verif_dir(), ctx.prop, h64(&(sig.clone(), idx)));
                        std::fs::create_dir_all(format!("{}/replays", verif_dir())).ok();
                        let body = json!({"property": ctx.prop, "signature": sig, "what": format!("a single case did not return within {} s (execution must terminate)", HANG_SECS), "case": case});
                        std::fs::write(&name, serde_json::to_string_pretty(&body).unwrap()).ok();
                        println!("VIOLATION property={} replay={}", ctx.prop, name);
                        println!("  signature: {}", sig);
                        println!("  what: a single case did not return within {} s: {}", HANG_SECS, case);
                        std::process::exit(1);
                    }
                }
            }
        });
        for w in workers {
            if w.join().is_err() {
                HARNESS_PANIC.store(true, Ordering::Relaxed);
            }
        }
        finished.store(true, Ordering::Relaxed);
    });
    let d = done.load(Ordering::Relaxed);
    (d, d >= n)
}

// ---------------------------------------------------------------------------------------------
// enumeration helpers

/// all sequences of length 0..=max over alphabet size k, as index vectors, simplest first
pub fn sequences(k: usize, max: usize) -> Vec<Vec<u8>> {
    let mut out = vec![vec![]];
    let mut layer: Vec<Vec<u8>> = vec![vec![]];
    for _ in 0..max {
        let mut next = Vec::with_capacity(layer.len() * k);
        for s in &layer {
            for a in 0..k {
                let mut t = s.clone();
                t.push(a as u8);
                next.push(t);
            }
        }
        out.extend(next.iter().cloned());
        layer = next;
    }
    out
}

/// number of sequences of length 0..=max over k symbols
pub fn seq_count(k: u64, max: u32) -> u64 {
    (0..=max).map(|l| k.pow(l)).sum()
}

/// decode index into a sequence (length-then-lexicographic order)
pub fn seq_decode(mut idx: u64, k: u64, max: u32) -> Vec<u8> {
    let mut len = 0u32;
    loop {
        let c = k.pow(len);
        if idx < c {
            break;
        }
        idx -= c;
        len += 1;
        assert!(len <= max);
    }
    let mut v = vec![0u8; len as usize];
    for i in (0..len as usize).rev() {
        v[i] = (idx % k) as u8;
        idx /= k;
    }
    v
}

/// all ways of cutting a sequence of n items into at most `max_parts` consecutive parts (parts may be empty
/// when `allow_empty`), returned as vectors of part lengths
pub fn splits(n: usize, max_parts: usize, allow_empty: bool) -> Vec<Vec<usize>> {
    fn rec(n: usize, parts: usize, allow_empty: bool, cur: &mut Vec<usize>, out: &mut Vec<Vec<usize>>) {
        if parts == 1 {
            if n > 0 || allow_empty {
                cur.push(n);
                out.push(cur.clone());
                cur.pop();
            }
            return;
        }
        let lo = if allow_empty { 0 } else { 1 };
        for first in lo..=n {
            cur.push(first);
            rec(n - first, parts - 1, allow_empty, cur, out);
            cur.pop();
        }
    }
    let mut out = Vec::new();
    for p in 1..=max_parts {
        rec(n, p, allow_empty, &mut Vec::new(), &mut out);
    }
    out
}

pub fn permutations(n: usize) -> Vec<Vec<usize>> {
    fn rec(cur: &mut Vec<usize>, used: &mut Vec<bool>, n: usize, out: &mut Vec<Vec<usize>>) {
        if cur.len() == n {
            out.push(cur.clone());
            return;
        }
        for i in 0..n {
            if !used[i] {
                used[i] = true;
                cur.push(i);
                rec(cur, used, n, out);
                cur.pop();
                used[i] = false;
            }
        }
    }
    let mut out = Vec::new();
    rec(&mut Vec::new(), &mut vec![false; n], n, &mut out);
    out
}

// ---------------------------------------------------------------------------------------------
// known findings

#[derive(Clone, Debug)]
pub struct KnownFinding {
    pub property: String,
    pub id: String,
    pub status: String,
    pub signature: String,
    pub description: String,
}

pub fn load_known_findings() -> Result<Vec<KnownFinding>, String> {
    let path = format!("{}/known_findings.json", verif_dir());
    let text = match std::fs::read_to_string(&path) {
        Ok(t) => t,
        Err(_) => return Ok(vec![]),
    };
    let j: J = serde_json::from_str(&text).map_err(|e| format!("known_findings.json: {}", e))?;
    let mut out = Vec::new();
    for f in j["findings"].as_array().cloned().unwrap_or_default() {
        out.push(KnownFinding {
            property: f["property"].as_str().unwrap_or("").to_string(),
            id: f["id"].as_str().unwrap_or("").to_string(),
            status: f["status"].as_str().unwrap_or("").to_string(),
            signature: f["signature"].as_str().unwrap_or("").to_string(),
            description: f["description"].as_str().unwrap_or("").to_string(),
        });
    }
    Ok(out)
}

// ---------------------------------------------------------------------------------------------
// finishing a run: classify, write replays + evidence, exit code

pub struct Finish {
    pub level: &'static str,
    pub rule: String,
    pub exhaustive: bool,
    pub assumptions: Vec<String>,
    pub bounds: J,
}

pub fn finish(ctx: &Ctx, col: &Collector, fin: Finish) -> i32 {
    let known = match load_known_findings() {
        Ok(k) => k,
        Err(e) => {
            println!("MACHINERY-ERROR: {}", e);
            return 2;
        }
    };
    let failures = col.failures.lock().unwrap();
    let mut violations = 0u64;
    let mut known_seen: Vec<J> = Vec::new();
    let mut violation_list: Vec<J> = Vec::new();
    std::fs::create_dir_all(format!("{}/replays", verif_dir())).ok();
    for (sig, fs) in failures.iter() {
        let f = &fs[0];
        let kf = known.iter().find(|k| k.property == ctx.prop && k.status == "known" && &k.signature == sig);
        if let Some(kf) = kf {
            println!("KNOWN-FINDING: property={} {} [{}] {}", ctx.prop, kf.id, sig, f.what);
            known_seen.push(json!({"id": kf.id, "signature": sig, "witness": f.case}));
        } else {
            violations += 1;
            let name = format!("{}/replays/{}-{:016x}.json", verif_dir(), ctx.prop, h64(sig));
            let body = json!({
                "property": ctx.prop,
                "signature": sig,
                "what": f.what,
                "case": f.case,
                "expected": f.expected,
                "actual": f.actual,
                "more_cases_with_same_signature": fs.iter().skip(1).map(|f| f.case.clone()).collect::<Vec<_>>(),
                "replay": format!("cd /verif && ./check {} --replay {}", ctx.prop, name),
            });
            std::fs::write(&name, serde_json::to_string_pretty(&body).unwrap()).ok();
            println!("VIOLATION property={} replay={}", ctx.prop, name);
            println!("  signature: {}", sig);
            println!("  what: {}", f.what);
            violation_list.push(json!({"signature": sig, "replay": name, "what": f.what}));
        }
    }
    let machinery = col.machinery_error.lock().unwrap().clone();
    let evaluations = col.evaluations.load(Ordering::Relaxed);
    let nontrivial = col.nontrivial_count();
    let outcomes = col.outcome_count();
    let capped = col.capped.load(Ordering::Relaxed);
    let mut coverage = json!({
        "evaluations": evaluations,
        "distinct_nontrivial": nontrivial,
        "rule": fin.rule,
        "samples": *col.samples.lock().unwrap(),
        "distinct_outcomes": outcomes,
        "exhaustive": fin.exhaustive && !capped,
        "capped": capped,
        "bounds": fin.bounds,
        "layers": *col.layers.lock().unwrap(),
        "known_findings_seen": known_seen,
        "violations_found": violation_list,
        "notes": *col.notes.lock().unwrap(),
    });
    let states = col.states.load(Ordering::Relaxed);
    let transitions = col.transitions.load(Ordering::Relaxed);
    if states > 0 || fin.level == "model_checking" {
        coverage["states"] = json!(states);
        coverage["transitions"] = json!(transitions);
        coverage["traces_validated_against_impl"] = json!(col.traces_validated.load(Ordering::Relaxed));
    }
    let evidence = json!({
        "property_id": ctx.prop,
        "tier": ctx.tier.name(),
        "seed": ctx.seed,
        "level": fin.level,
        "coverage": coverage,
        "assumptions": fin.assumptions,
        "wall_s": (ctx.elapsed() * 1000.0).round() / 1000.0,
        "violations": violations,
    });
    std::fs::create_dir_all(format!("{}/evidence", verif_dir())).ok();
    let epath = format!("{}/evidence/{}.json", verif_dir(), ctx.prop);
    if let Err(e) = std::fs::write(&epath, serde_json::to_string_pretty(&evidence).unwrap()) {
        println!("MACHINERY-ERROR: cannot write evidence {}: {}", epath, e);
        return 2;
    }
    println!(
        "{} {}: evaluations={} distinct_nontrivial={} distinct_outcomes={} states={} transitions={} known_findings={} violations={} capped={} wall={:.1}s",
        ctx.prop,
        ctx.tier.name(),
        evaluations,
        nontrivial,
        outcomes,
        states,
        transitions,
        coverage["known_findings_seen"].as_array().map(|a| a.len()).unwrap_or(0),
        violations,
        capped,
        ctx.elapsed()
    );
    if let Some(m) = machinery {
        println!("MACHINERY-ERROR: {}", m);
        return 2;
    }
    if HARNESS_PANIC.load(Ordering::Relaxed) {
        println!("MACHINERY-ERROR: a harness worker thread panicked (see stderr); coverage is incomplete");
        return 2;
    }
    if violations > 0 {
        return 1;
    }
    if evaluations == 0 || nontrivial < 2 || outcomes < 2 {
        println!("MACHINERY-ERROR: vacuous run (evaluations={}, nontrivial={}, outcomes={})", evaluations, nontrivial, outcomes);
        return 2;
    }
    0
}

/// Replay helper: run the case twice, require identical failure signatures (determinism), print the verdict.
pub fn replay_report(prop: &str, path: &str, run: &dyn Fn(&J) -> Vec<Failure>) -> i32 {
    let text = match std::fs::read_to_string(path) {
        Ok(t) => t,
        Err(e) => {
            println!("MACHINERY-ERROR: cannot read {}: {}", path, e);
            return 2;
        }
    };
    let j: J = match serde_json::from_str(&text) {
        Ok(j) => j,
        Err(e) => {
            println!("MACHINERY-ERROR: bad replay file: {}", e);
            return 2;
        }
    };
    let case = if j.get("case").is_some() { j["case"].clone() } else { j.clone() };
    let a = run(&case);
    let b = run(&case);
    let sa: Vec<String> = a.iter().map(|f| f.signature.clone()).collect();
    let sb: Vec<String> = b.iter().map(|f| f.signature.clone()).collect();
    if sa != sb {
        println!("MACHINERY-ERROR: replay is not deterministic: {:?} vs {:?}", sa, sb);
        return 2;
    }
    if a.is_empty() {
        println!("REPLAY property={} result=holds case={}", prop, case);
        return 0;
    }
    let known = load_known_findings().unwrap_or_default();
    let mut rc = 0;
    for f in &a {
        let is_known = known.iter().any(|k| k.property == prop && k.status == "known" && k.signature == f.signature);
        if is_known {
            println!("KNOWN-FINDING: property={} [{}] {}", prop, f.signature, f.what);
        } else {
            println!("VIOLATION property={} replay={}", prop, path);
            println!("  signature: {}", f.signature);
            println!("  what: {}", f.what);
            println!("  expected: {}", f.expected);
            println!("  actual:   {}", f.actual);
            rc = 1;
        }
    }
    rc
}

// ---------------------------------------------------------------------------------------------
// stateright BFS over input histories: a state is the history (sequence of alphabet indexes) that reaches it;
// the oracle is evaluated on every state by replaying the history against the real engine.

pub struct HistModel<F: Fn(&[u8]) + Send + Sync + 'static> {
    pub k: u8,
    pub max: usize,
    pub check: F,
}

impl<F: Fn(&[u8]) + Send + Sync + 'static> stateright::Model for HistModel<F> {
    type State = Vec<u8>;
    type Action = u8;
    fn init_states(&self) -> Vec<Self::State> {
        vec![vec![]]
    }
    fn actions(&self, state: &Self::State, actions: &mut Vec<Self::Action>) {
        if state.len() < self.max {
            for a in 0..self.k {
                actions.push(a);
            }
        }
    }
    fn next_state(&self, state: &Self::State, action: Self::Action) -> Option<Self::State> {
        let mut s = state.clone();
        s.push(action);
        Some(s)
    }
    fn properties(&self) -> Vec<stateright::Property<Self>> {
        vec![stateright::Property::always("oracle (discrepancies are recorded, never short-circuit)", |m: &HistModel<F>, s: &Vec<u8>| {
            (m.check)(s);
            true
        })]
    }
}

pub struct HistStats {
    pub unique_states: u64,
    pub generated: u64,
    pub max_depth: u64,
}

pub fn run_hist<F: Fn(&[u8]) + Send + Sync + 'static>(k: u8, max: usize, threads: usize, check: F) -> HistStats {
    use stateright::{Checker, Model};
    let checker = HistModel { k, max, check }.checker().threads(threads).spawn_bfs().join();
    HistStats { unique_states: checker.unique_state_count() as u64, generated: checker.state_count() as u64, max_depth: checker.max_depth() as u64 }
}
