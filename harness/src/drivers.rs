//! Cross-driver layer shared by several checks: one (definition, statement, lines) case is pushed through every way the
//! program can be driven - the batch executor over one file, over the same lines split into several files (with and
//! without a final line break, an empty file in between), over a pipe, with CRLF line ends, in CSV and text format, the
//! command line program over files and over standard input, and follow mode from the head of the file - and every
//! driver must deliver what the one-file batch run in JSON format delivers. The base run itself is judged by the
//! calling check against its reference; this layer only transports that verdict to the other drivers.
//!
//! `order_independent` re-executes a list of cases in the opposite order inside one thread: whatever a case printed
//! when it ran first it must print when it runs last (state kept between statements, engines or tables would show).

use serde_json::{json, Value as J};

use sqlgrep::executor::OutputFormat;

use crate::checks::fail;
use crate::core::*;
use crate::sut::{self, FileRunOpts, Outcome};

fn nonblank(v: &[String]) -> Vec<String> {
    v.iter().filter(|l| !l.is_empty()).cloned().collect()
}

pub struct Case<'a> {
    pub def: &'a str,
    pub stmt: &'a str,
    pub lines: &'a [&'a str],
    /// command line and follow-mode drivers (child processes) as well
    pub processes: bool,
}

fn bytes_of(lines: &[&str], eol: &str, last: bool) -> Vec<u8> {
    let mut v = Vec::new();
    for (i, l) in lines.iter().enumerate() {
        v.extend_from_slice(l.as_bytes());
        if i + 1 < lines.len() || last {
            v.extend_from_slice(eol.as_bytes());
        }
    }
    v
}

/// the last table of a follow-mode aggregate display (tables are separated by the clear-screen sequence)
fn last_table(delivered: &[String]) -> Vec<String> {
    let joined = delivered.join("\n");
    let part = joined.split("\u{1b}[2J\u{1b}[1;1H").last().unwrap_or("").to_string();
    part.lines().filter(|l| !l.is_empty()).map(|l| l.to_string()).collect()
}

pub fn cross(c: &Case, kind: &str) -> (Vec<Failure>, u64) {
    let tables = match sut::make_tables(c.def) {
        Ok(t) => t,
        Err(_) => return (vec![], 0),
    };
    let st = match sut::parse(c.stmt) {
        Ok(s) => s,
        Err(_) => return (vec![], 0),
    };
    let one = bytes_of(c.lines, "\n", true);
    let base = match sut::run_files(&tables, &st, &[one.as_slice()], FileRunOpts::default()) {
        Outcome::Ok(fr) if fr.result.is_ok() => nonblank(&fr.printed),
        _ => return (vec![], 1),
    };
    let mut out = Vec::new();
    let evals = std::cell::Cell::new(1u64);
    let case = |driver: &str| json!({"layer": "drivers", "definition": c.def, "statement": c.stmt, "lines": c.lines, "driver": driver});
    let check = |driver: &str, got: Option<Vec<String>>, out: &mut Vec<Failure>| {
        evals.set(evals.get() + 1);
        if got.as_ref() != Some(&base) {
            out.push(fail(
                format!("drivers:{}:{}", driver.split(':').next().unwrap_or(driver), kind),
                format!("`{}` over {:?}: driver `{}` delivers {:?}, the one-file batch run delivers {:?}", c.stmt, c.lines, driver, got, base),
                case(driver),
                json!(base),
                json!(got),
                (c.lines.len() * 10) as u64,
            ));
        }
    };
    let printed = |r: Outcome<sut::FileRun>| -> Option<Vec<String>> {
        match r {
            Outcome::Ok(fr) if fr.result.is_ok() => Some(nonblank(&fr.printed)),
            _ => None,
        }
    };
    let n = c.lines.len();
    // several files
    for cut in 1..n {
        for noeol in [false, true] {
            if noeol && c.lines[cut - 1].is_empty() {
                continue;
            }
            let a = bytes_of(&c.lines[..cut], "\n", !noeol);
            let b = bytes_of(&c.lines[cut..], "\n", true);
            check(&format!("two-files:cut={}:{}", cut, if noeol { "first-without-final-line-break" } else { "terminated" }), printed(sut::run_files(&tables, &st, &[a.as_slice(), b.as_slice()], FileRunOpts::default())), &mut out);
        }
    }
    if n >= 2 {
        let a = bytes_of(&c.lines[..1], "\n", true);
        let b = bytes_of(&c.lines[1..], "\n", true);
        check("three-files:empty-file-in-the-middle", printed(sut::run_files(&tables, &st, &[a.as_slice(), &b""[..], b.as_slice()], FileRunOpts::default())), &mut out);
        check("three-files:empty-file-first", printed(sut::run_files(&tables, &st, &[&b""[..], a.as_slice(), b.as_slice()], FileRunOpts::default())), &mut out);
    }
    if n >= 1 && !c.lines[n - 1].is_empty() {
        let a = bytes_of(c.lines, "\n", false);
        check("one-file:without-final-line-break", printed(sut::run_files(&tables, &st, &[a.as_slice()], FileRunOpts::default())), &mut out);
    }
    // CRLF line ends (the CR is part of the line end)
    if c.lines.iter().all(|l| !l.ends_with('\r')) {
        let a = bytes_of(c.lines, "\r\n", true);
        check("one-file:crlf", printed(sut::run_files(&tables, &st, &[a.as_slice()], FileRunOpts::default())), &mut out);
    }
    // pipe
    if one.len() < 60_000 {
        check("pipe", printed(sut::run_opened_files(&tables, &st, vec![sut::pipe_file(&one)], FileRunOpts::default())), &mut out);
    }
    // CSV / text: as many records (CSV: plus one header line when there are records)
    for (name, fmt, extra) in [("csv", OutputFormat::CSV(";".into()), 1usize), ("text", OutputFormat::Text, 0usize)] {
        evals.set(evals.get() + 1);
        let got = printed(sut::run_files(&tables, &st, &[one.as_slice()], FileRunOpts { format: fmt, ..Default::default() }));
        let want = if base.is_empty() { 0 } else { base.len() + extra };
        let ok = match &got {
            Some(g) => g.len() == want || (base.is_empty() && g.len() <= extra),
            None => false,
        };
        if !ok {
            out.push(fail(
                format!("drivers:format-{}:{}", name, kind),
                format!("`{}` over {:?} in {} format prints {:?} lines, JSON format prints {} records", c.stmt, c.lines, name, got.as_ref().map(|g| g.len()), base.len()),
                case(name),
                json!(base),
                json!(got),
                (c.lines.len() * 10) as u64,
            ));
        }
    }
    if c.processes {
        let dir = sut::tmp_dir();
        static CNT: std::sync::atomic::AtomicU64 = std::sync::atomic::AtomicU64::new(0);
        let defp = format!("{}/drv_def_{}_{}.txt", dir, std::process::id(), CNT.fetch_add(1, std::sync::atomic::Ordering::Relaxed));
        if std::fs::write(&defp, c.def).is_ok() {
            let data = sut::TempFiles::new(&[one.as_slice()]);
            if let Some(g) = sut::run_cli(&["-d", &defp, &data.paths[0], "--format", "json", "-c", c.stmt]) {
                check("cli:file", Some(nonblank(&g.0)), &mut out);
            }
            if let Some(g) = sut::run_cli_stdin(&["-d", &defp, "--stdin", "--format", "json", "-c", c.stmt], &one) {
                check("cli:stdin", Some(nonblank(&g.0)), &mut out);
            }
            if n >= 2 {
                let a = bytes_of(&c.lines[..1], "\n", true);
                let b = bytes_of(&c.lines[1..], "\n", true);
                let two = sut::TempFiles::new(&[a.as_slice(), b.as_slice()]);
                if let Some(g) = sut::run_cli(&["-d", &defp, &two.paths[0], &two.paths[1], "--format", "json", "-c", c.stmt]) {
                    check("cli:two-files", Some(nonblank(&g.0)), &mut out);
                }
                // named against the order of their names, one of them twice: what the batch executor prints over b a b
                if let (Some(g), Some(want)) = (sut::run_cli(&["-d", &defp, &two.paths[1], &two.paths[0], &two.paths[1], "--format", "json", "-c", c.stmt]), printed(sut::run_files(&tables, &st, &[b.as_slice(), a.as_slice(), b.as_slice()], FileRunOpts::default()))) {
                    evals.set(evals.get() + 1);
                    let got = nonblank(&g.0);
                    if got != want {
                        out.push(fail(
                            format!("drivers:cli:{}", kind),
                            format!("`{}`: sqlgrep over the files b a b (a = {:?}, b = the other lines) prints {:?}, the batch executor over the same contents prints {:?}", c.stmt, &c.lines[..1], got, want),
                            case("cli:files-b-a-b"),
                            json!(want),
                            json!(got),
                            (c.lines.len() * 10) as u64,
                        ));
                    }
                }
            }
            std::fs::remove_file(&defp).ok();
        }
        // follow mode from the head of the file: everything appended at once, and line by line
        // (follow mode does not support joins: it reports JoinNotSupported)
        if !c.stmt.contains("LIMIT") && st.join_clause().is_none() {
            let mut fragments: Vec<Vec<u8>> = Vec::new();
            for l in c.lines {
                let b = format!("{}\n", l).into_bytes();
                if b.len() >= 3 {
                    let (p, q) = (b.len() / 3, 2 * b.len() / 3);
                    fragments.push(b[..p].to_vec());
                    fragments.push(b[p..q].to_vec());
                    fragments.push(b[q..].to_vec());
                } else {
                    fragments.push(b);
                }
            }
            for (name, chunks) in [("follow:at-once", vec![one.clone()]), ("follow:line-by-line", c.lines.iter().map(|l| format!("{}\n", l).into_bytes()).collect::<Vec<_>>()), ("follow:three-fragments-per-line", fragments)] {
                let (delivered, end, ok) = crate::checks::c10::follow_child_def(true, b"", &chunks, c.stmt, -1, Some(c.def));
                let got = if st.is_aggregate() { last_table(&delivered) } else { delivered.iter().filter(|l| !l.is_empty() && !l.contains('\u{1b}')).cloned().collect() };
                if end == "ok" && ok {
                    check(name, Some(got), &mut out);
                } else {
                    check(name, None, &mut out);
                }
            }
        }
    }
    (out, evals.get())
}

pub fn replay_case(case: &J) -> Vec<Failure> {
    let lines: Vec<String> = case["lines"].as_array().map(|a| a.iter().filter_map(|x| x.as_str().map(|s| s.to_string())).collect()).unwrap_or_default();
    let lrefs: Vec<&str> = lines.iter().map(|s| s.as_str()).collect();
    let driver = case["driver"].as_str().unwrap_or("").to_string();
    let c = Case { def: case["definition"].as_str().unwrap_or(""), stmt: case["statement"].as_str().unwrap_or(""), lines: &lrefs, processes: driver.starts_with("cli") || driver.starts_with("follow") };
    cross(&c, "replay").0.into_iter().filter(|f| f.case["driver"] == case["driver"]).collect()
}

/// every case printed the same when the list is executed forwards and backwards inside one thread
pub fn order_independent(cases: &[(String, String, Vec<String>)], kind: &str) -> (Vec<Failure>, u64) {
    // one running flag for all executions of a direction, as a caller that keeps its handle between queries would do
    let run_all = |order: Vec<usize>| -> Vec<(usize, Option<Vec<String>>)> {
        let shared = std::sync::Arc::new(std::sync::atomic::AtomicBool::new(true));
        order
            .into_iter()
            .map(|i| {
                let (def, stmt, lines) = &cases[i];
                let got = (|| {
                    let tables = sut::make_tables(def).ok()?;
                    let st = sut::parse(stmt).ok()?;
                    let lrefs: Vec<&str> = lines.iter().map(|s| s.as_str()).collect();
                    let one = bytes_of(&lrefs, "\n", true);
                    match sut::run_files(&tables, &st, &[one.as_slice()], FileRunOpts { running: shared.clone(), ..FileRunOpts::default() }) {
                        Outcome::Ok(fr) => Some(fr.printed.iter().cloned().chain(std::iter::once(format!("result={:?}", fr.result.is_ok()))).collect()),
                        Outcome::Err(e) => Some(vec![format!("error:{}", msg_class(&e))]),
                        Outcome::Panic(p) => Some(vec![format!("panic:{}", p.msg)]),
                    }
                })();
                (i, got)
            })
            .collect()
    };
    // a fresh thread per direction, so that each direction starts from fresh thread-local state
    let n = cases.len();
    let fwd = std::thread::scope(|s| s.spawn(|| run_all((0..n).collect())).join().unwrap());
    let bwd = std::thread::scope(|s| s.spawn(|| run_all((0..n).rev().collect())).join().unwrap());
    let mut out = Vec::new();
    // the whole list twice in one thread: the second execution of a case must print what its first execution printed
    let twice = std::thread::scope(|s| s.spawn(|| { let first = run_all((0..n).collect()); let second = run_all((0..n).collect()); (first, second) }).join().unwrap());
    for ((i, first), (_, second)) in twice.0.iter().zip(twice.1.iter()) {
        if first != second {
            let (def, stmt, lines) = &cases[*i];
            out.push(fail(
                format!("second-execution:{}", kind),
                format!("`{}` prints {:?} the first time and {:?} the second time it runs in one thread", stmt, first, second),
                json!({"layer": "order-of-execution", "definition": def, "statement": stmt, "lines": lines, "index": i}),
                json!(first),
                json!(second),
                *i as u64,
            ));
        }
    }
    for (i, got) in &fwd {
        let other = bwd.iter().find(|(j, _)| j == i).map(|(_, g)| g.clone()).unwrap_or(None);
        if *got != other {
            let (def, stmt, lines) = &cases[*i];
            out.push(fail(
                format!("order-of-execution:{}", kind),
                format!("`{}` prints {:?} when the case list runs forwards and {:?} when it runs backwards in one thread", stmt, got, other),
                json!({"layer": "order-of-execution", "definition": def, "statement": stmt, "lines": lines, "index": i}),
                json!(got),
                json!(other),
                *i as u64,
            ));
        }
    }
    (out, 4 * n as u64)
}

/// runs `cross` over a list of cases in parallel and `order_independent` over the same list; registers one layer
pub fn run_layer(col: &Collector, cases: &[(String, String, Vec<String>, bool)], kind_of: &(dyn Fn(&str) -> String + Sync)) {
    par_for(cases.len() as u64, |i| {
        let (def, stmt, lines, processes) = &cases[i as usize];
        let lrefs: Vec<&str> = lines.iter().map(|s| s.as_str()).collect();
        let (fs, evals) = cross(&Case { def, stmt, lines: &lrefs, processes: *processes }, &kind_of(stmt));
        col.eval(evals);
        if lines.len() >= 2 {
            col.nontrivial(h64(&("drivers", def, stmt, lines)));
        }
        for f in fs {
            col.fail(f);
        }
    });
    let plain: Vec<(String, String, Vec<String>)> = cases.iter().map(|(d, s, l, _)| (d.clone(), s.clone(), l.clone())).collect();
    let (fs, evals) = order_independent(&plain, "statement-list");
    col.eval(evals);
    for f in fs {
        col.fail(f);
    }
    col.layer(
        "drivers: files split / pipe / CRLF / CSV / text / command line / follow mode vs the one-file batch run; forwards vs backwards execution of the case list",
        cases.len() as u64,
        true,
        json!({"cases": cases.len(), "with_child_processes": cases.iter().filter(|c| c.3).count()}),
    );
}

pub fn replay_any(case: &J) -> Option<Vec<Failure>> {
    match case["layer"].as_str() {
        Some("drivers") => Some(replay_case(case)),
        Some("order-of-execution") => {
            println!("note: order-of-execution cases are replayed by re-running the check");
            Some(vec![])
        }
        _ => None,
    }
}
