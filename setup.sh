#!/bin/bash
# builds the harness (and the hash-seed shim) offline from files on disk only
cd "$(dirname "$0")" || exit 1
export CARGO_NET_OFFLINE=true
export CARGO_TARGET_DIR="$PWD/target"
mkdir -p target evidence replays
(cd harness && cargo build --release --offline) || exit 1
cargo build --release --offline --manifest-path /repo/Cargo.toml --bin sqlgrep --target-dir "$PWD/target/cli" || exit 1
if [ -f shim/seedshim.c ]; then
  gcc -O2 -shared -fPIC -o target/seedshim.so shim/seedshim.c -ldl || exit 1
fi
echo "setup ok"
